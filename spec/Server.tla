------------------------------- MODULE Server -------------------------------
(***************************************************************************)
(* The server's transact handler as a lock protocol (server/server.go      *)
(* Transact): take the transaction lock, execute against the committed     *)
(* database, notify every monitor (waiting for each acknowledgement),      *)
(* commit, reply, release.  Property C17: the results and the final        *)
(* contents are those of running the committed transactions one after      *)
(* another, and every monitor is told in that same order.                  *)
(*                                                                         *)
(* Transactions are abstracted to the two patterns C17 singles out:        *)
(*   "inc"     read-modify-write of a counter (never lost)                 *)
(*   "claim"   insert-if-absent of a unique key (exactly one winner)       *)
(* Variant "intended" | "nolock" (no transaction lock) |                   *)
(*         "commitAfterUnlock" (the lock is released before the commit).   *)
(***************************************************************************)
EXTENDS Integers, Sequences, FiniteSets, TLC

CONSTANTS Clients, Kind, Variant     \* Kind: client -> "inc" | "claim"

VARIABLES counter, owner,        \* committed database: a counter, the owner of the unique key ("" = free)
          lock,                  \* holder of the transaction lock or ""
          pc, readCtr, readOwner,\* per client: program counter, what it read when executing
          result,                \* per client: "" | "ok" | "dup"
          commits,               \* commit order
          notified               \* order in which the monitor was notified
vars == <<counter, owner, lock, pc, readCtr, readOwner, result, commits, notified>>

Init == /\ counter = 0 /\ owner = "" /\ lock = ""
        /\ pc = [c \in Clients |-> "start"]
        /\ readCtr = [c \in Clients |-> 0] /\ readOwner = [c \in Clients |-> ""]
        /\ result = [c \in Clients |-> ""]
        /\ commits = <<>> /\ notified = <<>>

TLock(c) == /\ pc[c] = "start"
            /\ IF Variant = "nolock" THEN UNCHANGED lock ELSE lock = "" /\ lock' = c
            /\ pc' = [pc EXCEPT ![c] = "exec"]
            /\ UNCHANGED <<counter, owner, readCtr, readOwner, result, commits, notified>>

\* execute against the committed database: results are decided here
TExec(c) == /\ pc[c] = "exec"
            /\ readCtr' = [readCtr EXCEPT ![c] = counter]
            /\ readOwner' = [readOwner EXCEPT ![c] = owner]
            /\ result' = [result EXCEPT ![c] = IF Kind[c] = "claim" /\ owner # "" THEN "dup" ELSE "ok"]
            /\ pc' = [pc EXCEPT ![c] = IF Kind[c] = "claim" /\ owner # "" THEN "reply" ELSE "notify"]
            /\ UNCHANGED <<counter, owner, lock, commits, notified>>

TNotify(c) == /\ pc[c] = "notify"
              /\ notified' = Append(notified, c)
              /\ pc' = [pc EXCEPT ![c] = IF Variant = "commitAfterUnlock" THEN "unlockEarly" ELSE "commit"]
              /\ UNCHANGED <<counter, owner, lock, readCtr, readOwner, result, commits>>

TUnlockEarly(c) == /\ pc[c] = "unlockEarly"
                   /\ lock' = "" /\ pc' = [pc EXCEPT ![c] = "commit"]
                   /\ UNCHANGED <<counter, owner, readCtr, readOwner, result, commits, notified>>

\* apply the update computed at execution time
TCommit(c) == /\ pc[c] = "commit"
              /\ IF Kind[c] = "inc" THEN counter' = readCtr[c] + 1 /\ UNCHANGED owner
                 ELSE owner' = c /\ UNCHANGED counter
              /\ commits' = Append(commits, c)
              /\ pc' = [pc EXCEPT ![c] = "reply"]
              /\ UNCHANGED <<lock, readCtr, readOwner, result, notified>>

TReply(c) == /\ pc[c] = "reply"
             /\ lock' = IF lock = c THEN "" ELSE lock
             /\ pc' = [pc EXCEPT ![c] = "done"]
             /\ UNCHANGED <<counter, owner, readCtr, readOwner, result, commits, notified>>

Next == \E c \in Clients : TLock(c) \/ TExec(c) \/ TNotify(c) \/ TUnlockEarly(c) \/ TCommit(c) \/ TReply(c)
Spec == Init /\ [][Next]_vars

AllDone == \A c \in Clients : pc[c] = "done"
Incs == {c \in Clients : Kind[c] = "inc"}
Claims == {c \in Clients : Kind[c] = "claim"}

NoLostIncrement == AllDone => counter = Cardinality(Incs)
OneWinner == AllDone => Cardinality({c \in Claims : result[c] = "ok"}) = (IF Claims = {} THEN 0 ELSE 1)
NotifiedInCommitOrder == AllDone => notified = commits
=============================================================================
