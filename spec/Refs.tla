-------------------------------- MODULE Refs --------------------------------
(***************************************************************************)
(* Referential integrity (RFC 7047 sections 3.2 "refType", 4.1.3 and the   *)
(* garbage collection of non-root tables) and unique indexes, as functions *)
(* of the stored rows only.                                                *)
(*                                                                         *)
(* A database is db[t][u] = total row of table t stored under uuid u.      *)
(***************************************************************************)
EXTENDS Mutate

Exists(db, t, u) == u \in DOMAIN db[t]

\* every reference held by the database:
\* [ft, fu, fc, p, tt, to, rt]  (from table/uuid/column, position, to table/uuid, refType)
AllRefs(db) ==
    UNION { UNION { UNION { UNION {
        { [ft |-> t, fu |-> u, fc |-> c, p |-> p, tt |-> RefBase(t, c, p).ref,
           to |-> x, rt |-> RefBase(t, c, p).rt]
          : x \in Targets(Col(t, c), db[t][u][c], p) }
        : p \in RefPositions(t, c) }
        : c \in Cols(t) }
        : u \in DOMAIN db[t] }
        : t \in Tables }

IsStrong(r) == r.rt # "weak"        \* refType defaults to strong

StrongRefs(db) == {r \in AllRefs(db) : IsStrong(r)}
WeakRefs(db)   == {r \in AllRefs(db) : ~IsStrong(r)}

Dangling(db)     == {r \in StrongRefs(db) : ~Exists(db, r.tt, r.to)}
DanglingWeak(db) == {r \in WeakRefs(db) : ~Exists(db, r.tt, r.to)}

\* rows of non-root tables that no existing row strongly references
Unreferenced(db) ==
    LET sr == StrongRefs(db)
    IN  { <<t, u>> \in UNION {{<<t, u>> : u \in DOMAIN db[t]} : t \in {t \in Tables : ~IsRoot(t)}} :
            ~\E r \in sr : r.tt = t /\ r.to = u }

RemoveRows(db, dead) ==
    [t \in Tables |-> Without(db[t], {u \in DOMAIN db[t] : <<t, u>> \in dead})]

RECURSIVE GC(_)
GC(db) == LET dead == Unreferenced(db)
          IN  IF dead = {} THEN db ELSE GC(RemoveRows(db, dead))

\* one value with its dangling weak references removed
PruneValue(db, t, c, v) ==
    LET col == Col(t, c)
        gone(p, x) == p \in RefPositions(t, c) /\ RefBase(t, c, p).rt = "weak"
                      /\ ~Exists(db, RefBase(t, c, p).ref, x)
    IN  CASE col.kind = "atom" -> v
          [] col.kind \in {"opt", "set"} -> {x \in v : ~gone("k", x)}
          [] col.kind = "map" -> Without(v, {k \in DOMAIN v : gone("k", k) \/ gone("v", v[k])})

Prune(db) ==
    [t \in Tables |-> [u \in DOMAIN db[t] |->
        [c \in Cols(t) |-> PruneValue(db, t, c, db[t][u][c])]]]

\* the state a transaction's operations lead to, after garbage collection and
\* weak reference pruning (pruning never changes strong references, so one
\* round of each is the fix-point)
Fix(db) == Prune(GC(db))

\* weak references that cannot be pruned: atomic (exactly-one) columns, and
\* columns that pruning would leave below their minimum
MinViolations(db) ==
    LET g == GC(db)
        p == Prune(g)
    IN  { <<t, u, c>> \in UNION { UNION {{<<t, u, c>> : c \in Cols(t)} : u \in DOMAIN g[t]} : t \in Tables } :
            \/ /\ p[t][u][c] # g[t][u][c]
               /\ Card(Col(t, c), p[t][u][c]) < Col(t, c).min
            \/ /\ Col(t, c).kind = "atom"
               /\ \E r \in DanglingWeak(g) : r.ft = t /\ r.fu = u /\ r.fc = c }

\* the reference index recomputed from the rows:
\* <<toTable, fromTable, fromColumn, position, to, {from...}>>
RefIndex(db) ==
    LET ar == AllRefs(db)
    IN  { <<r.tt, r.ft, r.fc, r.p, r.to, {q.fu : q \in {q \in ar :
              q.tt = r.tt /\ q.ft = r.ft /\ q.fc = r.fc /\ q.p = r.p /\ q.to = r.to}}>> : r \in ar }

\* the invariant of property C04
RefsOK(db) ==
    /\ Dangling(db) = {}
    /\ DanglingWeak(db) = {}
    /\ Unreferenced(db) = {}

\* ---------------------------------------------------------------- indexes
IndexKey(row, cols) == [i \in DOMAIN cols |-> row[cols[i]]]

Duplicates(db) ==
    { <<t, idx, u1, u2>> \in UNION { UNION {{<<t, idx, u1, u2>> : u1, u2 \in DOMAIN db[t]} : idx \in Indexes(t)} : t \in Tables } :
        u1 # u2 /\ IndexKey(db[t][u1], idx) = IndexKey(db[t][u2], idx) }

UniqueOK(db) == Duplicates(db) = {}
=============================================================================
