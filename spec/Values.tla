------------------------------- MODULE Values -------------------------------
(***************************************************************************)
(* OVSDB values (RFC 7047 section 5.1) as TLA+ values.                     *)
(*                                                                         *)
(*   integer  -> Int            boolean -> BOOLEAN     string -> STRING    *)
(*   real     -> <<n, d>>  normalised fraction, d > 0 (the drivers only    *)
(*               produce dyadic values, exact in float64)                  *)
(*   uuid     -> STRING token ("u7", "g3"; "" is the all-zero default)     *)
(*   optional / set -> TLA+ set of atoms                                   *)
(*   map      -> TLA+ function key -> value                                *)
(*                                                                         *)
(* The JSON form shared with the Go harness: atoms as themselves, reals as *)
(* [n,d], optional/set as an array, map as an array of [k,v] pairs.        *)
(***************************************************************************)
EXTENDS Integers, Sequences, FiniteSets, TLC

AbsI(x) == IF x < 0 THEN -x ELSE x

RECURSIVE GCD(_, _)
GCD(a, b) == IF b = 0 THEN a ELSE GCD(b, a % b)

\* reals -------------------------------------------------------------------
RNorm(n, d) ==
    LET g == GCD(AbsI(n), AbsI(d))
        s == IF d < 0 THEN -1 ELSE 1
    IN  IF n = 0 THEN <<0, 1>> ELSE <<(s * n) \div g, (s * d) \div g>>
RAdd(a, b) == RNorm(a[1] * b[2] + b[1] * a[2], a[2] * b[2])
RSub(a, b) == RNorm(a[1] * b[2] - b[1] * a[2], a[2] * b[2])
RMul(a, b) == RNorm(a[1] * b[1], a[2] * b[2])
RDiv(a, b) == RNorm(a[1] * b[2], a[2] * b[1])      \* b[1] # 0
RLt(a, b)  == a[1] * b[2] < b[1] * a[2]
RZero      == <<0, 1>>

\* integers: C / Go semantics (truncation toward zero, remainder has the
\* sign of the dividend)
TDiv(a, b) ==
    LET q == AbsI(a) \div AbsI(b)
    IN  IF (a < 0) = (b < 0) THEN q ELSE -q
TMod(a, b) == a - b * TDiv(a, b)

\* order on the two ordered atomic types
ALt(t, a, b) == IF t = "real" THEN RLt(a, b) ELSE a < b
ALe(t, a, b) == a = b \/ ALt(t, a, b)

\* arithmetic on one atom; "err" marks a domain error
Arith(t, mut, a, x) ==
    IF t = "real"
    THEN CASE mut = "+=" -> RAdd(a, x)
           [] mut = "-=" -> RSub(a, x)
           [] mut = "*=" -> RMul(a, x)
           [] mut = "/=" -> RDiv(a, x)
    ELSE CASE mut = "+=" -> a + x
           [] mut = "-=" -> a - x
           [] mut = "*=" -> a * x
           [] mut = "/=" -> TDiv(a, x)
           [] mut = "%=" -> TMod(a, x)
ArithDomainError(t, mut, x) ==
    \/ mut \in {"/=", "%="} /\ (IF t = "real" THEN x[1] = 0 ELSE x = 0)
    \/ mut = "%=" /\ t = "real"
ArithMutators == {"+=", "-=", "*=", "/=", "%="}

\* JSON <-> value ----------------------------------------------------------
SeqToSet(s) == {s[i] : i \in DOMAIN s}

\* c is a column record [kind, key, val, min, max, mut]
ValJ(c, j) ==
    CASE c.kind = "atom" -> j
      [] c.kind \in {"opt", "set"} -> SeqToSet(j)
      [] c.kind = "map" ->
            [k \in {j[i][1] : i \in DOMAIN j} |->
                LET i == CHOOSE i \in DOMAIN j : j[i][1] = k IN j[i][2]]

AtomDefault(t) ==
    CASE t = "integer" -> 0
      [] t = "real"    -> RZero
      [] t = "boolean" -> FALSE
      [] OTHER         -> ""

EmptyMap == [k \in {} |-> 0]

Default(c) ==
    CASE c.kind = "atom" -> AtomDefault(c.key.t)
      [] c.kind \in {"opt", "set"} -> {}
      [] c.kind = "map" -> EmptyMap

\* the elements of a value as a set of atoms / pairs
Elems(c, v) ==
    CASE c.kind = "atom" -> {v}
      [] c.kind \in {"opt", "set"} -> v
      [] c.kind = "map" -> {<<k, v[k]>> : k \in DOMAIN v}

Card(c, v) == Cardinality(Elems(c, v))

\* function helpers
Restrict(f, S) == [x \in S |-> f[x]]
Without(f, S)  == [x \in DOMAIN f \ S |-> f[x]]
\* g overrides f
Override(f, g) == [x \in DOMAIN f \cup DOMAIN g |-> IF x \in DOMAIN g THEN g[x] ELSE f[x]]
=============================================================================
