------------------------------- MODULE Cache --------------------------------
(***************************************************************************)
(* The row cache (cache/cache.go RowCache) as a state machine: a table of  *)
(* rows by uuid plus one index per schema index (unique: value -> the uuid *)
(* that wrote it last) and per client index (value -> set of uuids), and   *)
(* the application of one batch of row changes (one notification, one      *)
(* committed transaction) ROW BY ROW IN ANY ORDER - the implementation     *)
(* iterates Go maps.  Property C05: at the end of every batch each index   *)
(* agrees with the rows, whatever the order.                               *)
(*                                                                         *)
(* Rows are abstracted to the two fields indexes are built from:           *)
(*   f1 : always present; f2 : present or "nil" (an unset optional column, *)
(*   or an absent map key, depending on the configuration).                *)
(* Variant = "intended": an index entry is removed only if it still points *)
(* to the row being changed; "pinned2022": RowCache.Update removed the old *)
(* schema-index entry unconditionally (the defect repaired in /repo).      *)
(***************************************************************************)
EXTENDS Integers, Sequences, FiniteSets, TLC

CONSTANTS UUIDs, F1Vals, F2Vals, Variant

NoRow == [f1 |-> "none", f2 |-> "none"]
RowVals == [f1 : F1Vals, f2 : F2Vals]

\* index configurations: f2col says what f2 stands for in the real schema
\* ("k2" plain column, "o" optional column, "m" value of a map key)
Idx(name, type, cols) == [name |-> name, type |-> type, cols |-> cols]
Configs == {
    [id |-> "A", f2col |-> "k2", indexes |-> <<Idx("s1", "schema", <<"f1">>)>>],
    [id |-> "B", f2col |-> "k2", indexes |-> <<Idx("s12", "schema", <<"f1", "f2">>)>>],
    [id |-> "C", f2col |-> "k2", indexes |-> <<Idx("c1", "client", <<"f1">>)>>],
    [id |-> "D", f2col |-> "o",  indexes |-> <<Idx("c2", "client", <<"f2">>)>>],
    [id |-> "E", f2col |-> "m",  indexes |-> <<Idx("c2", "client", <<"f2">>)>>],
    [id |-> "F", f2col |-> "o",  indexes |-> <<Idx("s1", "schema", <<"f1">>), Idx("c12", "client", <<"f1", "f2">>),
                                               Idx("c2", "client", <<"f2">>)>>],
    [id |-> "G", f2col |-> "k2", indexes |-> <<Idx("s1", "schema", <<"f1">>), Idx("s2", "schema", <<"f2">>)>>],
    \* a two-column client index over a plain column and a map key: with F1Vals containing "" and a value of
    \* F2Vals, rows (f1 = v, key absent) and (f1 = "", key = v) must stay apart
    [id |-> "H", f2col |-> "m",  indexes |-> <<Idx("c12", "client", <<"f1", "f2">>)>>],
    \* two client indexes and no unique one: rows share values in either, a selection by both columns intersects
    \* the two entries (look-ups must leave the indexes as they are)
    [id |-> "I", f2col |-> "o",  indexes |-> <<Idx("c1", "client", <<"f1">>), Idx("c2", "client", <<"f2">>)>>]
}

\* f2 may be "nil" only where the real column can be unset
F2Allowed(cfg) == IF cfg.f2col = "k2" THEN F2Vals \ {"nil"} ELSE F2Vals

IdxVal(ix, row) == [i \in DOMAIN ix.cols |-> row[ix.cols[i]]]

\* a table is uuid -> row for the uuids present
Present(tbl) == DOMAIN tbl

\* the index recomputed from the rows: value -> set of uuids
IndexOf(ix, tbl) ==
    LET vals == {IdxVal(ix, tbl[u]) : u \in Present(tbl)}
    IN  [v \in vals |-> {u \in Present(tbl) : IdxVal(ix, tbl[u]) = v}]

\* schema indexes are unique in every state a batch starts from or ends in
UniqueOK(cfg, tbl) ==
    \A i \in DOMAIN cfg.indexes :
        cfg.indexes[i].type = "schema" =>
            \A u1, u2 \in Present(tbl) :
                u1 # u2 => IdxVal(cfg.indexes[i], tbl[u1]) # IdxVal(cfg.indexes[i], tbl[u2])

VARIABLES cfg, rows, idx, target, pending

vars == <<cfg, rows, idx, target, pending>>

\* ---- index maintenance, one function per RowCache method
Put(ix, m, v, u) ==
    IF ix.type = "schema" THEN [x \in DOMAIN m \cup {v} |-> IF x = v THEN {u} ELSE m[x]]
    ELSE [x \in DOMAIN m \cup {v} |-> IF x = v THEN (IF v \in DOMAIN m THEN m[v] ELSE {}) \cup {u} ELSE m[x]]

\* remove u from the entry of v; drop the entry when nothing is left
Drop(m, v, u) ==
    IF v \notin DOMAIN m THEN m
    ELSE IF m[v] \ {u} = {} THEN [x \in DOMAIN m \ {v} |-> m[x]]
    ELSE [x \in DOMAIN m |-> IF x = v THEN m[v] \ {u} ELSE m[x]]

DropAlways(m, v) == [x \in DOMAIN m \ {v} |-> m[x]]

CreateIdx(ix, m, u, new) == Put(ix, m, IdxVal(ix, new), u)
DeleteIdx(ix, m, u, old) == Drop(m, IdxVal(ix, old), u)
UpdateIdx(ix, m, u, old, new) ==
    LET ov == IdxVal(ix, old)
        nv == IdxVal(ix, new)
    IN  IF ov = nv THEN m
        ELSE IF ix.type = "schema" /\ Variant = "pinned2022"
             THEN DropAlways(Put(ix, m, nv, u), ov)
             ELSE Drop(Put(ix, m, nv, u), ov, u)

IdxNames == {"s1", "s12", "s2", "c1", "c2", "c12"}
IxOf(c, n) == LET i == CHOOSE i \in DOMAIN c.indexes : c.indexes[i].name = n IN c.indexes[i]
HasIx(c, n) == \E i \in DOMAIN c.indexes : c.indexes[i].name = n
Names(c) == {c.indexes[i].name : i \in DOMAIN c.indexes}

Init ==
    /\ cfg \in Configs
    /\ rows \in UNION {[S -> {r \in RowVals : r.f2 \in F2Allowed(cfg)}] : S \in SUBSET UUIDs}
    /\ UniqueOK(cfg, rows)
    /\ target \in UNION {[S -> {r \in RowVals : r.f2 \in F2Allowed(cfg)}] : S \in SUBSET UUIDs}
    /\ UniqueOK(cfg, target)
    /\ idx = [n \in Names(cfg) |-> IndexOf(IxOf(cfg, n), rows)]
    /\ pending = {u \in UUIDs : (u \in Present(rows)) # (u \in Present(target))
                                  \/ (u \in Present(rows) /\ rows[u] # target[u])}

\* apply the change of one row of the batch
ApplyRow(u) ==
    /\ u \in pending
    /\ pending' = pending \ {u}
    /\ IF u \notin Present(rows)
       THEN /\ rows' = [x \in Present(rows) \cup {u} |-> IF x = u THEN target[u] ELSE rows[x]]
            /\ idx' = [n \in Names(cfg) |-> CreateIdx(IxOf(cfg, n), idx[n], u, target[u])]
       ELSE IF u \notin Present(target)
       THEN /\ rows' = [x \in Present(rows) \ {u} |-> rows[x]]
            /\ idx' = [n \in Names(cfg) |-> DeleteIdx(IxOf(cfg, n), idx[n], u, rows[u])]
       ELSE /\ rows' = [rows EXCEPT ![u] = target[u]]
            /\ idx' = [n \in Names(cfg) |-> UpdateIdx(IxOf(cfg, n), idx[n], u, rows[u], target[u])]
    /\ UNCHANGED <<cfg, target>>

Next == \E u \in UUIDs : ApplyRow(u)

Spec == Init /\ [][Next]_vars

\* ---- C05
IndexesAgree == pending = {} => \A n \in Names(cfg) : idx[n] = IndexOf(IxOf(cfg, n), rows)
RowsReachTarget == pending = {} => rows = target
\* even inside a batch no index entry is empty and client indexes never lose a row
NoEmptyEntry == \A n \in Names(cfg) : \A v \in DOMAIN idx[n] : idx[n][v] # {}
ClientIndexesAlwaysAgree ==
    \A n \in Names(cfg) : IxOf(cfg, n).type = "client" => idx[n] = IndexOf(IxOf(cfg, n), rows)
=============================================================================
