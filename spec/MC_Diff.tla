------------------------------ MODULE MC_Diff -------------------------------
(***************************************************************************)
(* Exhaustive check of the difference laws of property C10 over a small    *)
(* universe, and enumeration of the same pairs as CASE lines for the       *)
(* implementation: all pairs of subsets of a 4-element universe, all pairs *)
(* of maps over 3 keys x 2 values, optionals and atoms (0 is the default). *)
(* Values are integers; the harness instantiates them in every column type.*)
(***************************************************************************)
EXTENDS Diff, Json

Univ == 1..4
Keys == 1..3
Vals == 1..2

SetVals == SUBSET Univ
OptVals == {{}, {1}, {2}}
AtomVals == 0..2
MapVals == UNION {[S -> Vals] : S \in SUBSET Keys}

ValsOf(kind) == CASE kind = "set" -> SetVals [] kind = "opt" -> OptVals
                  [] kind = "map" -> MapVals [] OTHER -> AtomVals
Kinds == {"atom", "opt", "set", "map"}

\* the laws, for all pairs (and all triples for the merge law on the small kinds)
LawsHold ==
    \A kind \in Kinds : \A a, b \in ValsOf(kind) :
        /\ LawChanged(kind, a, b)
        /\ LawApply(kind, a, b)
MergeLawHolds ==
    \A kind \in {"atom", "opt", "map"} : \A o, a, b \in ValsOf(kind) : LawMerge(kind, o, a, b)
MergeLawSets ==
    \A o, a, b \in SUBSET (1..3) : LawMerge("set", o, a, b)
\* applying a peer's difference: whatever d is, the result is what the rules say,
\* and re-applying the same d to the result of a set toggles back
ToggleTwice == \A a, d \in SetVals : Apply("set", Apply("set", a, d), d) = a

ASSUME LawsHold
ASSUME MergeLawHolds
ASSUME MergeLawSets
ASSUME ToggleTwice

\* JSON forms: sets as sequences, maps as sequences of pairs
RECURSIVE SetToSeqR(_)
SetToSeqR(S) == IF S = {} THEN <<>> ELSE LET x == CHOOSE x \in S : \A y \in S : x <= y IN <<x>> \o SetToSeqR(S \ {x})
JV(kind, v) == CASE kind \in {"set", "opt"} -> SetToSeqR(v)
                 [] kind = "map" -> [i \in 1..Cardinality(DOMAIN v) |-> <<SetToSeqR(DOMAIN v)[i], v[SetToSeqR(DOMAIN v)[i]]>>]
                 [] OTHER -> v

\* one CASE line per (kind, a, b): diff a -> b; and per (kind, a, d): a peer's d applied to a
Cases == {[t |-> "diff", kind |-> k, a |-> JV(k, p[1]), b |-> JV(k, p[2])] : k \in {"atom"}, p \in AtomVals \X AtomVals}
    \cup {[t |-> "diff", kind |-> "opt", a |-> JV("opt", p[1]), b |-> JV("opt", p[2])] : p \in OptVals \X OptVals}
    \cup {[t |-> "diff", kind |-> "set", a |-> JV("set", p[1]), b |-> JV("set", p[2])] : p \in SetVals \X SetVals}
    \cup {[t |-> "diff", kind |-> "map", a |-> JV("map", p[1]), b |-> JV("map", p[2])] : p \in MapVals \X MapVals}

ASSUME \A c \in Cases : PrintT(<<"CASE", ToJson(c)>>)

VARIABLE x
Init == x = 0
Next == FALSE /\ x' = x
Spec == Init /\ [][Next]_x
=============================================================================
