------------------------------ MODULE TraceWire -----------------------------
(***************************************************************************)
(* Validation of recorded codec runs against Wire.tla (C12, C19) and of    *)
(* corrupted transactions (C19).                                           *)
(*  rt     a valid encoding was decoded, encoded, decoded again            *)
(*  dec    a tree was handed to one decoder                                *)
(*  small  a tree was handed to every decoder                              *)
(*  err    an error result was turned into a typed error and back          *)
(*  wtxn   an ill-formed transaction was handed to the engine / server     *)
(***************************************************************************)
EXTENDS Wire, Json

Trace == ndJsonDeserialize("trace.ndjson")
VARIABLES l, done
vars == <<l, done>>
Ev == Trace[l]

Report(prop, what, detail) == PrintT(<<"MISMATCH", ToJson([prop |-> prop, line |-> l, what |-> what, detail |-> detail])>>)
Chk(cond, prop, what, detail) == IF cond THEN TRUE ELSE Report(prop, what, detail)

DoRT ==
    /\ Ev.ev = "rt"
    /\ IF Ev.panic # "" THEN Report("C19", "a codec panicked on a valid encoding", [t |-> Ev.t, id |-> Ev.id, msg |-> Ev.panic])
       ELSE IF ~Ev.ok THEN Report("C12", "a valid encoding was rejected", [t |-> Ev.t, id |-> Ev.id, err |-> Ev.err])
       ELSE /\ Chk(Eq(DescOf(Ev.t), Ev.tree, Ev.tree2), "C12", "decoding and encoding again changed the meaning of the encoding",
                   [t |-> Ev.t, id |-> Ev.id, tree |-> Ev.tree, tree2 |-> Ev.tree2])
            /\ Chk(Ev.t # "Operation" \/ KeepsWhere(Ev.tree, Ev.tree2), "C12",
                   "a select operation lost its where member (an empty where selects every row; without the member the request is invalid)",
                   [t |-> Ev.t, id |-> Ev.id, tree2 |-> Ev.tree2])
            /\ Chk(Ev.equal, "C12", "the value decoded from the re-encoding differs from the value first decoded", [t |-> Ev.t, id |-> Ev.id, tree2 |-> Ev.tree2])
            /\ Chk(Ev.byValue /\ Eq(DescOf(Ev.t), Ev.tree2, Ev.treeV) /\ Eq(DescOf(Ev.t), Ev.tree2, Ev.treeL), "C12", "a value encodes differently when handed to the encoder by value or inside a parameter list than by pointer",
                   [t |-> Ev.t, id |-> Ev.id])

DoDec ==
    /\ Ev.ev = "dec"
    /\ Chk(Ev.outcome \in {"value", "error"}, "C19", "a decoder panicked", [t |-> Ev.t, id |-> Ev.id, msg |-> Ev.msg])

DoSmall ==
    /\ Ev.ev = "small"
    /\ Chk(Len(Ev.panics) = 0, "C19", "a decoder panicked", [id |-> Ev.id, types |-> Ev.panics, msg |-> Ev.msg])

DoErr ==
    /\ Ev.ev = "err"
    /\ Chk(Ev.back.error = Ev.result.error /\ Ev.back.details = Ev.result.details, "C12",
           "an error result turned into a typed error and back is a different result", [result |-> Ev.result, back |-> Ev.back])

DoWTxn ==
    /\ Ev.ev = "wtxn"
    /\ Chk(Ev.outcome \in {"results", "error"}, "C19", "a request (ill-formed transaction, or monitor request followed by a commit) was not answered with results or an error",
           [id |-> Ev.id, mode |-> Ev.mode, outcome |-> Ev.outcome, msg |-> Ev.msg])
    /\ Chk(Ev.alive, "C19", "the database stopped serving after an ill-formed transaction or a monitor request followed by a commit", [id |-> Ev.id, mode |-> Ev.mode, msg |-> Ev.msg])

Init == l = 1 /\ done = FALSE
Next == \/ /\ l <= Len(Trace) /\ (DoRT \/ DoDec \/ DoSmall \/ DoErr \/ DoWTxn) /\ l' = l + 1 /\ UNCHANGED done
        \/ /\ l = Len(Trace) + 1 /\ ~done /\ PrintT(<<"TRACE-COMPLETE", Len(Trace)>>) /\ done' = TRUE /\ UNCHANGED l
Spec == Init /\ [][Next]_vars
=============================================================================
