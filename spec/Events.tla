------------------------------- MODULE Events -------------------------------
(***************************************************************************)
(* The cache's event processor (cache/cache.go eventProcessor): the        *)
(* goroutine applying updates enqueues one event per applied row change    *)
(* into a bounded buffer (dropping when it is full - the documented        *)
(* exception), the dispatch goroutine delivers each event to every         *)
(* registered handler.  Property C14: while nothing was dropped, what each *)
(* handler has seen is a prefix of the changes applied, in order; all      *)
(* handlers see the same sequence; folded over an empty table set it       *)
(* reproduces the cache.                                                   *)
(* Rows are abstracted to versions (0 absent).                             *)
(* Variant "intended" | "perHandler" (events delivered handler by handler  *)
(* from separate queues in any order - handlers could then disagree).      *)
(***************************************************************************)
EXTENDS Integers, Sequences, FiniteSets, TLC

CONSTANTS Rows, Handlers, Capacity, MaxChanges, Variant

VARIABLES cache, applied, q, seen, dropped, nchanges
vars == <<cache, applied, q, seen, dropped, nchanges>>

Init == /\ cache = [r \in Rows |-> 0] /\ applied = <<>> /\ q = <<>>
        /\ seen = [h \in Handlers |-> <<>>] /\ dropped = FALSE /\ nchanges = 0

\* one row change applied to the cache: <<kind, row, old, new>>
Change(r) ==
    IF cache[r] = 0 THEN {<<"add", r, 0, nchanges + 1>>}
    ELSE {<<"update", r, cache[r], nchanges + 1>>, <<"delete", r, cache[r], 0>>}

ApplyChange ==
    /\ nchanges < MaxChanges
    /\ \E r \in Rows : \E ch \in Change(r) :
         /\ cache' = [cache EXCEPT ![r] = ch[4]]
         /\ applied' = Append(applied, ch)
         /\ IF Len(q) < Capacity THEN q' = Append(q, ch) /\ UNCHANGED dropped
            ELSE dropped' = TRUE /\ UNCHANGED q
    /\ nchanges' = nchanges + 1
    /\ UNCHANGED seen

\* the dispatcher takes the head and calls every handler (under the handlers lock)
Dispatch ==
    /\ q # <<>>
    /\ IF Variant = "intended"
       THEN /\ seen' = [h \in Handlers |-> Append(seen[h], Head(q))]
            /\ q' = Tail(q)
       ELSE \* mutant: one handler at a time may run ahead with a later event
            \E h \in Handlers : \E i \in 1..Len(q) :
                /\ seen' = [seen EXCEPT ![h] = Append(@, q[i])]
                /\ q' = IF \A g \in Handlers \ {h} : \E j \in 1..Len(seen[g]) : seen[g][j] = q[i]
                        THEN [k \in 1..(Len(q) - 1) |-> IF k < i THEN q[k] ELSE q[k + 1]] ELSE q
    /\ UNCHANGED <<cache, applied, dropped, nchanges>>

Next == ApplyChange \/ Dispatch
Spec == Init /\ [][Next]_vars

IsPrefix(s, t) == Len(s) <= Len(t) /\ \A i \in 1..Len(s) : s[i] = t[i]

\* fold a sequence of events over the empty table set; -1 marks an illegal event
RECURSIVE Fold(_, _)
Fold(t, evs) ==
    IF evs = <<>> THEN t
    ELSE LET e == Head(evs)
             legal == CASE e[1] = "add" -> t[e[2]] = 0
                        [] OTHER -> t[e[2]] = e[3] /\ e[3] # 0
         IN  IF ~legal THEN [r \in Rows |-> -1] ELSE Fold([t EXCEPT ![e[2]] = e[4]], Tail(evs))

SeenIsPrefix == ~dropped => \A h \in Handlers : IsPrefix(seen[h], applied)
SameSequence == ~dropped => \A g, h \in Handlers : IsPrefix(seen[g], seen[h]) \/ IsPrefix(seen[h], seen[g])
FoldReproducesCache == (~dropped /\ q = <<>>) => \A h \in Handlers : Fold([r \in Rows |-> 0], seen[h]) = cache
LegalAlternation == ~dropped => \A h \in Handlers : Fold([r \in Rows |-> 0], seen[h]) # [r \in Rows |-> -1]
=============================================================================
