------------------------------- MODULE MC_Iso -------------------------------
(***************************************************************************)
(* Enumerates the isolation cases replayed on the real cache and client:   *)
(* (model family, write path, input mutation) and (model family, read      *)
(* path, field, mutation of the returned model).  Expected observation in  *)
(* every case (Iso!Isolated): a fresh read shows the value that was        *)
(* written.                                                                *)
(***************************************************************************)
EXTENDS Iso, Json

MCWritePaths == <<"create", "update", "applyCacheUpdate">>
MCReadPaths == <<"row", "rows", "rowByModel", "rowsByModels", "rowsByCondition", "rowByModelIndex", "rowsByModelsIndex", "getIndex", "whereListIndex",
                 "get", "list", "listValues", "whereList", "whereListValues", "whereAllList", "whereCacheList", "onAdd", "onUpdateNew", "onUpdateOld", "onDelete">>
Families == {"runtime", "handwritten", "generated"}
FieldMut == {<<"scalar", "overwrite">>, <<"slice", "append">>, <<"slice", "overwriteElem">>, <<"map", "insertKey">>,
             <<"map", "overwriteKey">>, <<"ptr", "writeThrough">>}

InCases == {[t |-> "in", family |-> fa, write |-> MCWritePaths[w], field |-> fm[1], mutation |-> fm[2]]
              : fa \in Families, w \in DOMAIN MCWritePaths, fm \in FieldMut}
OutCases == {[t |-> "out", family |-> fa, read |-> MCReadPaths[r], field |-> fm[1], mutation |-> fm[2]]
              : fa \in Families, r \in DOMAIN MCReadPaths, fm \in FieldMut}
\* "scalars": a model without set and map fields - a Go struct comparable with ==, whose pointer field must still
\* be compared by value
LawCases == {[t |-> "law", family |-> fa, field |-> fm[1], mutation |-> fm[2], shape |-> sh]
              : fa \in Families, fm \in FieldMut, sh \in {"full", "empty", "emptyAlloc"}}
            \cup {[t |-> "law", family |-> "scalars", field |-> fm[1], mutation |-> fm[2], shape |-> sh]
              : fm \in {<<"scalar", "overwrite">>, <<"ptr", "writeThrough">>}, sh \in {"full", "empty", "emptyAlloc"}}
ASSUME \A c \in LawCases : PrintT(<<"CASE", ToJson(c)>>)
ASSUME \A c \in InCases : PrintT(<<"CASE", ToJson(c)>>)
ASSUME \A c \in OutCases : PrintT(<<"CASE", ToJson(c)>>)
=============================================================================
