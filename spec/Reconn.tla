------------------------------- MODULE Reconn -------------------------------
(***************************************************************************)
(* Loss of the connection and resynchronisation (property C16), on top of  *)
(* the abstractions of Session.tla: rows are versions, one monitor per     *)
(* table.  The connection can be cut at any point; the client then         *)
(* reconnects and restarts its monitors one after the other (client.go     *)
(* connect(reconnect = true)), each restart replying with the full         *)
(* contents of its table; other clients keep committing meanwhile.         *)
(*                                                                         *)
(* PurgeVariant "intended": the cache is emptied once per reconnect,       *)
(*   before the first restarted monitor's contents are applied;            *)
(*   "pinned": every restarted monitor empties the whole cache when the    *)
(*   client has more than one monitor (client.go at the pinned commit).    *)
(* Invariant: connected, all monitors restarted, nothing in flight  =>     *)
(*   the cache holds exactly the rows of the database.                     *)
(*                                                                         *)
(* monitor_cond_since: a restarted monitor may quote the id of the last    *)
(* transaction the client saw; a server that knows it (ServerKnows) then   *)
(* replies with the rows changed since (found) instead of the whole table, *)
(* and the client keeps its cache.  SinceVariant "intended": the id is     *)
(* quoted only by a client with a single monitor (with several, the cache  *)
(* is emptied before the restarts, so nothing may be left out of the       *)
(* replies); "always": every restarted monitor quotes its id (refuted).    *)
(* ghost is what the ids the client holds stand for: its cache as it would *)
(* be had it never been emptied.                                           *)
(***************************************************************************)
EXTENDS Integers, Sequences, FiniteSets, TLC

CONSTANTS Rows, TableOf, Monitors, MaxTxns, MaxCuts, PurgeVariant, SinceVariant, ServerKnows

VARIABLES db, ntxn, ncuts,
          conn,        \* "up" | "down"
          registered,  \* monitors registered at the server for the current connection
          chan,        \* server -> client messages of the current connection
          cache, deferU, deferred,
          todo,        \* monitors still to (re)start, in order
          pend,        \* monitor being restarted: "" or its name once the reply is at the client
          replySnap, purged,
          replyFound,  \* the reply being applied carries changes only
          ghost
vars == <<db, ntxn, ncuts, conn, registered, chan, cache, deferU, deferred, todo, pend, replySnap, purged, replyFound, ghost>>

RowsOfMon(m) == {r \in Rows : TableOf[r] = Monitors[m]}
MonSeq == CHOOSE s \in [1..Cardinality(DOMAIN Monitors) -> DOMAIN Monitors] : \A i, j \in DOMAIN s : i # j => s[i] # s[j]

Init == /\ db = [r \in Rows |-> 0] /\ ntxn = 0 /\ ncuts = 0 /\ conn = "up"
        /\ registered = {} /\ chan = <<>> /\ cache = [r \in Rows |-> 0]
        /\ deferU = TRUE /\ deferred = <<>> /\ todo = MonSeq /\ pend = ""
        /\ replySnap = [r \in {} |-> 0] /\ purged = FALSE
        /\ replyFound = FALSE /\ ghost = [r \in Rows |-> 0]

\* another client commits: every registered monitor of the table is notified
Commit(r, new) ==
    /\ ntxn < MaxTxns /\ db[r] # new
    /\ ntxn' = ntxn + 1
    /\ db' = [db EXCEPT ![r] = new]
    /\ LET ms == {m \in registered : Monitors[m] = TableOf[r]}
       IN  chan' = IF conn = "up" /\ ms # {} THEN Append(chan, [kind |-> "upd", row |-> r, old |-> db[r], new |-> new]) ELSE chan
    /\ UNCHANGED <<ncuts, conn, registered, cache, deferU, deferred, todo, pend, replySnap, purged, replyFound, ghost>>

\* the connection is lost: everything in flight is lost, the server forgets the monitors
Cut == /\ conn = "up" /\ ncuts < MaxCuts
       /\ ncuts' = ncuts + 1 /\ conn' = "down"
       /\ registered' = {} /\ chan' = <<>> /\ pend' = ""
       /\ UNCHANGED <<db, ntxn, cache, deferU, deferred, todo, replySnap, purged, replyFound, ghost>>

\* a reconnect attempt succeeds: updates are deferred, every monitor is to be restarted
Reconnect == /\ conn = "down"
             /\ conn' = "up" /\ deferU' = TRUE /\ deferred' = <<>> /\ todo' = MonSeq /\ purged' = FALSE
             /\ UNCHANGED <<db, ntxn, ncuts, registered, chan, cache, pend, replySnap, replyFound, ghost>>

\* the next monitor is (re)started: registered; its reply carries the table's contents - or, when the client
\* quotes the id of the last transaction it saw and the server knows it, the rows changed since
QuotesId == ncuts > 0 /\ (SinceVariant = "always" \/ Cardinality(DOMAIN Monitors) = 1)
Restart == /\ conn = "up" /\ todo # <<>> /\ pend = "" /\ Head(todo) \notin registered
           /\ LET m == Head(todo)
                  found == ServerKnows /\ QuotesId
                  snap == IF found THEN [r \in {x \in RowsOfMon(m) : db[x] # ghost[x]} |-> db[r]]
                          ELSE [r \in RowsOfMon(m) |-> db[r]]
              IN  /\ registered' = registered \cup {m}
                  /\ chan' = Append(chan, [kind |-> "reply", mon |-> m, snap |-> snap, found |-> found])
           /\ UNCHANGED <<db, ntxn, ncuts, conn, cache, deferU, deferred, todo, pend, replySnap, purged, replyFound, ghost>>

ApplyOne(c, u) == [c EXCEPT ![u.row] = IF c[u.row] = u.old THEN u.new ELSE -1]
RECURSIVE ApplyDeferred(_, _)
ApplyDeferred(c, ds) == IF ds = <<>> THEN c ELSE ApplyDeferred(ApplyOne(c, Head(ds)), Tail(ds))

\* the read loop: a notification is deferred or applied; a reply goes to the caller
ReadLoop ==
    /\ conn = "up" /\ chan # <<>>
    /\ LET msg == Head(chan)
       IN  IF msg.kind = "upd"
           THEN /\ IF deferU THEN deferred' = Append(deferred, msg) /\ UNCHANGED <<cache, ghost>>
                   ELSE cache' = ApplyOne(cache, msg) /\ ghost' = ApplyOne(ghost, msg) /\ UNCHANGED deferred
                /\ UNCHANGED <<pend, replySnap, replyFound>>
           ELSE /\ pend = "" /\ pend' = msg.mon /\ replySnap' = msg.snap /\ replyFound' = msg.found
                /\ UNCHANGED <<cache, deferred, ghost>>
    /\ chan' = Tail(chan)
    /\ UNCHANGED <<db, ntxn, ncuts, conn, registered, deferU, todo, purged>>

\* the caller applies the reply of the monitor being restarted
ApplyReply ==
    /\ conn = "up" /\ pend # "" /\ todo # <<>> /\ Head(todo) = pend
    /\ LET many == Cardinality(DOMAIN Monitors) > 1
           \* with several monitors the cache is emptied before the first restart whatever the replies say; a
           \* single monitor's cache is emptied unless the reply carries changes only
           once == ncuts > 0 /\ ~purged /\ (many \/ ~replyFound)
           doPurge == IF PurgeVariant = "pinned" THEN (ncuts > 0 /\ many) \/ once ELSE once
           base == IF doPurge THEN [r \in Rows |-> 0] ELSE cache
           withSnap == [r \in Rows |-> IF r \in DOMAIN replySnap THEN replySnap[r] ELSE base[r]]
           gSnap == [r \in Rows |-> IF r \in DOMAIN replySnap THEN replySnap[r] ELSE ghost[r]]
       IN  /\ cache' = ApplyDeferred(withSnap, deferred)
           /\ ghost' = ApplyDeferred(gSnap, deferred)
           /\ purged' = TRUE
    /\ deferU' = (PurgeVariant # "pinned" /\ Len(todo) > 1)   \* the repaired client defers until every restart is applied
    /\ deferred' = <<>>
    /\ todo' = Tail(todo) /\ pend' = ""
    /\ UNCHANGED <<db, ntxn, ncuts, conn, registered, chan, replySnap, replyFound>>

Next == \/ \E r \in Rows, v \in 0..2 : Commit(r, IF v = 0 THEN 0 ELSE ntxn + 1)
        \/ Cut \/ Reconnect \/ Restart \/ ReadLoop \/ ApplyReply

Spec == Init /\ [][Next]_vars

Quiescent == conn = "up" /\ todo = <<>> /\ chan = <<>> /\ pend = "" /\ deferred = <<>>
Resynchronised == Quiescent => \A r \in Rows : cache[r] = db[r]
=============================================================================
