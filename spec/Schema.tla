------------------------------- MODULE Schema -------------------------------
(***************************************************************************)
(* The database schema is data: the abstract schema JSON written by the    *)
(* harness (vh schema) is the single source of truth for both sides.       *)
(*                                                                         *)
(*  {"name":..,"tables":{T:{"isRoot":b,"indexes":[[col..]..],"cidx":[..],  *)
(*     "cols":{C:{"kind":"atom|opt|set|map","key":B,"val":B,               *)
(*                "min":n,"max":n|-1,"mut":b}}}}}                          *)
(*  B = {"t":"integer|real|boolean|string|uuid|","ref":T|"",               *)
(*       "rt":"strong|weak|","enum":[..]}                                  *)
(***************************************************************************)
EXTENDS Values, Json

Schema == JsonDeserialize("schema.abs.json")

Tables     == DOMAIN Schema.tables
Cols(t)    == DOMAIN Schema.tables[t].cols
Col(t, c)  == Schema.tables[t].cols[c]
UUIDCol    == [kind |-> "atom", key |-> [t |-> "uuid", ref |-> "", rt |-> "", enum |-> <<>>],
               val |-> [t |-> "", ref |-> "", rt |-> "", enum |-> <<>>], min |-> 1, max |-> 1, mut |-> FALSE]
ColX(t, c) == IF c = "_uuid" THEN UUIDCol ELSE Col(t, c)
Indexes(t) == SeqToSet(Schema.tables[t].indexes)

\* RFC 7047 section 3.2: if no table is marked root, every table is root.
AnyRootMarked == \E t \in Tables : Schema.tables[t].isRoot
IsRoot(t) == Schema.tables[t].isRoot \/ ~AnyRootMarked

DefaultRow(t) == [c \in Cols(t) |-> Default(Col(t, c))]

\* reference positions of a column: "k" (atom, optional, set element, map key)
\* and "v" (map value)
RefPositions(t, c) ==
    {p \in {"k", "v"} :
        LET b == IF p = "k" THEN Col(t, c).key ELSE Col(t, c).val
        IN  b.t = "uuid" /\ b.ref # ""}
RefBase(t, c, p) == IF p = "k" THEN Col(t, c).key ELSE Col(t, c).val

\* the uuids a value holds in position p
Targets(col, v, p) ==
    CASE col.kind = "atom" -> IF v = "" THEN {} ELSE {v}
      [] col.kind \in {"opt", "set"} -> v
      [] col.kind = "map" -> IF p = "k" THEN DOMAIN v ELSE {v[k] : k \in DOMAIN v}
=============================================================================
