------------------------------- MODULE Monitor ------------------------------
(***************************************************************************)
(* Monitors and update notifications (RFC 7047 4.1.5-4.1.6 "monitor" /     *)
(* "update", ovsdb-server(7) "monitor_cond" / "update2").                  *)
(*                                                                         *)
(* A monitor (as logged by the harness) is a record                        *)
(*   [db, mon, enc (1 = update: old/new rows, 2 = update2: insert /        *)
(*    modify-difference / delete), req]                                    *)
(* with req[t] = [columns, initial, insert, delete, modify].               *)
(*                                                                         *)
(* One notification is a record table -> uuid -> row update                *)
(*   [k ("insert"|"modify"|"delete"|"initial"), hasOld, old, hasNew, new]  *)
(* where for enc 2 "new" holds the insert row / the modify difference.     *)
(***************************************************************************)
EXTENDS Txn, Diff, Json

MonCols(req, t) == SeqToSet(req[t].columns) \cap Cols(t)

ProjectRow(req, t, row) == [c \in MonCols(req, t) |-> row[c]]
Project(db, req) ==
    [t \in DOMAIN req \cap Tables |-> [u \in DOMAIN db[t] |-> ProjectRow(req, t, db[t][u])]]

\* decode a partial JSON row on the monitored columns; absent = default
\* (rows on the wire omit default-valued columns)
MonRowJ(req, t, jrow) ==
    [c \in MonCols(req, t) |->
        IF c \in DOMAIN jrow THEN ValJ(Col(t, c), jrow[c]) ELSE Default(Col(t, c))]

\* the kind of change a transaction made to row u of table t, "" if none
ChangeKind(pre, post, t, u) ==
    CASE u \notin DOMAIN pre[t] /\ u \in DOMAIN post[t] -> "insert"
      [] u \in DOMAIN pre[t] /\ u \notin DOMAIN post[t] -> "delete"
      [] u \in DOMAIN pre[t] /\ u \in DOMAIN post[t] /\ pre[t][u] # post[t][u] -> "modify"
      [] OTHER -> ""

Selected(req, t, kind) ==
    CASE kind = "insert" -> req[t].insert
      [] kind = "delete" -> req[t].delete
      [] kind = "modify" -> req[t].modify
      [] OTHER -> FALSE

\* rows a monitor must be told about: selected kind, and for modify a change
\* in a monitored column
MustReport(pre, post, req) ==
    { <<t, u>> \in UNION {{<<t, u>> : u \in DOMAIN pre[t] \cup DOMAIN post[t]} : t \in DOMAIN req \cap Tables} :
        LET k == ChangeKind(pre, post, t, u)
        IN  /\ k # "" /\ Selected(req, t, k)
            /\ (k = "modify" => ProjectRow(req, t, pre[t][u]) # ProjectRow(req, t, post[t][u])) }

\* rows a monitor may be told about with an empty modification: changed only
\* in columns it does not monitor
MayReportEmpty(pre, post, req) ==
    { <<t, u>> \in UNION {{<<t, u>> : u \in DOMAIN pre[t] \cap DOMAIN post[t]} : t \in DOMAIN req \cap Tables} :
        /\ pre[t][u] # post[t][u] /\ req[t].modify
        /\ ProjectRow(req, t, pre[t][u]) = ProjectRow(req, t, post[t][u]) }

MsgRows(msg) == UNION {{<<t, u>> : u \in DOMAIN msg[t]} : t \in DOMAIN msg}

\* is row update ru (encoding enc) a correct report of the change of row u?
RowUpdateOK(enc, req, pre, post, t, u, ru) ==
    LET k == ChangeKind(pre, post, t, u)
        colsIn(j) == DOMAIN j \ {"_uuid"}
    IN
    /\ ru.k = k
    /\ colsIn(ru.old) \subseteq MonCols(req, t)
    /\ colsIn(ru.new) \subseteq MonCols(req, t)
    /\ CASE k = "insert" ->
              /\ ru.hasNew /\ ~ru.hasOld
              /\ MonRowJ(req, t, ru.new) = ProjectRow(req, t, post[t][u])
         [] k = "delete" ->
              /\ IF enc = 1 THEN ru.hasOld /\ ~ru.hasNew ELSE TRUE
              \* whatever old values are reported must be the old values
              /\ \A c \in colsIn(ru.old) : ValJ(Col(t, c), ru.old[c]) = pre[t][u][c]
         [] k = "modify" ->
              IF enc = 1
              THEN /\ ru.hasOld /\ ru.hasNew
                   /\ MonRowJ(req, t, ru.new) = ProjectRow(req, t, post[t][u])
                   \* every changed monitored column is reported: a client that
                   \* applies "new" column by column has no other way to learn
                   \* that a column went back to its default
                   /\ \A c \in MonCols(req, t) : pre[t][u][c] # post[t][u][c] => c \in DOMAIN ru.new
                   /\ \A c \in colsIn(ru.old) : ValJ(Col(t, c), ru.old[c]) = pre[t][u][c]
              ELSE \* the difference, applied to the old projection, gives the new one,
                   \* and mentions only columns that changed
                   /\ \A c \in MonCols(req, t) :
                        IF c \in DOMAIN ru.new
                        THEN /\ pre[t][u][c] # post[t][u][c]
                             /\ Apply(Col(t, c).kind, pre[t][u][c], ValJ(Col(t, c), ru.new[c])) = post[t][u][c]
                        ELSE pre[t][u][c] = post[t][u][c]
         [] OTHER -> FALSE

NReport(prop, l, what, detail) ==
    PrintT(<<"MISMATCH", ToJson([prop |-> prop, line |-> l, what |-> what, detail |-> detail])>>)
NChk(cond, prop, l, what, detail) == IF cond THEN TRUE ELSE NReport(prop, l, what, detail)

\* the method a notification of encoding enc travels under
MethodOK(method, m) ==
    IF m.enc = 1 THEN method = "update"
    ELSE IF m.method = "monitor_cond_since" THEN method \in {"update2", "update3"}
    ELSE method = "update2"

\* e: the txn event; mons: mon id -> monitor event
CheckNotifs(e, pre, post, mons, l) ==
    \A i \in DOMAIN e.notifs :
        LET n == e.notifs[i]
            m == mons[n.mon]
            req == m.req
            must == MustReport(pre, post, req)
            may == MayReportEmpty(pre, post, req)
        IN
        IF n.mon \notin DOMAIN mons THEN NReport("C07", l, "message for an unknown monitor", [mon |-> n.mon])
        ELSE IF ~e.committed
        THEN NChk(Len(n.msgs) = 0, "C02", l, "monitor notified of a failed transaction", [mon |-> n.mon])
        ELSE
        /\ NChk(Len(n.msgs) <= 1, "C07", l, "more than one notification for one transaction",
                [mon |-> n.mon, n |-> Len(n.msgs)])
        /\ IF Len(n.msgs) = 0
           THEN NChk(must = {}, "C07", l, "no notification although monitored rows changed",
                     [mon |-> n.mon, rows |-> must])
           ELSE LET msg == n.msgs[1].tu
                    got == MsgRows(msg)
                IN  /\ NChk(MethodOK(n.msgs[1].method, m), "C07", l,
                            "notification sent under a method that does not match the monitor's encoding",
                            [mon |-> n.mon, method |-> n.msgs[1].method, enc |-> m.enc])
                    /\ NChk(pre # post, "C07", l, "notification for a transaction without net effect", [mon |-> n.mon])
                    /\ NChk(must \subseteq got, "C07", l, "changed rows missing from the notification",
                            [mon |-> n.mon, rows |-> must \ got])
                    /\ NChk(got \subseteq must \cup may, "C07", l,
                            "notification reports rows that did not change or were not selected",
                            [mon |-> n.mon, rows |-> got \ (must \cup may)])
                    /\ \A tu \in got \cap must :
                          NChk(RowUpdateOK(m.enc, req, pre, post, tu[1], tu[2], msg[tu[1]][tu[2]]), "C07", l,
                               "row update is not the difference made by the transaction",
                               [mon |-> n.mon, table |-> tu[1], uuid |-> tu[2]])
                    /\ \A tu \in got \cap (may \ must) :
                          LET ru == msg[tu[1]][tu[2]]
                          IN  NChk(ru.k = "modify" /\ (m.enc = 2 => DOMAIN ru.new \subseteq {"_uuid"}), "C07", l,
                                   "row update reports unmonitored or unchanged columns",
                                   [mon |-> n.mon, table |-> tu[1], uuid |-> tu[2]])

\* boolean form, for linearisation search (TraceSerial): tu is the table-updates
\* record of one message; m a monitor record [enc, req]
MsgOK(m, pre, post, tu) ==
    LET must == MustReport(pre, post, m.req)
        may == MayReportEmpty(pre, post, m.req)
        got == MsgRows(tu)
    IN  /\ must \subseteq got /\ got \subseteq must \cup may
        /\ \A x \in got \cap must : RowUpdateOK(m.enc, m.req, pre, post, x[1], x[2], tu[x[1]][x[2]])
\* does the transaction pre -> post concern the monitor at all?
Concerns(m, pre, post) == MustReport(pre, post, m.req) # {}

\* the reply to a monitor request: the monitored projection of the database
CheckInitial(e, db, l) ==
    LET req == e.req
        want == Project(db, req)
        got == [t \in DOMAIN e.initial \cap Tables |->
                  [u \in DOMAIN e.initial[t] |-> MonRowJ(req, t, e.initial[t][u])]]
        full(g) == [t \in DOMAIN req \cap Tables |-> IF t \in DOMAIN g THEN g[t] ELSE [u \in {} |-> 0]]
    IN  NChk(full(got) = want, "C01", l,
             "initial monitor reply is not the monitored part of the database", [mon |-> e.mon])
=============================================================================
