-------------------------------- MODULE Leader ------------------------------
(***************************************************************************)
(* Leader-only clients (property C16, last clause).  Each endpoint serves  *)
(* a _Server database whose Database row says whether it is the leader.    *)
(* The client keeps an ordered list of endpoints; connecting tries them in *)
(* order and accepts the first that reports leadership (client.go connect, *)
(* tryEndpoint, isEndpointLeader); while connected it monitors the row and *)
(* on "leader = false" moves the endpoint to the end of the list and       *)
(* disconnects (watchForLeaderChange), after which it reconnects.          *)
(* Variant "sticky": the client ignores the loss (refuted by TLC).         *)
(***************************************************************************)
EXTENDS Integers, Sequences, FiniteSets, TLC
CONSTANTS Endpoints, MaxEvents, Variant

VARIABLES leader, order, cst, attached, told, nev
vars == <<leader, order, cst, attached, told, nev>>

EpSeq == CHOOSE s \in [1..Cardinality(Endpoints) -> Endpoints] : \A i, j \in DOMAIN s : i # j => s[i] # s[j]
Init == /\ leader \in [Endpoints -> BOOLEAN] /\ order = EpSeq /\ cst = "down" /\ attached = "" /\ told = TRUE /\ nev = 0

\* somebody changes the leadership an endpoint reports
SetLeader(e, b) ==
    /\ nev < MaxEvents /\ leader[e] # b
    /\ leader' = [leader EXCEPT ![e] = b] /\ nev' = nev + 1
    /\ told' = IF cst = "up" /\ attached = e THEN FALSE ELSE told
    /\ UNCHANGED <<order, cst, attached>>

MoveLast(s, e) == LET rest == SelectSeq(s, LAMBDA x : x # e) IN Append(rest, e)
MoveFirst(s, e) == LET rest == SelectSeq(s, LAMBDA x : x # e) IN <<e>> \o rest

\* the client processes the notification about its endpoint's row
Notice ==
    /\ cst = "up" /\ ~told
    /\ told' = TRUE
    /\ IF ~leader[attached] /\ Variant # "sticky"
       THEN /\ order' = MoveLast(order, attached) /\ cst' = "down" /\ attached' = ""
       ELSE UNCHANGED <<order, cst, attached>>
    /\ UNCHANGED <<leader, nev>>

\* one connection attempt: the first endpoint in order that reports leadership is taken
Attempt ==
    /\ cst = "down"
    /\ LET ok == {i \in DOMAIN order : leader[order[i]]}
       IN  IF ok = {} THEN UNCHANGED <<order, cst, attached, told>>
           ELSE LET i == CHOOSE k \in ok : \A j \in ok : k <= j
                IN  /\ order' = MoveFirst(order, order[i]) /\ cst' = "up" /\ attached' = order[i] /\ told' = TRUE
    /\ UNCHANGED <<leader, nev>>

Next == (\E e \in Endpoints, b \in BOOLEAN : SetLeader(e, b)) \/ Notice \/ Attempt
Spec == Init /\ [][Next]_vars /\ WF_vars(Notice) /\ WF_vars(Attempt)

\* once the client has seen the current state of its endpoint's row it is attached to a leader
AttachedToLeader == (cst = "up" /\ told) => leader[attached]
\* if the leadership stops changing and somebody leads, the client ends up attached to a leader
Settles == (<>[](nev = MaxEvents /\ \E e \in Endpoints : leader[e])) => <>[](cst = "up" /\ leader[attached])
=============================================================================
