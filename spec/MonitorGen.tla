----------------------------- MODULE MonitorGen -----------------------------
(***************************************************************************)
(* A constructive counterpart of Monitor.tla's acceptance predicates: the  *)
(* notification a transaction pre -> post owes a monitor, as a message in  *)
(* the same shape the harness logs, and how a peer applies it.  TLC checks *)
(* on every transition of MC_Txn and for a set of monitor requests:        *)
(*  Accepts   the acceptor (MsgOK / RowUpdateOK) accepts the message;      *)
(*  Exact     it rejects the message with one changed row dropped, with a  *)
(*            changed column dropped from an update2 modify, and with an   *)
(*            unchanged monitored column added;                            *)
(*  Mirrors   applying the message to the monitored part of pre gives the  *)
(*            monitored part of post (all kinds selected);                 *)
(*  Silent    a transaction without net effect on what is monitored owes   *)
(*            nothing.                                                     *)
(* So the acceptor of C07 is neither too strict for a correct server nor   *)
(* satisfied by a message that loses a change.                             *)
(***************************************************************************)
EXTENDS Monitor

SeqOfSet(S) == CHOOSE s \in [1..Cardinality(S) -> S] : \A i, j \in 1..Cardinality(S) : i # j => s[i] # s[j]
\* abstract value -> the JSON shape ValJ reads
JVal(c, v) ==
    CASE c.kind = "atom" -> v
      [] c.kind \in {"opt", "set"} -> SeqOfSet(v)
      [] c.kind = "map" -> LET ks == SeqOfSet(DOMAIN v) IN [i \in DOMAIN ks |-> <<ks[i], v[ks[i]]>>]
RowJOf(req, t, row, cols) == [c \in cols |-> JVal(Col(t, c), row[c])]
NoRowJ == <<>>

ChangedCols(req, t, a, b) == {c \in MonCols(req, t) : a[c] # b[c]}

RowUpdate(enc, req, pre, post, t, u) ==
    LET k == ChangeKind(pre, post, t, u)
    IN  CASE k = "insert" -> [k |-> k, hasOld |-> FALSE, old |-> NoRowJ, hasNew |-> TRUE, new |-> RowJOf(req, t, post[t][u], MonCols(req, t))]
          [] k = "delete" -> [k |-> k, hasOld |-> enc = 1, old |-> IF enc = 1 THEN RowJOf(req, t, pre[t][u], MonCols(req, t)) ELSE NoRowJ,
                              hasNew |-> FALSE, new |-> NoRowJ]
          [] k = "modify" ->
                LET ch == ChangedCols(req, t, pre[t][u], post[t][u])
                IN  IF enc = 1
                    THEN [k |-> k, hasOld |-> TRUE, old |-> RowJOf(req, t, pre[t][u], ch), hasNew |-> TRUE, new |-> RowJOf(req, t, post[t][u], MonCols(req, t))]
                    ELSE [k |-> k, hasOld |-> FALSE, old |-> NoRowJ, hasNew |-> TRUE,
                          new |-> [c \in ch |-> JVal(Col(t, c), Diff(Col(t, c).kind, pre[t][u][c], post[t][u][c]))]]

Notify(enc, pre, post, req) ==
    LET must == MustReport(pre, post, req)
        ts == {x[1] : x \in must}
    IN  [t \in ts |-> [u \in {x[2] : x \in {y \in must : y[1] = t}} |-> RowUpdate(enc, req, pre, post, t, u)]]

\* ---- how a peer applies a message to its copy of the monitored part
ApplyRow(enc, req, t, view, u, ru) ==
    CASE ru.k \in {"insert", "initial"} -> MonRowJ(req, t, ru.new)
      [] ru.k = "modify" ->
            IF enc = 1 THEN MonRowJ(req, t, ru.new)
            ELSE [c \in MonCols(req, t) |-> IF c \in DOMAIN ru.new THEN Apply(Col(t, c).kind, view[t][u][c], ValJ(Col(t, c), ru.new[c])) ELSE view[t][u][c]]
ApplyMsg(enc, req, view, msg) ==
    [t \in DOMAIN view |->
        IF t \notin DOMAIN msg THEN view[t]
        ELSE LET gone == {u \in DOMAIN msg[t] : msg[t][u].k = "delete"}
                 us == (DOMAIN view[t] \cup DOMAIN msg[t]) \ gone
             IN  [u \in us |-> IF u \in DOMAIN msg[t] THEN ApplyRow(enc, req, t, view, u, msg[t][u]) ELSE view[t][u]]]

\* ---- the laws, for one transition and one request
Mon(enc, req) == [enc |-> enc, req |-> req]
Accepts(enc, pre, post, req) == MsgOK(Mon(enc, req), pre, post, Notify(enc, pre, post, req))
DropRow(msg, t, u) == [tt \in DOMAIN msg |-> IF tt = t THEN [uu \in DOMAIN msg[t] \ {u} |-> msg[t][uu]] ELSE msg[tt]]
DropCol(msg, t, u, c) == [msg EXCEPT ![t][u].new = [cc \in DOMAIN msg[t][u].new \ {c} |-> msg[t][u].new[cc]]]
Exact(enc, pre, post, req) ==
    LET msg == Notify(enc, pre, post, req)
    IN  /\ \A t \in DOMAIN msg : \A u \in DOMAIN msg[t] : ~MsgOK(Mon(enc, req), pre, post, DropRow(msg, t, u))
        /\ \A t \in DOMAIN msg : \A u \in DOMAIN msg[t] :
              msg[t][u].k = "modify" => \A c \in ChangedCols(req, t, pre[t][u], post[t][u]) : ~MsgOK(Mon(enc, req), pre, post, DropCol(msg, t, u, c))
        /\ enc = 2 => \A t \in DOMAIN msg : \A u \in DOMAIN msg[t] :
              msg[t][u].k = "modify" =>
                 \A c \in MonCols(req, t) \ ChangedCols(req, t, pre[t][u], post[t][u]) :
                    ~MsgOK(Mon(enc, req), pre, post, [msg EXCEPT ![t][u].new = [cc \in DOMAIN msg[t][u].new \cup {c} |->
                                                        IF cc = c THEN JVal(Col(t, c), post[t][u][c]) ELSE msg[t][u].new[cc]]])
AllSelected(req) == \A t \in DOMAIN req : req[t].insert /\ req[t].delete /\ req[t].modify
Mirrors(enc, pre, post, req) == AllSelected(req) => ApplyMsg(enc, req, Project(pre, req), Notify(enc, pre, post, req)) = Project(post, req)
Silent(enc, pre, post, req) == (Project(pre, req) = Project(post, req)) => Notify(enc, pre, post, req) = <<>>
NotifyLaws(pre, post, reqs) == \A req \in reqs : \A enc \in {1, 2} :
    /\ Accepts(enc, pre, post, req) /\ Exact(enc, pre, post, req) /\ Mirrors(enc, pre, post, req) /\ Silent(enc, pre, post, req)
=============================================================================
