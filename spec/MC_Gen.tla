------------------------------- MODULE MC_Gen -------------------------------
(***************************************************************************)
(* Schemas for the model generator (property C20) over the type space of   *)
(* Mapper.tla, extended with enum columns of every atomic type that can    *)
(* carry one; column names that need initialism / camel-case handling or   *)
(* are Go keywords; table names with underscores and in lower case.        *)
(* For each schema the expected Go type of every generated field is        *)
(* NativeType(column) - with or without enum types, since those are        *)
(* aliases of the underlying type.                                         *)
(***************************************************************************)
EXTENDS Mapper, Json, SequencesExt
CONSTANT Tier

GenColTypes == ColTypes \cup {Col(k, "", s[1], s[2], TRUE) : k \in {"real", "boolean"}, s \in {<<1, 1>>, <<0, 1>>, <<0, -1>>}}
Tricky == <<"name", "external_ids", "ip_addr", "id", "uuid_ref", "qos_max_rate", "type", "is_root", "url", "tcp_port", "vlan_mode", "other_config",
            "mac", "dns_servers", "bfd_status", "n_rows", "func", "range", "map", "ssl_ca_cert", "stp_enable", "x", "ACL_name", "camelCase", "a-b">>
NameOf(i) == IF i <= Len(Tricky) THEN Tricky[i] ELSE "col_" \o ToString(i)
ColSeq == SetToSeq(GenColTypes)
NCols == Len(ColSeq)

TableOf(ix) == [i \in ix |-> ColSeq[i]]    \* index -> column type; the column's name is NameOf(index)
Schema(tabs) ==   \* tabs: table name -> set of indices
    [tables |-> [t \in DOMAIN tabs |-> [c \in {NameOf(i) : i \in tabs[t]} |-> ColSeq[CHOOSE i \in tabs[t] : NameOf(i) = c]]],
     expect |-> [t \in DOMAIN tabs |-> [c \in {NameOf(i) : i \in tabs[t]} |-> NativeType(ColSeq[CHOOSE i \in tabs[t] : NameOf(i) = c])]]]

S1 == Schema([Logical_Switch_Port |-> 1..NCols])
S2 == Schema([bridge |-> {i \in 1..NCols : i % 3 = 0}, Flow_Sample_Collector_Set |-> {i \in 1..NCols : i % 3 = 1}, T |-> {i \in 1..NCols : i % 3 = 2}])
S3 == Schema([Only_Enums |-> {i \in 1..NCols : ColSeq[i].enum}, No_Columns_But_One |-> {1}])
S4 == Schema([QoS |-> {i \in 1..NCols : ColKind(ColSeq[i]) = "map"}, SSL |-> {i \in 1..NCols : ColKind(ColSeq[i]) = "opt"}, a_b_c |-> {i \in 1..NCols : ColKind(ColSeq[i]) = "set"}])
S5 == Schema([Port_Binding |-> {i \in 1..NCols : i % 5 = 0}, ACL |-> {i \in 1..NCols : i % 5 = 1}, dns |-> {i \in 1..NCols : i % 5 = 2},
              Load_Balancer_Health_Check |-> {i \in 1..NCols : i % 5 = 3}, x |-> {i \in 1..NCols : i % 5 = 4}])
S6 == Schema([One_Column_Each_A |-> {2}, One_Column_Each_B |-> {NCols}, Half |-> {i \in 1..NCols : i <= NCols \div 2}])
GenSchemas == IF Tier = "quick" THEN <<S2, S3>> ELSE <<S1, S2, S3, S4, S5, S6>>
EmitGen(x) == \A i \in DOMAIN GenSchemas : PrintT(<<"CASE", ToJson([mode |-> "gen", id |-> i, tables |-> GenSchemas[i].tables, expect |-> GenSchemas[i].expect])>>)
=============================================================================
