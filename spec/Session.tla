------------------------------- MODULE Session ------------------------------
(***************************************************************************)
(* One client with a monitor-fed cache, the server and a writer: the       *)
(* critical sections of monitor set-up (client/client.go monitor(), the    *)
(* update handlers run by the rpc2 read loop) against the server's         *)
(* transact (notify every monitor, wait for its acknowledgement, commit)   *)
(* and monitor registration.  Property C01: once every requested monitor   *)
(* is established and every notification sent so far has been processed,   *)
(* the cache holds exactly the monitored rows of the database - for the    *)
(* first and for an additional monitor, and for notifications handled      *)
(* before the monitor's initial contents were applied.                     *)
(*                                                                         *)
(* Rows are abstracted to version numbers (0 = absent).  A difference      *)
(* applied to the wrong base poisons the row (-1), so a divergence never   *)
(* heals silently.                                                         *)
(*                                                                         *)
(* ClientVariant  "intended": updates are deferred while ANY monitor is    *)
(*                being set up;  "pinned": only until the first monitor    *)
(*                has been applied (client.go at the pinned commit).       *)
(* ServerVariant  "intended": a monitor is registered under the            *)
(*                transaction lock; "pinned": at any time, also between    *)
(*                notifying the monitors and committing.                   *)
(***************************************************************************)
EXTENDS Integers, Sequences, FiniteSets, TLC

CONSTANTS Rows,          \* row identifiers
          TableOf,       \* row -> table
          Monitors,      \* monitor -> table it covers (disjoint)
          MaxTxns, ClientVariant, ServerVariant

VARIABLES
    db,         \* committed database: row -> version
    ntxn,       \* transactions begun so far
    txn,        \* transaction in progress: [changes, toNotify, awaitingAck, atGate] or NoTxn
    registered, \* monitors registered at the server
    chan,       \* server -> client FIFO: notifications and monitor replies
    cache,      \* client cache: row -> version (0 absent, -1 poisoned)
    deferU,     \* client: defer updates
    deferred,   \* client: deferred notifications
    pend,       \* monitor -> "none" | "sent" | "replied" | "done"   ("replied": reply with the caller, not applied)
    replyBuf,   \* monitor -> snapshot carried by its reply
    failed,     \* an inconsistency was detected (error to the error handler / Monitor returned an error)
    hist        \* environment-level history (for schedule emission)

vars == <<db, ntxn, txn, registered, chan, cache, deferU, deferred, pend, replyBuf, failed, hist>>

NoTxn == [changes |-> <<>>, toNotify |-> {}, awaitingAck |-> FALSE, atGate |-> FALSE, active |-> FALSE]
MonOfTable(t) == {m \in DOMAIN Monitors : Monitors[m] = t}
RowsOfMon(m) == {r \in Rows : TableOf[r] = Monitors[m]}

\* ---------------------------------------------------------------- client
\* apply one row change <<r, old, new>> to the cache; returns <<cache', ok>>
ApplyChange(c, ch) ==
    LET r == ch[1] old == ch[2] new == ch[3]
    IN  IF old = 0 THEN IF c[r] = 0 THEN <<[c EXCEPT ![r] = new], TRUE>> ELSE <<c, FALSE>>       \* insert
        ELSE IF new = 0 THEN IF c[r] # 0 THEN <<[c EXCEPT ![r] = 0], TRUE>> ELSE <<c, FALSE>>    \* delete
        ELSE IF c[r] = 0 THEN <<c, FALSE>>                                                       \* modify of a missing row
        ELSE IF c[r] = old THEN <<[c EXCEPT ![r] = new], TRUE>>
        ELSE <<[c EXCEPT ![r] = -1], TRUE>>                                                      \* difference on the wrong base

RECURSIVE ApplyAll(_, _)
\* a notification is a sequence of row changes
ApplyAll(c, chs) ==
    IF chs = <<>> THEN <<c, TRUE>>
    ELSE LET r == ApplyChange(c, Head(chs))
         IN  IF ~r[2] THEN <<r[1], FALSE>> ELSE ApplyAll(r[1], Tail(chs))

RECURSIVE ApplyNotifs(_, _)
ApplyNotifs(c, ns) ==
    IF ns = <<>> THEN <<c, TRUE>>
    ELSE LET r == ApplyAll(c, Head(ns))
         IN  IF ~r[2] THEN <<r[1], FALSE>> ELSE ApplyNotifs(r[1], Tail(ns))

\* the initial contents of a monitor: every row is created
RECURSIVE SetToSeq(_)
SetToSeq(S) == IF S = {} THEN <<>> ELSE LET x == CHOOSE x \in S : TRUE IN <<x>> \o SetToSeq(S \ {x})
SnapshotChanges(snap) == [i \in 1..Cardinality({r \in DOMAIN snap : snap[r] # 0}) |->
                            LET r == SetToSeq({r \in DOMAIN snap : snap[r] # 0})[i] IN <<r, 0, snap[r]>>]

\* the read loop hands a monitor reply to the caller as soon as it is at the head
RECURSIVE Drain(_, _, _)
Drain(ch, p, rb) ==
    IF ch # <<>> /\ Head(ch).kind = "reply"
    THEN Drain(Tail(ch), [p EXCEPT ![Head(ch).mon] = "replied"], [rb EXCEPT ![Head(ch).mon] = Head(ch).snap])
    ELSE <<ch, p, rb>>

\* what the harness can observe of the parked goroutines after a step:
\* monitors whose caller waits at "monitor.reply", whether the read loop waits
\* at "update.pre", whether the writer waits at "transact.notified"
Parked(p, ch, t) == [replied |-> {m \in DOMAIN Monitors : p[m] = "replied"},
                     readLoop |-> (ch # <<>> /\ Head(ch).kind = "upd"),
                     atGate |-> t.atGate]

\* ---------------------------------------------------------------- actions
Init ==
    /\ db = [r \in Rows |-> 0] /\ ntxn = 0 /\ txn = NoTxn /\ registered = {}
    /\ chan = <<>> /\ cache = [r \in Rows |-> 0] /\ deferU = TRUE /\ deferred = <<>>
    /\ pend = [m \in DOMAIN Monitors |-> "none"] /\ replyBuf = [m \in DOMAIN Monitors |-> [r \in {} |-> 0]]
    /\ failed = FALSE /\ hist = <<>>

\* the client calls Monitor(m): request sent, registered by the server, reply enqueued
MonStart(m) ==
    /\ pend[m] = "none" /\ m \notin registered /\ ~failed
    \* Monitor() calls are serialised by the client (monitorsMutex)
    /\ \A m2 \in DOMAIN Monitors : pend[m2] \in {"none", "done"}
    /\ ServerVariant = "intended" => ~txn.active
    /\ registered' = registered \cup {m}
    /\ LET snap == [r \in RowsOfMon(m) |-> db[r]]
           d == Drain(Append(chan, [kind |-> "reply", mon |-> m, snap |-> snap, changes |-> <<>>]),
                      [pend EXCEPT ![m] = "sent"], replyBuf)
       IN  chan' = d[1] /\ pend' = d[2] /\ replyBuf' = d[3]
    /\ deferU' = IF ClientVariant = "intended" THEN TRUE ELSE deferU
    /\ hist' = Append(hist, <<"MonStart", m, Parked(pend', chan', txn)>>)
    /\ UNCHANGED <<db, ntxn, txn, cache, deferred, failed>>

\* the writer's transaction begins: changes to rows of one table, or of two tables. The server executes it and
\* notifies the registered monitors of the tables concerned one after the other - each notification carries the
\* changes of that monitor's table and is acknowledged before the next is sent; with nobody (left) to notify the
\* transaction is ready to commit
ConcernedMons(chs) == {m \in registered : \E i \in DOMAIN chs : TableOf[chs[i][1]] = Monitors[m]}
ChangesFor(m, chs) == SelectSeq(chs, LAMBDA c : TableOf[c[1]] = Monitors[m])
NotifFor(m, chs) == [kind |-> "upd", mon |-> m, snap |-> [r \in {} |-> 0], changes |-> ChangesFor(m, chs)]
TBegin(chs) ==
    /\ ~txn.active /\ ntxn < MaxTxns /\ ~failed
    /\ ntxn' = ntxn + 1
    /\ LET ms == ConcernedMons(chs)
       IN  IF ms = {}
           THEN /\ txn' = [changes |-> chs, toNotify |-> {}, awaitingAck |-> FALSE, atGate |-> TRUE, active |-> TRUE]
                /\ UNCHANGED chan
           ELSE \E m \in ms :       \* the server walks its monitors in no particular order
                    /\ txn' = [changes |-> chs, toNotify |-> ms \ {m}, awaitingAck |-> TRUE, atGate |-> FALSE, active |-> TRUE]
                    /\ chan' = Append(chan, NotifFor(m, chs))
    /\ hist' = Append(hist, <<"TBegin", chs, Parked(pend, chan', txn')>>)
    /\ UNCHANGED <<db, registered, cache, deferU, deferred, pend, replyBuf, failed>>

\* the client's read loop handles the notification at the head of the channel
ReadLoopNotify ==
    /\ chan # <<>> /\ Head(chan).kind = "upd"
    /\ LET n == Head(chan)
           d == Drain(Tail(chan), pend, replyBuf)
       IN  /\ pend' = d[2] /\ replyBuf' = d[3]
           /\ IF deferU
              THEN /\ deferred' = Append(deferred, n.changes)
                   /\ UNCHANGED <<cache, failed>>
              ELSE LET r == ApplyAll(cache, n.changes)
                   IN  /\ cache' = r[1]
                       /\ failed' = (failed \/ ~r[2])
                       /\ UNCHANGED deferred
           \* the acknowledgement lets the server go on: the next monitor's notification, or the commit
           /\ IF txn.toNotify = {}
              THEN /\ txn' = [txn EXCEPT !.awaitingAck = FALSE, !.atGate = TRUE]
                   /\ chan' = d[1]
              ELSE \E m \in txn.toNotify :
                       /\ txn' = [txn EXCEPT !.toNotify = @ \ {m}]
                       /\ chan' = Append(d[1], NotifFor(m, txn.changes))
    /\ hist' = Append(hist, <<"ReadLoopNotify", 0, Parked(pend', chan', txn')>>)
    /\ UNCHANGED <<db, ntxn, registered, deferU>>

\* the caller of Monitor(m) applies the reply: initial contents, then the deferred updates
ApplyReply(m) ==
    /\ pend[m] = "replied"
    /\ LET r1 == ApplyAll(cache, SnapshotChanges(replyBuf[m]))
           r2 == ApplyNotifs(r1[1], deferred)
       IN  /\ cache' = IF r1[2] THEN r2[1] ELSE r1[1]
           /\ failed' = (failed \/ ~r1[2] \/ ~r2[2])
    /\ deferU' = FALSE
    /\ deferred' = <<>>
    /\ pend' = [pend EXCEPT ![m] = "done"]
    /\ hist' = Append(hist, <<"ApplyReply", m, Parked(pend', chan, txn)>>)
    /\ UNCHANGED <<db, ntxn, txn, registered, chan, replyBuf>>

\* the server commits
TCommit ==
    /\ txn.active /\ txn.atGate
    /\ db' = [r \in Rows |-> LET cs == {i \in DOMAIN txn.changes : txn.changes[i][1] = r}
                             IN  IF cs = {} THEN db[r] ELSE txn.changes[CHOOSE i \in cs : TRUE][3]]
    /\ txn' = NoTxn
    /\ hist' = Append(hist, <<"TCommit", 0, Parked(pend, chan, txn')>>)
    /\ UNCHANGED <<ntxn, registered, chan, cache, deferU, deferred, pend, replyBuf, failed>>

\* the changes a transaction may make, given the committed state: insert an absent row, modify or delete a
\* present one; one or two rows of one table, or one row each of two tables
One(r) == IF db[r] = 0 THEN {<<r, 0, ntxn + 1>>} ELSE {<<r, db[r], ntxn + 1>>, <<r, db[r], 0>>}
ChangesOf(tbl) ==
    LET rs == {r \in Rows : TableOf[r] = tbl}
    IN  UNION {{<<c>> : c \in One(r)} : r \in rs}
        \cup UNION {{<<c1, c2>> : c1 \in One(p[1]), c2 \in One(p[2])} : p \in {p \in rs \X rs : p[1] # p[2]}}
FirstTable == CHOOSE t \in {TableOf[r] : r \in Rows} : TRUE
ChangesAcross ==
    UNION {{<<c1, c2>> : c1 \in One(p[1]), c2 \in One(p[2])}
             : p \in {p \in Rows \X Rows : TableOf[p[1]] = FirstTable /\ TableOf[p[2]] # FirstTable}}

Tables == {TableOf[r] : r \in Rows}

Next ==
    \/ \E m \in DOMAIN Monitors : MonStart(m) \/ ApplyReply(m)
    \/ \E tbl \in Tables : \E chs \in ChangesOf(tbl) : TBegin(chs)
    \/ \E chs \in ChangesAcross : TBegin(chs)
    \/ ReadLoopNotify \/ TCommit

Spec == Init /\ [][Next]_vars

\* ---------------------------------------------------------------- properties
Quiescent ==
    /\ ~txn.active /\ chan = <<>> /\ deferred = <<>>
    /\ \A m \in DOMAIN Monitors : pend[m] \in {"none", "done"}

CacheMirrors ==
    Quiescent => \A m \in DOMAIN Monitors : pend[m] = "done" => \A r \in RowsOfMon(m) : cache[r] = db[r]

NoInconsistency == ~failed
=============================================================================
