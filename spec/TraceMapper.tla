---------------------------- MODULE TraceMapper -----------------------------
(***************************************************************************)
(* Validation of recorded mapper runs against Mapper.tla (C09).            *)
(*  mtype  a model whose field for the column has some Go type was bound   *)
(*         to the schema: accepted exactly when the type is NativeType     *)
(*  map    a model holding a native value went NewRow -> JSON -> Row ->    *)
(*         GetRowData (and CreateModel); the JSON must be Enc(col, value), *)
(*         the value must come back, other fields must stay untouched      *)
(***************************************************************************)
EXTENDS Mapper, Json
Trace == ndJsonDeserialize("trace.ndjson")
VARIABLES l, done
vars == <<l, done>>
Ev == Trace[l]
Report(prop, what, detail) == PrintT(<<"MISMATCH", ToJson([prop |-> prop, line |-> l, what |-> what, detail |-> detail])>>)
Chk(cond, prop, what, detail) == IF cond THEN TRUE ELSE Report(prop, what, detail)

DoType ==
    /\ Ev.ev = "mtype"
    /\ Chk(Ev.accepted = (Ev.gotype = NativeType(Ev.col)), "C09",
           IF Ev.accepted THEN "a model field of the wrong Go type was accepted for the column" ELSE "the Go type the column maps to was rejected",
           [id |-> Ev.id, col |-> Ev.col, gotype |-> Ev.gotype, expected |-> NativeType(Ev.col), err |-> Ev.err])
    /\ Chk(Ev.accepted = Ev.acceptedByDBModel, "C09", "NewInfo and NewDatabaseModel disagree about the model's field type",
           [id |-> Ev.id, col |-> Ev.col, gotype |-> Ev.gotype])

DoMap ==
    /\ Ev.ev = "map"
    /\ IF Ev.panic # "" THEN Report("C09", "the mapper panicked", [id |-> Ev.id, col |-> Ev.col, value |-> Ev.value, msg |-> Ev.panic])
       ELSE IF ~Ev.ok THEN Report("C09", "a valid model value was rejected by the mapper", [id |-> Ev.id, col |-> Ev.col, value |-> Ev.value, err |-> Ev.err])
       ELSE /\ Chk(IF Ev.wire = Z THEN IsDefault(Ev.value) ELSE Eq(Val, Ev.wire, Enc(Ev.col, Ev.value)), "C09", "the row built from the model does not encode the field's value",
                   [id |-> Ev.id, col |-> Ev.col, value |-> Ev.value, wire |-> Ev.wire, expected |-> Enc(Ev.col, Ev.value)])
            /\ Chk(SameVal(Ev.back, Ev.value), "C09", "the value read back from the row differs from the value written",
                   [id |-> Ev.id, col |-> Ev.col, value |-> Ev.value, back |-> Ev.back])
            /\ Chk(SameVal(Ev.created, Ev.value), "C09", "the model created from the row (CreateModel) holds a different value",
                   [id |-> Ev.id, col |-> Ev.col, value |-> Ev.value, back |-> Ev.created])
            /\ Chk(Ev.untouched, "C09", "a column absent from the row changed the corresponding field", [id |-> Ev.id, col |-> Ev.col, value |-> Ev.value, what |-> Ev.touched])

Init == l = 1 /\ done = FALSE
Next == \/ /\ l <= Len(Trace) /\ (DoType \/ DoMap) /\ l' = l + 1 /\ UNCHANGED done
        \/ /\ l = Len(Trace) + 1 /\ ~done /\ PrintT(<<"TRACE-COMPLETE", Len(Trace)>>) /\ done' = TRUE /\ UNCHANGED l
Spec == Init /\ [][Next]_vars
=============================================================================
