-------------------------------- MODULE Merge -------------------------------
(***************************************************************************)
(* Aggregation of successive changes to one row (updates/merge.go,         *)
(* updates.go): property C11.  A row has four columns, one per kind:       *)
(*   a : atom (0 = default)   o : optional   s : set   m : map             *)
(* over small integer universes.  An accumulated update is                 *)
(*   [kind : "none"|"insert"|"modify"|"delete", old, new, mod]             *)
(* with mod the modify row: column -> difference, changed columns only.    *)
(* Add transcribes the case analysis of the implementation; Net is what    *)
(* the property demands: first old value, last new value, a difference     *)
(* that takes the first to the last, nothing for a net no-op.              *)
(***************************************************************************)
EXTENDS Diff

ColsM == {"a", "o", "s", "m"}
KindOfCol(c) == CASE c = "a" -> "atom" [] c = "o" -> "opt" [] c = "s" -> "set" [] c = "m" -> "map"
NoRow == [a |-> -99, o |-> {}, s |-> {}, m |-> EmptyMap]   \* a marker row: no real row has a = -99
DefaultRowM == [a |-> 0, o |-> {}, s |-> {}, m |-> EmptyMap]
None == [kind |-> "none", old |-> NoRow, new |-> NoRow, mod |-> EmptyMap]

RowDiff(old, new) ==
    [c \in {c \in ColsM : old[c] # new[c]} |-> Diff(KindOfCol(c), old[c], new[c])]
RowApply(old, mod) ==
    [c \in ColsM |-> IF c \in DOMAIN mod THEN Apply(KindOfCol(c), old[c], mod[c]) ELSE old[c]]

\* ---- single operations on the current row; "err" when not applicable
\* op = [op, col, val, mut, shape]
MutVal(kind, mut, arg, shape, v) ==
    CASE mut = "+=" -> v + arg
      [] mut = "-=" -> v - arg
      [] mut = "insert" /\ kind = "set" -> v \cup arg
      [] mut = "delete" /\ kind = "set" -> v \ arg
      [] mut = "insert" /\ kind = "map" -> [k \in DOMAIN v \cup DOMAIN arg |-> IF k \in DOMAIN v THEN v[k] ELSE arg[k]]
      [] mut = "delete" /\ kind = "map" /\ shape = "keys" -> [k \in DOMAIN v \ arg |-> v[k]]
      [] mut = "delete" /\ kind = "map" ->
            [k \in DOMAIN v \ {k \in DOMAIN arg : k \in DOMAIN v /\ v[k] = arg[k]} |-> v[k]]

\* "mutate2": one mutate operation carrying two mutations of the same column:
\* val, mut and shape are pairs
NextRow(cur, op) ==
    CASE op.op = "insert" -> op.val
      [] op.op = "delete" -> NoRow
      [] op.op = "update" -> [cur EXCEPT ![op.col] = op.val]
      [] op.op = "mutate" -> [cur EXCEPT ![op.col] = MutVal(KindOfCol(op.col), op.mut, op.val, op.shape, cur[op.col])]
      [] op.op = "mutate2" ->
            LET k == KindOfCol(op.col)
                v1 == MutVal(k, op.mut[1], op.val[1], op.shape[1], cur[op.col])
            IN  [cur EXCEPT ![op.col] = MutVal(k, op.mut[2], op.val[2], op.shape[2], v1)]

Enabled(cur, everPresent, op) ==
    IF op.op = "insert" THEN cur = NoRow /\ ~everPresent ELSE cur # NoRow

\* the single-operation update (what AddOperation produces for one operation)
Change(cur, op) ==
    LET nxt == NextRow(cur, op)
    IN  CASE op.op = "insert" -> [kind |-> "insert", old |-> NoRow, new |-> nxt, mod |-> EmptyMap]
          [] op.op = "delete" -> [kind |-> "delete", old |-> cur, new |-> NoRow, mod |-> EmptyMap]
          [] OTHER -> IF nxt = cur THEN None
                      ELSE [kind |-> "modify", old |-> cur, new |-> nxt, mod |-> RowDiff(cur, nxt)]

\* merge.go: merge(a, b)
MergeMod(o, a, b) ==
    LET cols == DOMAIN a \cup DOMAIN b
        md(c) == IF c \notin DOMAIN a THEN b[c]
                 ELSE IF c \notin DOMAIN b THEN a[c]
                 ELSE MergeDiff(KindOfCol(c), o[c], a[c], b[c])
        keep == {c \in cols : ~NoOpDiff(KindOfCol(c), o[c], md(c)) \/ (c \notin DOMAIN a \/ c \notin DOMAIN b)}
    IN  [c \in keep |-> md(c)]

Add(a, b) ==
    CASE b.kind = "none" -> a
      [] a.kind = "none" -> b
      [] a.kind = "insert" /\ b.kind = "modify" -> [a EXCEPT !.new = b.new]
      [] a.kind = "modify" /\ b.kind = "modify" ->
            LET mm == MergeMod(a.old, a.mod, b.mod)
            IN  IF DOMAIN mm = {} THEN None
                ELSE [kind |-> "modify", old |-> a.old, new |-> b.new, mod |-> mm]
      [] a.kind = "insert" /\ b.kind = "delete" -> None
      [] a.kind = "modify" /\ b.kind = "delete" -> [kind |-> "delete", old |-> a.old, new |-> NoRow, mod |-> EmptyMap]
      [] OTHER -> [kind |-> "unsupported", old |-> NoRow, new |-> NoRow, mod |-> EmptyMap]

\* what C11 demands of the accumulated update, given the row before the
\* first and after the last operation
NetOK(acc, orig, cur) ==
    CASE orig = NoRow /\ cur = NoRow -> acc.kind = "none"
      [] orig = NoRow -> acc.kind = "insert" /\ acc.new = cur
      [] cur = NoRow  -> acc.kind = "delete" /\ acc.old = orig
      [] orig = cur   -> acc.kind = "none"
      [] OTHER -> /\ acc.kind = "modify" /\ acc.old = orig /\ acc.new = cur
                  /\ RowApply(orig, acc.mod) = cur
                  /\ \A c \in DOMAIN acc.mod : orig[c] # cur[c]
=============================================================================
