-------------------------------- MODULE Cond --------------------------------
(***************************************************************************)
(* RFC 7047 section 5.1 <condition>: [column, function, value].            *)
(* A condition in the abstract encoding is <<column, function, valueJson,  *)
(* shape>>; shape only tells the harness how to render the value on the    *)
(* wire (bare atom / set) and has no meaning here.                         *)
(***************************************************************************)
EXTENDS Schema

CondFunctions == {"==", "!=", "<", "<=", ">", ">=", "includes", "excludes"}

\* v = value of the column in the row, a = argument, both decoded
EvalAtom(t, fn, v, a) ==
    CASE fn \in {"==", "includes"} -> v = a
      [] fn \in {"!=", "excludes"} -> v # a
      [] fn = "<"  -> ALt(t, v, a)
      [] fn = "<=" -> ALe(t, v, a)
      [] fn = ">"  -> ALt(t, a, v)
      [] fn = ">=" -> ALe(t, a, v)

\* sets and maps: extensional equality; includes = every element/pair of the
\* argument is in the column; excludes = no element/pair of the argument is
\* in the column (ovsdb_datum_excludes_all)
EvalColl(col, fn, v, a) ==
    LET ev == Elems(col, v)
        ea == Elems(col, a)
    IN CASE fn = "==" -> ev = ea
         [] fn = "!=" -> ev # ea
         [] fn = "includes" -> ea \subseteq ev
         [] fn = "excludes" -> ea \cap ev = {}
         [] OTHER -> FALSE

\* row is a total row of table t, u its uuid
CondTrue(t, u, row, cond) ==
    LET c   == cond[1]
        col == ColX(t, c)
        v   == IF c = "_uuid" THEN u ELSE row[c]
        a   == ValJ(col, cond[3])
    IN  IF col.kind = "atom" THEN EvalAtom(col.key.t, cond[2], v, a)
        ELSE EvalColl(col, cond[2], v, a)

Match(t, u, row, where) == \A i \in DOMAIN where : CondTrue(t, u, row, where[i])

\* uuids of the rows of table-contents tbl (uuid -> row) matching all conditions
Select(t, tbl, where) == {u \in DOMAIN tbl : Match(t, u, tbl[u], where)}

\* RFC: ordering functions are defined for integer and real atoms only
CondWellFormed(t, cond) ==
    LET col == ColX(t, cond[1])
    IN  /\ cond[2] \in CondFunctions
        /\ cond[2] \in {"<", "<=", ">", ">="} =>
              col.kind = "atom" /\ col.key.t \in {"integer", "real"}
=============================================================================
