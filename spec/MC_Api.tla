------------------------------- MODULE MC_Api --------------------------------
(***************************************************************************)
(* The model API over the schema of `vh schema -schema api` (one root      *)
(* table A: name and i2 indexed, an optional, a set, a map, an immutable   *)
(* and an enum column, an optional weak reference to A): every call of the alphabet    *)
(* below on every start database.  TLC checks the laws of the contract on  *)
(* each (Laws) and prints the case; the harness makes the same call on a   *)
(* synchronised client of a server holding the same rows, and TraceApi     *)
(* judges what the real API and the real server made of it.                *)
(***************************************************************************)
EXTENDS Api

CONSTANT Variant      \* "intended" | "fieldsDropDefaults" (refuted: a listed field holding its default is not written)

\* ---- rows and models in JSON form
R(name, i, i2, o, s, m, imm, peer) ==
    [name |-> name, i |-> i, i2 |-> i2, o |-> o, s |-> s, m |-> m, imm |-> imm, peer |-> peer, e |-> ""]
M(uuid, cols) == [uuid |-> uuid, cols |-> cols]
Zero == R("", 0, 0, <<>>, <<>>, <<>>, "", <<>>)

DB0J == [u \in {} |-> Zero]
DB1J == ("u1" :> [R("a", 1, 1, <<"x">>, <<"p">>, <<<<"k", "v">>>>, "c", <<>>) EXCEPT !.e = "red"])
     @@ ("u2" :> R("b", 1, 2, <<>>, <<>>, <<>>, "", <<"u1">>))
     @@ ("u3" :> Zero)
DBsJ == <<DB0J, DB1J>>
Native(dbj) == [t \in Tables |-> [u \in DOMAIN dbj |-> [c \in Cols(t) |-> ValJ(Col(t, c), dbj[u][c])]]]

\* ---- create
C1 == M("", [Zero EXCEPT !.name = "c", !.i2 = 3])
C2 == M("@n1", [R("d", 2, 4, <<"y">>, <<"q", "r">>, <<<<"k2", "v2">>>>, "z", <<"@n2">>) EXCEPT !.e = "blue"])
C3 == M("@n2", [Zero EXCEPT !.name = "e", !.i2 = 5, !.peer = <<"@n1">>])
C4 == M("u9", [Zero EXCEPT !.name = "f", !.i2 = 6, !.peer = <<"u1">>])
C5 == M("", [Zero EXCEPT !.name = "a", !.i2 = 7])
C6 == M("@n1", [Zero EXCEPT !.name = "g", !.i2 = 8, !.peer = <<"@n1">>])
C7 == M("", Zero)
C8 == M("@n3", [Zero EXCEPT !.name = "@n3", !.i2 = 9, !.s = <<"@n3">>, !.m = <<<<"@n3", "@n3">>>>])  \* the name as text
Creates == {<<C1>>, <<C2>>, <<C3>>, <<C4>>, <<C5>>, <<C6>>, <<C7>>, <<C8>>, <<C2, C3>>, <<C3, C2>>, <<C1, C4>>, <<C2, C6>>, <<C4, C4>>, <<C3, C6, C1>>}

\* ---- selections
Sel(form, models, conds) == [form |-> form, models |-> models, conds |-> conds]
SelNone == Sel("models", <<>>, <<>>)
Sels == {
    Sel("models", <<M("u1", Zero)>>, <<>>),
    Sel("models", <<M("u8", Zero)>>, <<>>),
    Sel("models", <<M("", [Zero EXCEPT !.name = "b"])>>, <<>>),
    Sel("models", <<M("", [Zero EXCEPT !.name = "zz"])>>, <<>>),
    Sel("models", <<M("", [Zero EXCEPT !.i2 = 2])>>, <<>>),
    Sel("models", <<M("", [Zero EXCEPT !.name = "zz", !.i2 = 1])>>, <<>>),
    Sel("models", <<M("", Zero)>>, <<>>),
    Sel("models", <<M("u1", Zero), M("", [Zero EXCEPT !.name = "b"])>>, <<>>),
    Sel("all", <<>>, <<<<"i", "==", 1, "atom">>>>),
    Sel("all", <<>>, <<<<"i", "==", 1, "atom">>, <<"name", "==", "a", "atom">>>>),
    Sel("all", <<>>, <<>>),
    Sel("all", <<>>, <<<<"s", "includes", <<"p">>, "set">>>>),
    Sel("all", <<>>, <<<<"i", ">", 5, "atom">>>>),
    Sel("any", <<>>, <<<<"name", "==", "a", "atom">>, <<"name", "==", "b", "atom">>>>),
    Sel("any", <<>>, <<<<"i", "==", 7, "atom">>, <<"m", "includes", <<<<"k", "v">>>>, "col">>>>),
    Sel("all", <<>>, <<<<"e", "==", "red", "atom">>>>),
    Sel("any", <<>>, <<<<"e", "!=", "red", "atom">>, <<"o", "==", <<"x">>, "set">>>>),
    Sel("all", <<>>, <<<<"name", "<", "b", "atom">>>>),
    Sel("all", <<>>, <<>>),
    Sel("models", <<>>, <<>>)
}

\* ---- update
U1 == M("", R("", 5, 0, <<"n">>, <<"a", "b">>, <<<<"x", "y">>>>, "", <<>>))
U2 == M("", Zero)
U3 == M("", [Zero EXCEPT !.imm = "q"])
U4 == M("", [Zero EXCEPT !.name = "a", !.i2 = 9])
U5 == M("", [Zero EXCEPT !.peer = <<"u2">>, !.o = <<"">>, !.e = "green"])
Updates == {<<U1, <<>>>>, <<U1, <<"i">>>>, <<U1, <<"o">>>>, <<U1, <<"s", "m">>>>, <<U1, <<"name">>>>, <<U1, <<"imm">>>>, <<U1, <<"i", "imm">>>>,
            <<U1, <<"peer">>>>, <<U2, <<>>>>, <<U2, <<"o">>>>, <<U2, <<"s", "m", "i">>>>, <<U3, <<>>>>, <<U4, <<>>>>, <<U4, <<"i2">>>>,
            <<U5, <<>>>>, <<U5, <<"peer">>>>}

\* ---- mutate
Muts == {
    <<<<"i", "+=", 2, "atom">>>>,
    <<<<"i", "/=", 0, "atom">>>>,
    <<<<"i", "%=", 2, "atom">>>>,
    <<<<"s", "insert", <<"q">>, "col">>>>,
    <<<<"s", "delete", <<"p", "zz">>, "col">>>>,
    <<<<"m", "insert", <<<<"k", "other">>, <<"k2", "v2">>>>, "col">>>>,
    <<<<"m", "delete", <<<<"k", "v">>>>, "col">>>>,
    <<<<"m", "delete", <<<<"k", "not-v">>>>, "col">>>>,
    <<<<"m", "delete", <<"k", "k9">>, "keys">>>>,
    <<<<"i", "+=", 1, "atom">>, <<"s", "insert", <<"z">>, "col">>, <<"i", "*=", 3, "atom">>>>,
    <<<<"imm", "insert", <<"x">>, "col">>>>,
    <<<<"name", "+=", 1, "atom">>>>,
    <<<<"e", "insert", <<"red">>, "col">>>>,
    <<>>
}

\* ---- wait
W1 == M("", [Zero EXCEPT !.name = "a", !.i = 1])
W2 == M("", [Zero EXCEPT !.name = "b"])
Waits == {<<W1, <<>>>>, <<W1, <<"name">>>>, <<W1, <<"i", "name">>>>, <<W1, <<"o">>>>, <<W2, <<"name", "s">>>>, <<U2, <<>>>>}

Call(kind, sel, models, fields, muts, until) ==
    [kind |-> kind, table |-> "A", sel |-> sel, models |-> models, fields |-> fields, muts |-> muts, until |-> until]
Calls ==
    {Call("create", SelNone, ms, <<>>, <<>>, "") : ms \in Creates}
    \cup {Call("update", s, <<u[1]>>, u[2], <<>>, "") : s \in Sels, u \in Updates}
    \cup {Call("mutate", s, <<Zero2>>, <<>>, mu, "") : s \in Sels, mu \in Muts, Zero2 \in {M("", Zero)}}
    \cup {Call("delete", s, <<>>, <<>>, <<>>, "") : s \in Sels}
    \cup {Call("wait", s, <<w[1]>>, w[2], <<>>, un) : s \in Sels, w \in Waits, un \in {"==", "!="}}

VARIABLES dbi, call
vars == <<dbi, call>>

Init == dbi \in DOMAIN DBsJ /\ call \in Calls
Next == UNCHANGED vars
Spec == Init /\ [][Next]_vars

\* ---- the contract's laws, on every (database, call)
Db == Native(DBsJ[dbi])
A == ApiOps(call, Db)
T == ApiTxn(call, Db)
Rows == Db["A"]
WrittenCols ==
    LET m == call.models[1]
        fs == SeqToSet(call.fields)
    IN  IF Variant = "fieldsDropDefaults" THEN {c \in RowCols("A", m, {}) : fs = {} \/ c \in fs} ELSE RowCols("A", m, fs)

Laws ==
    /\ A.err => A.ops = <<>>
    /\ \A i \in DOMAIN A.ops : A.ops[i].table = "A" /\ A.ops[i].op = (CASE call.kind = "create" -> "insert" [] OTHER -> call.kind)
    \* one operation per model created; the operations of a selection address the rows it means, each once
    /\ call.kind = "create" => Len(A.ops) = Len(call.models)
    /\ (call.kind # "create" /\ ~A.err) =>
         UNION {Select("A", Rows, A.ops[i].where) : i \in DOMAIN A.ops} = Meant("A", Rows, call.sel)
    \* an accepted update writes exactly the listed (else the non-default) mutable columns of exactly those rows
    /\ (call.kind = "update" /\ ~A.err /\ T.ok) =>
         \A u \in DOMAIN Rows :
            /\ u \in DOMAIN T.db["A"]
            /\ \A c \in Cols("A") :
                 T.db["A"][u][c] = IF u \in Meant("A", Rows, call.sel) /\ c \in WrittenCols /\ Mutable("A", c)
                                    THEN XVal([n \in {} |-> ""], Col("A", c), MV("A", call.models[1], c)) ELSE Rows[u][c]
    \* an accepted delete removes exactly those rows (and prunes the weak references to them)
    /\ (call.kind = "delete" /\ ~A.err /\ T.ok) => DOMAIN T.db["A"] = DOMAIN Rows \ Meant("A", Rows, call.sel)
    \* an accepted create stores each model's values under the uuid its result reports, names resolved
    /\ (call.kind = "create" /\ T.ok) =>
         \A i \in DOMAIN call.models :
            LET u == T.results[i].uuid
                ops == FillFresh(A.ops)
            IN  /\ T.results[i].kind = "uuid" /\ u \in DOMAIN T.db["A"] /\ u \notin DOMAIN Rows
                /\ \A c \in Cols("A") \ {"peer"} : T.db["A"][u][c] = MV("A", call.models[i], c)
                /\ \A x \in MV("A", call.models[i], "peer") :
                     IsName(x) => IF \E j \in DOMAIN call.models : call.models[j].uuid = x
                                  THEN \E j \in DOMAIN call.models : call.models[j].uuid = x /\ T.db["A"][u].peer = {T.results[j].uuid}
                                  ELSE T.db["A"][u].peer = {}     \* no such row: the weak reference is dropped
    \* a wait never changes the database
    /\ call.kind = "wait" => T.db = Db

\* ---- emission
RECURSIVE SortedSeq(_)
SortedSeq(S) == IF S = {} THEN <<>> ELSE LET x == CHOOSE x \in S : \A y \in S : x <= y IN <<x>> \o SortedSeq(S \ {x})
Emit == PrintT(<<"CASE", ToJson([db |-> DBsJ[dbi], dbi |-> dbi, call |-> call, err |-> A.err, nops |-> Len(A.ops), ok |-> T.ok])>>)
InitEmit == Init /\ Emit
SpecEmit == InitEmit /\ [][Next]_vars
=============================================================================
