------------------------------- MODULE MC_Txn -------------------------------
(***************************************************************************)
(* Model checking the transaction model over the small schema: every       *)
(* history (up to MaxDepth transactions of up to MaxOps operations drawn   *)
(* from OpPool) is explored; the invariants are the design-level content   *)
(* of C02 (atomicity), C04 (referential integrity after every commit) and  *)
(* C06 (unique indexes after every commit).  Every transition             *)
(* (database, transaction) is also emitted as a CASE line: the harness     *)
(* replays the history on the real engine and TraceTxn.tla judges it.      *)
(***************************************************************************)
EXTENDS Txn, Json

CONSTANTS MaxDepth, MaxOps, Emit

VARIABLES db, hist, lastOk

vars == <<db, hist, lastOk>>

Base == [op |-> "", table |-> "", uuid |-> "", uuidName |-> "", where |-> <<>>, row |-> <<>>,
         rows |-> <<>>, columns |-> <<>>, hasColumns |-> FALSE, mutations |-> <<>>, until |-> "",
         timeout |-> 0, bad |-> FALSE, badKind |-> "", noUUID |-> FALSE]

Ins(t, u, row)      == [Base EXCEPT !.op = "insert", !.table = t, !.uuid = u, !.row = row]
InsN(t, u, n, row)  == [Base EXCEPT !.op = "insert", !.table = t, !.uuid = u, !.uuidName = n, !.row = row]
Del(t, w)           == [Base EXCEPT !.op = "delete", !.table = t, !.where = w]
Upd(t, w, row)      == [Base EXCEPT !.op = "update", !.table = t, !.where = w, !.row = row]
Mut(t, w, m)        == [Base EXCEPT !.op = "mutate", !.table = t, !.where = w, !.mutations = m]
Sel(t, w)           == [Base EXCEPT !.op = "select", !.table = t, !.where = w]

NameIs(n) == <<<<"name", "==", n, "atom">>>>

OpPool == <<
    Ins("N", "u1", [name |-> "a"]),
    Ins("N", "u2", [name |-> "b", next |-> <<"u1">>]),
    Ins("N", "u3", [name |-> "a", v |-> 1]),
    Ins("R", "u4", [name |-> "r1", sref |-> <<"u1">>, x |-> 1, y |-> 1]),
    Ins("R", "u5", [name |-> "r2", oref |-> <<"u2">>, wref |-> <<"u1", "u2">>, x |-> 1, y |-> 1]),
    Ins("R", "u6", [name |-> "r1", x |-> 2]),
    Ins("W", "u7", [name |-> "w", w1 |-> <<"u1">>]),
    Ins("W", "u8", [name |-> "w2", w1 |-> <<"u1", "u2">>, ow |-> <<"u2">>]),
    Del("R", NameIs("r1")),
    Del("R", <<>>),
    Del("N", NameIs("a")),
    Mut("R", <<>>, <<<<"sref", "insert", <<"u2">>, "set">>>>),
    Mut("R", <<>>, <<<<"sref", "delete", <<"u1">>, "set">>>>),
    Upd("R", NameIs("r1"), [oref |-> <<>>, name |-> "r9"]),
    Upd("R", NameIs("r2"), [name |-> "r1"]),
    Upd("R", NameIs("r1"), [name |-> "r2"]),
    Upd("N", NameIs("b"), [next |-> <<>>]),
    Upd("N", NameIs("a"), [next |-> <<"u2">>]),
    Ins("R", "u9", [name |-> "r3", mkv |-> <<<<"k", "u1">>>>, mwk |-> <<<<"u2", "v">>>>, x |-> 3]),
    Mut("R", NameIs("r3"), <<<<"mkv", "delete", <<"k">>, "keys">>>>),
    Upd("N", <<>>, [v |-> 1]),
    Ins("N", "u10", [name |-> "c", peer |-> <<"u1">>]),
    InsN("N", "u11", "@n", [name |-> "d"]),
    Ins("R", "u12", [name |-> "r4", sref |-> <<"@n">>, x |-> 4]),
    Mut("R", NameIs("r2"), <<<<"wref", "delete", <<"u1">>, "set">>, <<"x", "+=", 1, "atom">>>>),
    Sel("N", <<>>),
    \* rewriting columns with the value they hold next to a real change
    Upd("R", NameIs("r2"), [wref |-> <<"u2", "u1">>, x |-> 7]),
    Upd("R", NameIs("r3"), [mkv |-> <<<<"k", "u1">>>>, y |-> 7]),
    \* several rows take one index value at once, then one of them moves on
    Upd("R", <<>>, [name |-> "r1"]),
    Upd("R", <<<<"_uuid", "==", "u5", "atom">>>>, [name |-> "r7"])
>>

ASSUME PrintT(<<"POOL", ToJson(OpPool)>>)

PoolIdx == DOMAIN OpPool

\* transactions: sequences of 1..MaxOps pool indexes
TxnIdx == UNION {[1..n -> PoolIdx] : n \in 1..MaxOps}
OpsOf(tx) == [i \in DOMAIN tx |-> OpPool[tx[i]]]

Init == db = EmptyDB /\ hist = <<>> /\ lastOk = TRUE

Next ==
    /\ Len(hist) < MaxDepth
    /\ \E tx \in TxnIdx :
         LET r == Txn(db, OpsOf(tx))
         IN  /\ db' = r.db
             /\ hist' = Append(hist, tx)
             /\ lastOk' = r.ok
             /\ (Emit => PrintT(<<"CASE", ToJson(hist')>>))

Spec == Init /\ [][Next]_vars

\* ---- the properties, at the level of the design
InvRefs   == RefsOK(db)
InvUnique == UniqueOK(db)
\* all-or-nothing: a rejected transaction leaves the database as it was
Atomic == [][~lastOk' => db' = db]_vars
\* decisions depend only on the rows: garbage collection and pruning are
\* idempotent on every reachable state
InvFixpoint == Fix(db) = db

\* the depth is part of the view: the bound on Len(hist) must not depend on
\* which path reached a state first (workers explore out of BFS order)
View == <<db, Len(hist)>>
=============================================================================
