------------------------------ MODULE MC_Leader -----------------------------
EXTENDS Leader, Json
\* the leadership histories replayed on a real leader-only client with two servers: initial flags, then up to three changes
Ev(e, b) == [e |-> e, b |-> b]
RECURSIVE Hist(_, _)
Hist(l, n) == IF n = 0 THEN {<<>>}
              ELSE {<<>>} \cup UNION {{<<Ev(e, ~l[e])>> \o h : h \in Hist([l EXCEPT ![e] = ~l[e]], n - 1)} : e \in Endpoints}
Emit(x) == \A a, b \in BOOLEAN : \A h \in Hist([e \in Endpoints |-> IF e = "A" THEN a ELSE b], 3) :
             PrintT(<<"CASE", ToJson([init |-> [A |-> a, B |-> b], events |-> h])>>)
=============================================================================
