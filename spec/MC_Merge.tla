------------------------------ MODULE MC_Merge ------------------------------
(***************************************************************************)
(* All sequences (up to MaxLen) of insert / update / mutate / delete on    *)
(* one row: the accumulated update of the implementation's case analysis   *)
(* (Merge!Add) always is the single net update (Merge!NetOK).  Each        *)
(* sequence of length >= 2 is emitted as a CASE line for the harness.      *)
(***************************************************************************)
EXTENDS Merge, Json

CONSTANTS MaxLen, Emit

O(op, col, val, mut, shape) == [op |-> op, col |-> col, val |-> val, mut |-> mut, shape |-> shape]
R1 == [a |-> 1, o |-> {1}, s |-> {1, 2}, m |-> (1 :> 1)]

Alphabet == <<
    O("insert", "", DefaultRowM, "", ""), O("insert", "", R1, "", ""), O("delete", "", 0, "", ""),
    O("update", "a", 0, "", ""), O("update", "a", 1, "", ""), O("update", "a", 2, "", ""),
    O("mutate", "a", 1, "+=", "atom"), O("mutate", "a", 1, "-=", "atom"),
    O("update", "o", {}, "", ""), O("update", "o", {1}, "", ""), O("update", "o", {2}, "", ""),
    O("update", "s", {}, "", ""), O("update", "s", {1, 2}, "", ""),
    O("mutate", "s", {1}, "insert", "set"), O("mutate", "s", {2, 3}, "insert", "set"),
    O("mutate", "s", {1}, "delete", "set"), O("mutate", "s", {2, 3}, "delete", "set"),
    O("update", "m", EmptyMap, "", ""), O("update", "m", (1 :> 1), "", ""),
    O("mutate", "m", (1 :> 2), "insert", "col"), O("mutate", "m", (2 :> 1), "insert", "col"),
    O("mutate", "m", {1}, "delete", "keys"), O("mutate", "m", (1 :> 1), "delete", "col"),
    \* two mutations of one column in one operation: no-op tails, cancelling pairs
    O("mutate2", "s", <<{3}, {3}>>, <<"insert", "insert">>, <<"set", "set">>),
    O("mutate2", "s", <<{1}, {1}>>, <<"delete", "delete">>, <<"set", "set">>),
    O("mutate2", "s", <<{3}, {3}>>, <<"insert", "delete">>, <<"set", "set">>),
    O("mutate2", "m", <<(2 :> 2), (2 :> 2)>>, <<"insert", "insert">>, <<"col", "col">>),
    O("mutate2", "m", <<(2 :> 2), {2}>>, <<"insert", "delete">>, <<"col", "keys">>),
    O("mutate2", "m", <<{1}, {1}>>, <<"delete", "delete">>, <<"keys", "keys">>)
>>

Origins == {NoRow, DefaultRowM, R1, [a |-> 2, o |-> {}, s |-> {3}, m |-> (1 :> 2 @@ 2 :> 1)]}

VARIABLES orig, cur, acc, seq, ever
vars == <<orig, cur, acc, seq, ever>>

\* JSON forms
RECURSIVE S2Q(_)
S2Q(S) == IF S = {} THEN <<>> ELSE LET x == CHOOSE x \in S : \A y \in S : x <= y IN <<x>> \o S2Q(S \ {x})
MapJ(f) == [i \in 1..Cardinality(DOMAIN f) |-> <<S2Q(DOMAIN f)[i], f[S2Q(DOMAIN f)[i]]>>]
RowJ(r) == IF r = NoRow THEN [present |-> FALSE, a |-> 0, o |-> <<>>, s |-> <<>>, m |-> <<>>]
           ELSE [present |-> TRUE, a |-> r.a, o |-> S2Q(r.o), s |-> S2Q(r.s), m |-> MapJ(r.m)]
MVJ(col, shape, v) == CASE col = "s" -> S2Q(v) [] shape = "keys" -> S2Q(v) [] OTHER -> MapJ(v)
ValJ_(op) ==
    CASE op.op = "insert" -> RowJ(op.val)
      [] op.op = "mutate2" -> <<MVJ(op.col, op.shape[1], op.val[1]), MVJ(op.col, op.shape[2], op.val[2])>>
      [] op.op = "delete" -> 0
      [] op.col = "a" -> op.val
      [] op.col \in {"o", "s"} -> S2Q(op.val)
      [] op.col = "m" /\ op.shape = "keys" -> S2Q(op.val)
      [] OTHER -> MapJ(op.val)
OpJ(op) == [op |-> op.op, col |-> op.col, val |-> ValJ_(op), mut |-> op.mut, shape |-> op.shape]

Init == /\ orig \in Origins /\ cur = orig /\ acc = None /\ seq = <<>> /\ ever = (orig # NoRow)

Next ==
    /\ Len(seq) < MaxLen
    /\ \E k \in DOMAIN Alphabet :
         LET op == Alphabet[k] IN
         /\ Enabled(cur, ever, op)
         /\ cur' = NextRow(cur, op)
         /\ acc' = Add(acc, Change(cur, op))
         /\ seq' = Append(seq, k)
         /\ ever' = (ever \/ op.op = "insert")
         /\ orig' = orig
         /\ (Emit /\ Len(seq') >= 2) =>
               PrintT(<<"CASE", ToJson([orig |-> RowJ(orig), ops |-> [i \in DOMAIN seq' |-> OpJ(Alphabet[seq'[i]])]])>>)

Spec == Init /\ [][Next]_vars

NetInvariant == NetOK(acc, orig, cur)
Supported == acc.kind # "unsupported"
=============================================================================
