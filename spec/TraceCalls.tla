----------------------------- MODULE TraceCalls -----------------------------
(***************************************************************************)
(* Validation of recorded API call sequences (property C18).  An event     *)
(* "calls" holds a first call, the follow-up calls and, per call, whether  *)
(* it returned before its deadline and with which error; an event "stress" *)
(* holds the counters of a run with concurrent readers, a writer and       *)
(* connection churn.                                                       *)
(* The connection state the calls imply is tracked (up / down), so that    *)
(* the outcome of each call can be compared with what the API promises:    *)
(* while down, calls needing the connection fail; Connect brings it up.    *)
(* Outcome differences are notes (the clean-up after Disconnect is         *)
(* asynchronous); a call that does not return is a C18 mismatch.           *)
(***************************************************************************)
EXTENDS Integers, Sequences, FiniteSets, TLC, Json

Trace == ndJsonDeserialize("trace.ndjson")
VARIABLES l, done
vars == <<l, done>>
Ev == Trace[l]

Report(prop, what, detail) == PrintT(<<"MISMATCH", ToJson([prop |-> prop, line |-> l, what |-> what, detail |-> detail])>>)
Chk(cond, prop, what, detail) == IF cond THEN TRUE ELSE Report(prop, what, detail)
Note(what, detail) == PrintT(<<"NOTE", ToJson([line |-> l, what |-> what, detail |-> detail])>>)

NeedsConn == {"MonitorOK", "Transact", "Echo", "MonitorCancel"}
GoesDown == {"Disconnect", "Close", "MonitorWhenDisconnected", "TransactWhenDisconnected", "EchoWhenDisconnected", "MonitorCancelWhenDisconnected"}
AlwaysFails == {"MonitorUnknownTable", "MonitorNoTables", "MonitorBadMethod", "MonitorBuilderError", "TransactInvalidX", "MonitorCancelWhenDisconnected",
                "MonitorWhenDisconnected", "TransactWhenDisconnected", "EchoWhenDisconnected"}

\* connection state after the first i results of a sequential case
RECURSIVE ConnAfter(_, _)
ConnAfter(rs, i) == IF i = 0 THEN "up"
                    ELSE IF rs[i].call \in GoesDown THEN "down"
                    ELSE IF rs[i].call = "Connect" /\ rs[i].err = "" THEN "up" ELSE ConnAfter(rs, i - 1)

OutcomeOK(rs, i) ==
    LET c == rs[i].call before == ConnAfter(rs, i - 1)
    IN  /\ (c \in AlwaysFails => rs[i].err # "")
        /\ (c \in NeedsConn /\ before = "down" => rs[i].err # "")
        /\ (c \in NeedsConn /\ before = "up" => rs[i].err = "")
        /\ (c = "Connect" => rs[i].err = "")

DoCalls ==
    /\ Ev.ev = "calls"
    /\ Chk(Len(Ev.stuck) = 0 /\ \A i \in DOMAIN Ev.results : Ev.results[i].returned, "C18",
           "a call did not return before its deadline", [first |-> Ev.first, then |-> Ev.then, stuck |-> Ev.stuck])
    /\ IF Ev.first \in {"GatedDisconnectRace", "GatedReconnectMonitor", "GatedCancelMonitor"}
       THEN Chk(\A i \in DOMAIN Ev.results : Ev.results[i].call # "gate", "C18",
                "the pause point of a gated race was not reached (the scenario did not run)", [first |-> Ev.first])
       ELSE \A i \in DOMAIN Ev.results :
               IF ~Ev.results[i].returned \/ OutcomeOK(Ev.results, i) THEN TRUE
               ELSE Note("call outcome differs from the connection state the sequence implies",
                         [first |-> Ev.first, then |-> Ev.then, call |-> Ev.results[i].call, err |-> Ev.results[i].err])

DoStress ==
    /\ Ev.ev = "stress"
    /\ Chk(Ev.mixed = 0, "C18", "a reader saw a row mixing fields of two versions", [mixed |-> Ev.mixed, reads |-> Ev.reads])
    /\ Chk(Ev.stuck = 0, "C18", "a call did not return during connection churn", [stuck |-> Ev.stuck])
    /\ Chk(Ev.races = 0, "C18", "the race detector reported a data race", [races |-> Ev.races, first |-> Ev.report])

Init == l = 1 /\ done = FALSE
Next == \/ /\ l <= Len(Trace) /\ (DoCalls \/ DoStress) /\ l' = l + 1 /\ UNCHANGED done
        \/ /\ l = Len(Trace) + 1 /\ ~done /\ PrintT(<<"TRACE-COMPLETE", Len(Trace)>>) /\ done' = TRUE /\ UNCHANGED l
Spec == Init /\ [][Next]_vars
=============================================================================
