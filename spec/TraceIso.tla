------------------------------ MODULE TraceIso ------------------------------
(***************************************************************************)
(* Validates the isolation and Clone/Equal cases executed on the real      *)
(* cache, client and model package (vh iso-cases): property C13.  The      *)
(* expected observation of every case is Iso!Isolated: after the caller    *)
(* mutated the model it handed in or was handed out, a fresh read shows    *)
(* what was written.                                                       *)
(***************************************************************************)
EXTENDS Integers, Sequences, TLC, Json

Trace == ndJsonDeserialize("trace.ndjson")
VARIABLES l, done
vars == <<l, done>>
Report(prop, what, detail) ==
    PrintT(<<"MISMATCH", ToJson([prop |-> prop, line |-> l, what |-> what, detail |-> detail])>>)
Chk(cond, prop, what, detail) == IF cond THEN TRUE ELSE Report(prop, what, detail)

CheckIso(e) ==
    LET key == [t |-> e.t, family |-> e.family, write |-> e.write, read |-> e.read, field |-> e.field, mutation |-> e.mutation]
    IN  /\ Chk(e.err = "", "C13", "the case could not be executed", [err |-> e.err, case |-> key])
        /\ e.err = "" => Chk(e.unchanged, "C13",
              IF e.t = "in" THEN "modifying a model after handing it to the cache changed the cached row"
              ELSE "modifying a model returned by the cache / client API / event handler changed the cached row",
              [case |-> key, after |-> e.after])

\* a scalar of an empty model can be told apart only through the scalar mutation itself
CheckLaw(e) ==
    LET key == [family |-> e.family, field |-> e.field, mutation |-> e.mutation, shape |-> e.shape]
    IN  /\ Chk(e.reflexive, "C13", "Equal is not reflexive", [case |-> key])
        /\ Chk(e.cloneEqual, "C13", "Clone does not return an equal model", [case |-> key])
        /\ Chk(e.equalSym, "C13", "Equal is not symmetric", [case |-> key])
        /\ Chk(e.unshared, "C13", "Clone shares a slice, map or pointer with its argument", [case |-> key])
        /\ Chk(e.distinguishes, "C13", "Equal does not distinguish models that differ in one mapped field", [case |-> key])

Init == l = 1 /\ done = FALSE
Next ==
    \/ /\ l <= Len(Trace)
       /\ IF Trace[l].ev = "iso" THEN CheckIso(Trace[l]) ELSE CheckLaw(Trace[l])
       /\ l' = l + 1 /\ UNCHANGED done
    \/ /\ l = Len(Trace) + 1 /\ ~done /\ PrintT(<<"TRACE-COMPLETE", Len(Trace)>>) /\ done' = TRUE /\ UNCHANGED l
Spec == Init /\ [][Next]_vars
=============================================================================
