----------------------------- MODULE TraceLeader ----------------------------
(***************************************************************************)
(* Validation of recorded leader-only runs: the recorded leadership        *)
(* history is folded to the final flags; the observed client must be       *)
(* attached to a leader whose database its cache mirrors, or - if nobody   *)
(* leads - not be attached at all.                                         *)
(***************************************************************************)
EXTENDS Integers, Sequences, FiniteSets, TLC, Json
Trace == ndJsonDeserialize("trace.ndjson")
VARIABLES l, done
vars == <<l, done>>
Ev == Trace[l]
Report(prop, what, detail) == PrintT(<<"MISMATCH", ToJson([prop |-> prop, line |-> l, what |-> what, detail |-> detail])>>)
Chk(cond, prop, what, detail) == IF cond THEN TRUE ELSE Report(prop, what, detail)

RECURSIVE Fold(_, _, _)
Fold(f, evs, i) == IF i > Len(evs) THEN f ELSE Fold([f EXCEPT ![evs[i].e] = evs[i].b], evs, i + 1)
Final == Fold(Ev.init, Ev.events, 1)
Leaders == {e \in {"A", "B"} : Final[e]}

DoLeader ==
    /\ Ev.ev = "leader"
    /\ IF Leaders = {}
       THEN Chk(~Ev.connected \/ Ev.attached = "", "C16", "a leader-only client stays attached although no endpoint reports leadership",
                [id |-> Ev.id, init |-> Ev.init, events |-> Ev.events, attached |-> Ev.attached])
       ELSE /\ Chk(Ev.connected /\ Ev.attached \in Leaders, "C16",
                   IF Ev.connected THEN "a leader-only client remains attached to an endpoint that reports it is not the leader"
                   ELSE "a leader-only client did not reconnect although an endpoint reports leadership",
                   [id |-> Ev.id, init |-> Ev.init, events |-> Ev.events, attached |-> Ev.attached, leaders |-> Leaders])
            /\ Chk(~(Ev.connected /\ Ev.attached \in Leaders) \/ Ev.mirrors = Ev.attached, "C16",
                   "after a leadership change the cache does not mirror the database the client is attached to",
                   [id |-> Ev.id, init |-> Ev.init, events |-> Ev.events, attached |-> Ev.attached, mirrors |-> Ev.mirrors])

Init == l = 1 /\ done = FALSE
Next == \/ /\ l <= Len(Trace) /\ DoLeader /\ l' = l + 1 /\ UNCHANGED done
        \/ /\ l = Len(Trace) + 1 /\ ~done /\ PrintT(<<"TRACE-COMPLETE", Len(Trace)>>) /\ done' = TRUE /\ UNCHANGED l
Spec == Init /\ [][Next]_vars
=============================================================================
