------------------------------ MODULE TraceApi -------------------------------
(***************************************************************************)
(* Trace specification for calls of the client's model API recorded by     *)
(* `vh api-cases` / `vh api-random`: TraceTxn with one more event.         *)
(*                                                                         *)
(*  {"ev":"apitxn","db":k,"call":{..},"apiErr":b,"apiErrText":s,"nops":n,  *)
(*   "results":[..],"committed":b,"errIdx":n,"errKind":s,"post":{..},      *)
(*   "refs":[..],"commitErr":s,"ops":[],"notifs":[],"listed":[u..],        *)
(*   "listErr":s}                                                          *)
(*                                                                         *)
(* call is the call made on a client whose cache mirrors database k;       *)
(* apiErr says whether the API refused it; otherwise the operations it     *)
(* returned (nops of them) were sent through Transact and results .. refs  *)
(* describe the outcome as in a "txn" event.  The specification derives    *)
(* the operations the call MUST produce from Api.tla and the database it   *)
(* tracks, and judges the recorded outcome as that transaction's.          *)
(***************************************************************************)
EXTENDS TraceTxn, Api

CallKey(c) == [kind |-> c.kind, sel |-> c.sel, fields |-> c.fields, muts |-> c.muts, until |-> c.until,
               models |-> [i \in DOMAIN c.models |-> c.models[i].uuid]]

DoApiTxn ==
    /\ Ev.ev = "apitxn"
    /\ LET db == dbs[Ev.db]
           a == ApiOps(Ev.call, db)
           post == DbJ(Ev.post)
       IN  /\ Ev.call.kind # "create" =>
                /\ Chk((Ev.listErr # "") = SelError(Ev.call.table, Ev.call.sel), "C08",
                       "the model API refuses to list a selection it must accept, or accepts one it must refuse",
                       [sel |-> Ev.call.sel, error |-> Ev.listErr])
                /\ (Ev.listErr = "" /\ ~SelError(Ev.call.table, Ev.call.sel)) =>
                     Chk(SeqToSet(Ev.listed) = Meant(Ev.call.table, db[Ev.call.table], Ev.call.sel), "C08",
                         "the rows a selection of the model API lists are not the rows it stands for",
                         [sel |-> Ev.call.sel, listed |-> Ev.listed, want |-> Meant(Ev.call.table, db[Ev.call.table], Ev.call.sel)])
           /\ Chk(a.err = Ev.apiErr, "C03",
                  "the model API refuses a call it must accept, or accepts one it must refuse",
                  [call |-> CallKey(Ev.call), refused |-> Ev.apiErr, error |-> Ev.apiErrText])
           /\ IF a.err \/ Ev.apiErr
              THEN Chk(post = db, "C03", "the database changed although the call produced no transaction", [rows |-> DiffRows(post, db)])
              ELSE LET ops == FillFrom(a.ops, Ev.results)
                       e == ("ops" :> ops) @@ Ev
                       r == Txn(db, ops)
                   IN  /\ Chk(Ev.nops = Len(ops), "C03", "the model API produced another number of operations than the call stands for",
                              [call |-> CallKey(Ev.call), got |-> Ev.nops, want |-> Len(ops)])
                       /\ CheckTxn(e, db)
                       \* (a rejection by the commit-time checks - every operation had succeeded - is the engine's
                       \* over-rejection, tolerated as everywhere in the transaction family: dangling references are
                       \* checked before unreferenced rows are collected, pruning a weak reference in an immutable
                       \* column counts as a change; what the API can get wrong shows in an operation)
                       /\ Chk(~(r.ok /\ ~Ev.committed /\ Ev.errIdx <= Ev.nops), "C03",
                              "the transaction the model API built fails although what the call stands for commits",
                              [call |-> CallKey(Ev.call), errIdx |-> Ev.errIdx, errKind |-> Ev.errKind, commitErr |-> Ev.commitErr])
    /\ dbs' = [dbs EXCEPT ![Ev.db] = DbJ(Ev.post)]
    /\ UNCHANGED <<mons, cmons>>

\* a set-up transaction of the harness (delete every row; insert the rows of a case) that the database refuses
DoSetup ==
    /\ Ev.ev = "setup"
    /\ Chk(Ev.ok, "C03", "the database refuses a transaction that deletes every row, or inserts legal rows into empty tables",
           [what |-> Ev.what, error |-> Ev.err])
    /\ UNCHANGED <<dbs, mons, cmons>>

NextApi ==
    \/ /\ l <= Len(Trace)
       /\ (DoApiTxn \/ DoSetup)
       /\ l' = l + 1
       /\ UNCHANGED done
    \/ Next

SpecApi == Init /\ [][NextApi]_vars
=============================================================================
