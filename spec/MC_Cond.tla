------------------------------ MODULE MC_Cond -------------------------------
(***************************************************************************)
(* Enumeration of condition cases for property C08 over the integer        *)
(* universe (the harness instantiates integer, string, real and uuid       *)
(* columns): for every column kind, every condition function and every     *)
(* argument value, a table holding one row per value of that kind; and all *)
(* ordered pairs of a pool of conditions (repeated columns, _uuid          *)
(* conditions, unsatisfiable ones) over a fixed four-row table.            *)
(* The expected answer is Cond!Select - checked here for sanity properties *)
(* (conjunction = intersection, == and != partition the table).            *)
(***************************************************************************)
EXTENDS Cond

AtomVals == 0..2
OptVals == {{}, {1}, {2}}
SetVals == SUBSET (1..3)
MapVals == UNION {[S -> 1..2] : S \in SUBSET (1..2)}

RECURSIVE S2Q(_)
S2Q(S) == IF S = {} THEN <<>> ELSE LET x == CHOOSE x \in S : \A y \in S : x <= y IN <<x>> \o S2Q(S \ {x})
MapJ(f) == [i \in 1..Cardinality(DOMAIN f) |-> <<S2Q(DOMAIN f)[i], f[S2Q(DOMAIN f)[i]]>>]

Row(a, o, s, m) == [a |-> a, o |-> S2Q(o), s |-> S2Q(s), m |-> MapJ(m)]
DRow == Row(0, {}, {}, EmptyMap)

\* number the values of a kind to name the rows
RECURSIVE SetSeq(_)
SetSeq(S) == IF S = {} THEN <<>> ELSE LET x == CHOOSE x \in S : TRUE IN <<x>> \o SetSeq(S \ {x})

TableOf(kind) ==
    CASE kind = "a" -> [i \in 1..3 |-> [DRow EXCEPT !.a = i - 1]]
      [] kind = "o" -> LET q == SetSeq(OptVals) IN [i \in DOMAIN q |-> [DRow EXCEPT !.o = S2Q(q[i])]]
      [] kind = "s" -> LET q == SetSeq(SetVals) IN [i \in DOMAIN q |-> [DRow EXCEPT !.s = S2Q(q[i])]]
      [] kind = "m" -> LET q == SetSeq(MapVals) IN [i \in DOMAIN q |-> [DRow EXCEPT !.m = MapJ(q[i])]]

Fns(kind) == IF kind = "a" THEN CondFunctions ELSE {"==", "!=", "includes", "excludes"}
Args(kind) == CASE kind = "a" -> {<<v, "atom">> : v \in AtomVals}
                [] kind = "o" -> {<<S2Q(v), "set">> : v \in OptVals}
                [] kind = "s" -> {<<S2Q(v), "set">> : v \in SetVals}
                [] kind = "m" -> {<<MapJ(v), "col">> : v \in MapVals}

SingleCases ==
    UNION {{[t |-> "single", rows |-> TableOf(k), conds |-> <<<<k, fn, arg[1], arg[2]>>>>]
              : fn \in Fns(k), arg \in Args(k)} : k \in {"a", "o", "s", "m"}}

T4 == << Row(1, {1}, {1, 2}, (1 :> 1)), Row(1, {}, {}, EmptyMap),
         Row(2, {2}, {2, 3}, (1 :> 2 @@ 2 :> 1)), Row(0, {1}, {1}, (2 :> 2)) >>

Pool == <<
    <<"a", "==", 1, "atom">>, <<"a", "!=", 1, "atom">>, <<"a", "<", 2, "atom">>, <<"a", ">=", 1, "atom">>,
    <<"a", "==", 0, "atom">>, <<"a", "includes", 2, "atom">>, <<"a", "excludes", 0, "atom">>, <<"a", ">", 5, "atom">>,
    <<"o", "==", <<1>>, "set">>, <<"o", "==", <<>>, "set">>, <<"o", "!=", <<2>>, "set">>, <<"o", "includes", <<1>>, "set">>,
    <<"o", "excludes", <<1>>, "set">>,
    <<"s", "includes", <<2>>, "set">>, <<"s", "includes", <<1, 2>>, "set">>, <<"s", "excludes", <<3>>, "set">>,
    <<"s", "==", <<1, 2>>, "set">>, <<"s", "==", <<>>, "set">>, <<"s", "!=", <<1>>, "set">>, <<"s", "excludes", <<1, 3>>, "set">>,
    <<"s", "includes", <<>>, "set">>,
    <<"m", "includes", <<<<1, 1>>>>, "col">>, <<"m", "includes", <<<<1, 2>>>>, "col">>, <<"m", "excludes", <<<<2, 2>>>>, "col">>,
    <<"m", "==", <<<<1, 1>>>>, "col">>, <<"m", "==", <<>>, "col">>, <<"m", "!=", <<<<2, 2>>>>, "col">>,
    <<"_uuid", "==", "u1", "atom">>, <<"_uuid", "!=", "u1", "atom">>, <<"_uuid", "==", "u9", "atom">>,
    <<"_uuid", "includes", "u3", "atom">>, <<"_uuid", "excludes", "u3", "atom">>,
    \* a second key of the map: with the condition on key 1, the value of an index over both keys
    <<"m", "includes", <<<<2, 1>>>>, "col">>
>>

\* the same rows with distinct values in column a: schema (unique) indexes on a apply
T4u == << Row(1, {1}, {1, 2}, (1 :> 1)), Row(3, {}, {}, EmptyMap),
          Row(2, {2}, {2, 3}, (1 :> 2 @@ 2 :> 1)), Row(0, {1}, {1}, (2 :> 2)) >>

PairCases == {[t |-> "pair", rows |-> T4, conds |-> <<Pool[i], Pool[j]>>] : i, j \in DOMAIN Pool}
       \cup {[t |-> "pair", rows |-> T4u, conds |-> <<Pool[i], Pool[j]>>] : i, j \in DOMAIN Pool}
TripleCases == {[t |-> "triple", rows |-> T4, conds |-> <<Pool[i], Pool[j], Pool[k]>>]
                  : i \in {1, 9, 14, 22, 28}, j \in {2, 12, 16, 23, 29}, k \in DOMAIN Pool}

\* ---- sanity of the reference semantics itself, on the rows of T4
RowV(t, jr) == [c \in Cols(t) |-> ValJ(Col(t, c), jr[c])]
Tbl(rows) == [u \in {"u1", "u2", "u3", "u4"} |->
                 RowV("Q", rows[CASE u = "u1" -> 1 [] u = "u2" -> 2 [] u = "u3" -> 3 [] OTHER -> 4])]
Sel(conds) == Select("Q", Tbl(T4), conds)
ConjunctionIsIntersection ==
    \A i, j \in DOMAIN Pool : Sel(<<Pool[i], Pool[j]>>) = Sel(<<Pool[i]>>) \cap Sel(<<Pool[j]>>)
Negations ==
    \A i \in DOMAIN Pool : Pool[i][2] = "==" =>
        Sel(<<<<Pool[i][1], "!=", Pool[i][3], Pool[i][4]>>>>) = DOMAIN Tbl(T4) \ Sel(<<Pool[i]>>)
ASSUME ConjunctionIsIntersection
ASSUME Negations

ASSUME \A c \in SingleCases \cup PairCases \cup TripleCases : PrintT(<<"CASE", ToJson(c)>>)

VARIABLE x
Init == x = 0
Next == FALSE /\ x' = x
Spec == Init /\ [][Next]_x
=============================================================================
