-------------------------------- MODULE Wire --------------------------------
(***************************************************************************)
(* The JSON notation of RFC 7047 as a grammar of trees, and what an        *)
(* encoding means.  Serves C12 (round trip of every wire value), C19 (no   *)
(* input crashes a decoder or the transaction engine) and, for values and  *)
(* rows, C09.                                                              *)
(*                                                                         *)
(* A JSON text is a typed tree, so that trees of different shapes can live *)
(* in one set and be compared without run-time type errors:                *)
(*   S(s) string   N(n) integer   Big(t) an integer beyond TLC's range,    *)
(*   by its decimal text   Rl(t) a non-integral number by its text         *)
(*   B(b) boolean   Z null   A(seq) array   O(f) object (f: key -> tree)   *)
(*                                                                         *)
(* Valid(T) is the set of valid encodings of wire type T within the        *)
(* bounds; Eq(D, a, b) says that two trees mean the same value under       *)
(* descriptor D (sets and maps are unordered, a one-element set is its     *)
(* element, an absent member is its default, "integer" is {"type":         *)
(* "integer"}, ...).  The library decodes a valid tree, encodes the result *)
(* and decodes again: the two encodings must be Eq and the two values      *)
(* equal (TraceWire.tla).  Corrupt(t) is every tree one local edit away    *)
(* from t; Small is every tree of depth <= 2 and width <= 2 over the       *)
(* keyword atoms: decoding any of them yields a value or an error.         *)
(***************************************************************************)
EXTENDS Integers, Sequences, FiniteSets, TLC

S(s) == [k |-> "s", s |-> s]
N(n) == [k |-> "n", n |-> n]
Big(t) == [k |-> "big", s |-> t]
Rl(t) == [k |-> "r", s |-> t]
B(b) == [k |-> "b", b |-> b]
Z == [k |-> "z"]
A(seq) == [k |-> "a", a |-> seq]
O(f) == [k |-> "o", o |-> f]

IsA(t) == t.k = "a"
IsO(t) == t.k = "o"
IsS(t) == t.k = "s"

U1 == "00000000-0000-4000-8000-000000000001"
U2 == "00000000-0000-4000-8000-000000000002"
U3 == "00000000-0000-4000-8000-000000000003"
Uuid(u) == A(<<S("uuid"), S(u)>>)
Named(n) == A(<<S("named-uuid"), S(n)>>)

AtomTypes == {"integer", "real", "boolean", "string", "uuid"}
AtomsOf(t) ==
    CASE t = "integer" -> {N(0), N(1), N(-7), Big("9007199254740993"), Big("-9223372036854775808")}
      [] t = "real"    -> {N(0), N(2), Rl("0.5"), Rl("-1.25")}
      [] t = "boolean" -> {B(TRUE), B(FALSE)}
      [] t = "string"  -> {S(""), S("a"), S("set"), S("b c")}
      [] t = "uuid"    -> {Uuid(U1), Uuid(U2), Named("row1"), Named("newPort_A")}
\* the precise atoms (no 64-bit extremes): the grammar of C12; the extremes are a group of their own
PlainAtomsOf(t) == {x \in AtomsOf(t) : x.k # "big"}

\* ---- sequences without repetition over a set, up to length n
RECURSIVE InjSeqs(_, _)
InjSeqs(X, n) == IF n = 0 THEN {<<>>}
                 ELSE LET shorter == InjSeqs(X, n - 1)
                      IN  shorter \cup {Append(p[1], p[2]) : p \in {q \in shorter \X X : Len(q[1]) = n - 1 /\ \A i \in DOMAIN q[1] : q[1][i] # q[2]}}
SetEnc(elems) == A(<<S("set"), A(elems)>>)
MapEnc(pairs) == A(<<S("map"), A([i \in DOMAIN pairs |-> A(<<pairs[i][1], pairs[i][2]>>)])>>)

\* values: an atom, a set (0..n elements, also the redundant one-element set), a map
SetsOf(t, n) == {SetEnc(e) : e \in InjSeqs(PlainAtomsOf(t), n)}
MapsOf(kt, vt, n) ==
    {MapEnc(p) : p \in {q \in InjSeqs(PlainAtomsOf(kt) \X PlainAtomsOf(vt), n) : \A i, j \in DOMAIN q : i < j => q[i][1] # q[j][1]}}
Values == UNION {PlainAtomsOf(t) : t \in AtomTypes} \cup UNION {SetsOf(t, 2) : t \in AtomTypes}
          \cup SetsOf("uuid", 3) \cup MapsOf("string", "string", 2) \cup MapsOf("string", "uuid", 2) \cup MapsOf("uuid", "integer", 2)
          \cup MapsOf("integer", "real", 1) \cup MapsOf("string", "boolean", 1)
\* a few values standing for the rest where the context multiplies
SomeValues == {N(1), S("a"), B(TRUE), Rl("0.5"), Uuid(U1), Named("row1"), SetEnc(<<>>), SetEnc(<<N(1), N(0)>>), SetEnc(<<Uuid(U1), Uuid(U2)>>),
               MapEnc(<<>>), MapEnc(<< <<S("a"), S("x")>>, <<S("b"), S("")>> >>), MapEnc(<< <<S("a"), Uuid(U1)>> >>)}

\* ---- rows
RowOf(cols, f) == O([c \in cols |-> f[c]])
Rows == {O(<<>>)} \cup {O([c1 |-> v]) : v \in SomeValues} \cup
        {O([c1 |-> v, c2 |-> w]) : v \in {N(1), SetEnc(<<>>), Uuid(U1)}, w \in {S("a"), MapEnc(<< <<S("a"), S("x")>> >>), SetEnc(<<Uuid(U1), Uuid(U2)>>)}}
SomeRows == {O(<<>>), O([c1 |-> N(1)]), O([c1 |-> SetEnc(<<N(1), N(0)>>), c2 |-> MapEnc(<< <<S("a"), Uuid(U1)>> >>)])}

\* ---- conditions and mutations
Functions == {"<", "<=", "==", "!=", ">=", ">", "includes", "excludes"}
Mutators == {"+=", "-=", "*=", "/=", "%=", "insert", "delete"}
Conditions == {A(<<S("c1"), S(f), v>>) : f \in Functions, v \in SomeValues}
Mutations == {A(<<S("c1"), S(m), v>>) : m \in Mutators, v \in SomeValues}
SomeConds == {A(<<S("c1"), S("=="), N(1)>>), A(<<S("_uuid"), S("=="), Uuid(U1)>>), A(<<S("c2"), S("includes"), SetEnc(<<S("a"), S("b c")>>)>>)}
SomeMuts == {A(<<S("c1"), S("+="), N(1)>>), A(<<S("c2"), S("insert"), MapEnc(<< <<S("a"), S("x")>> >>)>>), A(<<S("c3"), S("delete"), SetEnc(<<Uuid(U1)>>)>>)}
Wheres == {A(<<>>)} \cup {A(<<c>>) : c \in SomeConds} \cup {A(<<A(<<S("c1"), S("=="), N(1)>>), A(<<S("c2"), S("!="), S("a")>>)>>)}

\* ---- operations: the ten kinds with and without their optional members
Opt(name, vals) == {<<>>} \cup {<<name, v>> : v \in vals}   \* an optional member: absent or one of vals
Members(ms) == O([n \in {m[1] : m \in ms} |-> (CHOOSE m \in ms : m[1] = n)[2]])
OpsOf(base, opts) ==   \* base: set of <<name, tree>>; opts: sequence of sets of (<<>> | <<name, tree>>)
    LET RECURSIVE Go(_, _)
        Go(i, acc) == IF i > Len(opts) THEN {acc}
                      ELSE UNION {Go(i + 1, IF o = <<>> THEN acc ELSE acc \cup {o}) : o \in opts[i]}
    IN  {Members(ms) : ms \in Go(1, base)}
Operations ==
    OpsOf({<<"op", S("insert")>>, <<"table", S("T")>>}, << {<<"row", r>> : r \in SomeRows}, Opt("uuid-name", {S("row1")}), Opt("uuid", {S(U1)}) >>)
    \cup OpsOf({<<"op", S("select")>>, <<"table", S("T")>>}, << {<<"where", w>> : w \in Wheres}, Opt("columns", {A(<<>>), A(<<S("c1")>>), A(<<S("c1"), S("_uuid")>>)}) >>)
    \cup OpsOf({<<"op", S("update")>>, <<"table", S("T")>>}, << {<<"where", w>> : w \in Wheres}, {<<"row", r>> : r \in SomeRows} >>)
    \cup OpsOf({<<"op", S("mutate")>>, <<"table", S("T")>>}, << {<<"where", w>> : w \in Wheres},
               {<<"mutations", A(<<>>)>>} \cup {<<"mutations", A(<<m>>)>> : m \in SomeMuts} \cup {<<"mutations", A(<<A(<<S("c1"), S("+="), N(1)>>), A(<<S("c1"), S("*="), N(2)>>)>>)>>} >>)
    \cup OpsOf({<<"op", S("delete")>>, <<"table", S("T")>>}, << {<<"where", w>> : w \in Wheres} >>)
    \cup OpsOf({<<"op", S("wait")>>, <<"table", S("T")>>}, << {<<"where", w>> : w \in {A(<<>>), A(<<A(<<S("c1"), S("=="), N(1)>>)>>)}},
               {<<"columns", A(<<S("c1")>>)>>}, {<<"until", S(u)>> : u \in {"==", "!="}}, {<<"rows", A(<<>>)>>, <<"rows", A(<<O([c1 |-> N(1)])>>)>>, <<"rows", A(<<O([c1 |-> N(1)]), O([c1 |-> N(0)])>>)>>},
               Opt("timeout", {N(0), N(100)}) >>)
    \cup OpsOf({<<"op", S("commit")>>}, << {<<"durable", B(b)>> : b \in BOOLEAN} >>)
    \cup OpsOf({<<"op", S("abort")>>}, << >>)
    \cup OpsOf({<<"op", S("comment")>>}, << {<<"comment", S(c)>> : c \in {"", "why"}} >>)
    \cup OpsOf({<<"op", S("assert")>>}, << {<<"lock", S(c)>> : c \in {"", "l1"}} >>)

\* ---- results
Results ==
    {O(<<>>), O([count |-> N(0)]), O([count |-> N(3)]), O([uuid |-> Uuid(U1)]), O([rows |-> A(<<>>)]), O([rows |-> A(<<O([c1 |-> N(1)])>>)]),
     O([rows |-> A(<<O([c1 |-> N(1)] @@ ("_uuid" :> Uuid(U1))), O([c1 |-> SetEnc(<<>>)])>>)]),
     O([error |-> S("constraint violation")]), O([error |-> S("referential integrity violation"), details |-> S("row is referenced")]),
     O([error |-> S("timed out"), details |-> S("")])}

\* ---- table updates, both formats
RowUpdates == {O([new |-> r]) : r \in SomeRows} \cup {O([old |-> r]) : r \in SomeRows} \cup {O([old |-> O([c1 |-> N(0)]), new |-> r]) : r \in SomeRows}
RowUpdates2 == {O(x :> r) : x \in {"initial", "insert", "modify"}, r \in SomeRows} \cup {O([delete |-> Z]), O([delete |-> O(<<>>)])}
TableUpdates(RU) == {O(<<>>)} \cup {O([T |-> O([u1 |-> ru])]) : ru \in RU}
                    \cup {O([T |-> O([u1 |-> ru, u2 |-> ru]), T2 |-> O(<<>>)]) : ru \in RU}
TU1 == LET raw == TableUpdates(RowUpdates) IN raw
TU2 == TableUpdates(RowUpdates2)
\* uuid keys: the object keys u1, u2 stand for uuids (any string is a legal key)

\* ---- monitor requests and replies
Selects == {O(<<>>)} \cup {O([initial |-> B(a), insert |-> B(b), delete |-> B(c), modify |-> B(d)]) : a, b, c, d \in BOOLEAN}
           \cup {O([initial |-> B(FALSE)]), O([modify |-> B(FALSE), delete |-> B(TRUE)])}
MonitorRequests ==
    {O(<<>>), O([columns |-> A(<<S("c1")>>)]), O([columns |-> A(<<S("c1"), S("c2")>>), select |-> O([initial |-> B(FALSE)])])}
    \cup {O([select |-> s]) : s \in Selects}
    \cup {O([columns |-> A(<<S("c1")>>), where |-> w]) : w \in (Wheres \ {A(<<>>)})}
CondSinceReplies == {A(<<B(f), S(t), tu>>) : f \in BOOLEAN, t \in {U1, "00000000-0000-0000-0000-000000000000"},
                       tu \in {O(<<>>), O([T |-> O([u1 |-> O([insert |-> O([c1 |-> N(1)])])])])}}

\* ---- schemas
BaseTypes ==
    {S(t) : t \in AtomTypes} \cup {O([type |-> S(t)]) : t \in AtomTypes}
    \cup {O([type |-> S("integer"), minInteger |-> N(1)]), O([type |-> S("integer"), maxInteger |-> N(9)]), O([type |-> S("integer"), minInteger |-> N(-3), maxInteger |-> N(9)]),
          O([type |-> S("integer"), enum |-> SetEnc(<<N(1), N(2), N(3)>>)]), O([type |-> S("integer"), enum |-> N(5)]),
          O([type |-> S("real"), minReal |-> Rl("0.5")]), O([type |-> S("real"), maxReal |-> Rl("2.5")]), O([type |-> S("real"), minReal |-> N(1), maxReal |-> Rl("2.5")]),
          O([type |-> S("real"), enum |-> SetEnc(<<Rl("0.5"), N(2)>>)]),
          O([type |-> S("string"), minLength |-> N(1)]), O([type |-> S("string"), maxLength |-> N(8)]), O([type |-> S("string"), minLength |-> N(2), maxLength |-> N(8)]),
          O([type |-> S("string"), enum |-> SetEnc(<<S("a"), S("b")>>)]), O([type |-> S("string"), enum |-> S("only")]),
          O([type |-> S("boolean"), enum |-> B(TRUE)]),
          O([type |-> S("uuid"), refTable |-> S("T2")]), O([type |-> S("uuid"), refTable |-> S("T2"), refType |-> S("weak")]),
          O([type |-> S("uuid"), refTable |-> S("T2"), refType |-> S("strong")])}
SomeBase == {S("string"), O([type |-> S("integer"), minInteger |-> N(-3), maxInteger |-> N(9)]), O([type |-> S("string"), minLength |-> N(2), maxLength |-> N(8)]),
             O([type |-> S("uuid"), refTable |-> S("T2"), refType |-> S("weak")]), O([type |-> S("string"), enum |-> SetEnc(<<S("a"), S("b")>>)])}
ColumnTypes ==
    {S(t) : t \in AtomTypes} \cup {O([key |-> b]) : b \in BaseTypes}
    \cup {O([key |-> b, min |-> N(mn), max |-> mx]) : b \in SomeBase, mn \in {0, 1}, mx \in {N(1), N(3), S("unlimited")}}
    \cup {O([key |-> b, value |-> v]) : b \in {S("string"), O([type |-> S("integer"), minInteger |-> N(1)])}, v \in SomeBase}
    \cup {O([key |-> S("string"), value |-> v, min |-> N(0), max |-> S("unlimited")]) : v \in SomeBase}
    \cup {O([key |-> S("uuid"), max |-> N(2)]), O([key |-> S("integer"), min |-> N(0)])}
Columns == {O([type |-> t]) : t \in ColumnTypes}
           \cup {O([type |-> S("string"), ephemeral |-> B(e)]) : e \in BOOLEAN} \cup {O([type |-> S("string"), mutable |-> B(m)]) : m \in BOOLEAN}
           \cup {O([type |-> O([key |-> S("uuid"), min |-> N(0), max |-> S("unlimited")]), ephemeral |-> B(TRUE), mutable |-> B(FALSE)])}
SomeColumns == {O([type |-> S("string")]), O([type |-> O([key |-> O([type |-> S("string"), minLength |-> N(2), maxLength |-> N(8)]), min |-> N(0), max |-> N(3)])]),
                O([type |-> O([key |-> S("string"), value |-> O([type |-> S("uuid"), refTable |-> S("T2"), refType |-> S("weak")]), min |-> N(0), max |-> S("unlimited")]), mutable |-> B(FALSE)])}
TableSchemas ==
    {O([columns |-> O([c1 |-> c])]) : c \in SomeColumns}
    \cup {O([columns |-> O([c1 |-> O([type |-> S("string")]), c2 |-> O([type |-> S("integer")])]), isRoot |-> B(r)]) : r \in BOOLEAN}
    \cup {O([columns |-> O([c1 |-> O([type |-> S("string")]), c2 |-> O([type |-> S("integer")])]), indexes |-> ix]) :
             ix \in {A(<<>>), A(<<A(<<S("c1")>>)>>), A(<<A(<<S("c1"), S("c2")>>)>>), A(<<A(<<S("c1")>>), A(<<S("c2")>>)>>)}}
\* maxRows (tables) and cksum (schemas) are not represented by the library's types and not among the features the
\* property lists: they are left out of the grammar (a decoder drops them)
Schemas == {O([name |-> S("db"), version |-> S("1.0.0"), tables |-> O([T |-> t, T2 |-> O([columns |-> O([c1 |-> O([type |-> S("string")])])])])]) : t \in TableSchemas}
           \cup {O([name |-> S("db"), version |-> S("1.0.0"), tables |-> O(<<>>)]),
                 O([name |-> S("db"), version |-> S("0.0.1"), tables |-> O([T |-> O([columns |-> O(<<>>)])])])}

\* ---- wire types and their valid encodings
WireTypes == {"OvsSet", "OvsMap", "UUID", "Row", "Condition", "Mutation", "Operation", "OperationResult", "TableUpdates", "TableUpdates2",
              "MonitorRequest", "MonitorSelect", "MonitorCondSinceReply", "BaseType", "ColumnType", "ColumnSchema", "TableSchema", "DatabaseSchema"}
Valid(T) ==
    CASE T = "OvsSet" -> {v \in Values : ~(IsA(v) /\ Len(v.a) = 2 /\ v.a[1] = S("map"))}
      [] T = "OvsMap" -> {v \in Values : IsA(v) /\ Len(v.a) = 2 /\ v.a[1] = S("map")}
      [] T = "UUID" -> AtomsOf("uuid")
      [] T = "Row" -> Rows
      [] T = "Condition" -> Conditions
      [] T = "Mutation" -> Mutations
      [] T = "Operation" -> Operations
      [] T = "OperationResult" -> Results
      [] T = "TableUpdates" -> TU1
      [] T = "TableUpdates2" -> TU2
      [] T = "MonitorRequest" -> MonitorRequests
      [] T = "MonitorSelect" -> Selects
      [] T = "MonitorCondSinceReply" -> CondSinceReplies
      [] T = "BaseType" -> BaseTypes
      [] T = "ColumnType" -> ColumnTypes
      [] T = "ColumnSchema" -> Columns
      [] T = "TableSchema" -> TableSchemas
      [] T = "DatabaseSchema" -> Schemas
\* a deeper grammar for the thorough tier: longer sets, maps over every pair of key and value types, every value as
\* argument of every condition function and mutator
IsMapEnc(t) == IsA(t) /\ Len(t.a) = 2 /\ t.a[1] = S("map")
DeepValues == UNION {SetsOf(t, 3) : t \in AtomTypes} \cup UNION {MapsOf(kt, vt, 2) : kt \in {"string", "integer", "uuid"}, vt \in AtomTypes}
DeepValid(T) ==
    CASE T = "OvsSet" -> {v \in DeepValues : ~IsMapEnc(v)}
      [] T = "OvsMap" -> {v \in DeepValues : IsMapEnc(v)}
      [] T = "Condition" -> {A(<<S("c1"), S(f), v>>) : f \in Functions, v \in Values}
      [] T = "Mutation" -> {A(<<S("c1"), S(m), v>>) : m \in Mutators, v \in Values}
      [] T = "Row" -> {O([c1 |-> v, c2 |-> w, c3 |-> x]) : v \in {N(1), SetEnc(<<>>)}, w \in SomeValues, x \in SomeValues}
      [] OTHER -> {}

\* integers beyond 2^53 in value position (a group of its own: the library reads numbers as float64)
BigValid == {<<"OvsSet", x>> : x \in {Big("9007199254740993"), Big("-9223372036854775808"), SetEnc(<<Big("9007199254740993"), N(1)>>)}}
            \cup {<<"Row", O([c1 |-> Big("9007199254740993")])>>, <<"Condition", A(<<S("c1"), S("=="), Big("9007199254740993")>>)>>}

\* =========================================================================
\* meaning: when do two trees encode the same value?
\* =========================================================================
Perms(n) == {p \in [1..n -> 1..n] : \A i, j \in 1..n : i # j => p[i] # p[j]}

IsTagged(t, tag) == IsA(t) /\ Len(t.a) = 2 /\ t.a[1] = S(tag) /\ IsA(t.a[2])
\* the elements of a value seen as a set: a set's elements, or the one atom
Elems(t) == IF IsTagged(t, "set") THEN t.a[2].a ELSE <<t>>
IsMap(t) == IsTagged(t, "map")
EqAtom(a, b) == a = b
EqValue(a, b) ==
    IF IsMap(a) \/ IsMap(b)
    THEN /\ IsMap(a) /\ IsMap(b)
         /\ LET x == a.a[2].a y == b.a[2].a
            IN  /\ Len(x) = Len(y)
                /\ \E p \in Perms(Len(x)) : \A i \in DOMAIN x : x[i] = y[p[i]]
    ELSE LET x == Elems(a) y == Elems(b)
         IN  /\ Len(x) = Len(y)
             /\ \E p \in Perms(Len(x)) : \A i \in DOMAIN x : EqAtom(x[i], y[p[i]])

Keys(t) == IF IsO(t) THEN DOMAIN t.o ELSE {}
Has(t, m) == m \in Keys(t)
Get(t, m, default) == IF Has(t, m) THEN t.o[m] ELSE default

\* RFC 7047 requires the where member of a select (an empty one selects every row): an encoder must keep it
KeepsWhere(a, b) == (IsO(a) /\ Has(a, "op") /\ a.o.op = S("select") /\ Has(a, "where")) => Has(b, "where")

(* descriptors
   [d |-> "exact"]                          the trees are equal
   [d |-> "value"]                          an OVSDB value
   [d |-> "arr", e |-> D]                   arrays, element by element
   [d |-> "bag", e |-> D]                   arrays up to order
   [d |-> "dict", e |-> D]                  objects with the same keys
   [d |-> "obj", m |-> [name -> <<D, default>>]]   objects; an absent member is its default
   [d |-> "tuple", e |-> <<D1, ..>>]
   [d |-> "base"], "coltype", "delete2"     special forms                    *)
Exact == [d |-> "exact"]
Val == [d |-> "value"]
Arr(D) == [d |-> "arr", e |-> D]
Bag(D) == [d |-> "bag", e |-> D]
Dict(D) == [d |-> "dict", e |-> D]
Obj(m) == [d |-> "obj", m |-> m]
Tup(ds) == [d |-> "tuple", e |-> ds]

NormBase(t) == IF IsS(t) THEN O([type |-> t]) ELSE t
NormColType(t) ==
    LET o == IF IsS(t) THEN O([key |-> t]) ELSE t
    IN  o

RowD == Dict(Val)
CondD == Tup(<<Exact, Exact, Val>>)
BaseD == Obj([type |-> <<Exact, Z>>, enum |-> <<Val, Z>>, minInteger |-> <<Exact, Z>>, maxInteger |-> <<Exact, Z>>, minReal |-> <<Exact, Z>>, maxReal |-> <<Exact, Z>>,
              minLength |-> <<Exact, Z>>, maxLength |-> <<Exact, Z>>, refTable |-> <<Exact, Z>>, refType |-> <<Exact, S("strong")>>])
ColTypeD == Obj([key |-> <<[d |-> "base"], Z>>, value |-> <<[d |-> "base"], Z>>, min |-> <<Exact, N(1)>>, max |-> <<Exact, N(1)>>])
ColumnD == Obj([type |-> <<[d |-> "coltype"], Z>>, ephemeral |-> <<Exact, B(FALSE)>>, mutable |-> <<Exact, B(TRUE)>>])
TableD == Obj([columns |-> <<Dict(ColumnD), O(<<>>)>>, indexes |-> <<Bag(Arr(Exact)), A(<<>>)>>, isRoot |-> <<Exact, B(FALSE)>>, maxRows |-> <<Exact, Z>>])
SchemaD == Obj([name |-> <<Exact, Z>>, version |-> <<Exact, Z>>, cksum |-> <<Exact, Z>>, tables |-> <<Dict(TableD), O(<<>>)>>])
OpD == Obj([op |-> <<Exact, Z>>, table |-> <<Exact, S("")>>, row |-> <<RowD, O(<<>>)>>, rows |-> <<Arr(RowD), A(<<>>)>>, columns |-> <<Arr(Exact), A(<<>>)>>,
            mutations |-> <<Arr(CondD), A(<<>>)>>, timeout |-> <<Exact, Z>>, where |-> <<Arr(CondD), A(<<>>)>>, until |-> <<Exact, S("")>>,
            durable |-> <<Exact, Z>>, comment |-> <<Exact, Z>>, lock |-> <<Exact, Z>>, uuid |-> <<Exact, S("")>>] @@ ("uuid-name" :> <<Exact, S("")>>))
ResultD == Obj([count |-> <<Exact, N(0)>>, error |-> <<Exact, S("")>>, details |-> <<Exact, S("")>>, uuid |-> <<Val, Named("")>>, rows |-> <<Arr(RowD), A(<<>>)>>])
RowUpdateD == Obj([old |-> <<RowD, Z>>, new |-> <<RowD, Z>>])
RowUpdate2D == Obj([initial |-> <<RowD, Z>>, insert |-> <<RowD, Z>>, modify |-> <<RowD, Z>>, delete |-> <<[d |-> "delete2"], Z>>])
SelectD == Obj([initial |-> <<Exact, B(TRUE)>>, insert |-> <<Exact, B(TRUE)>>, delete |-> <<Exact, B(TRUE)>>, modify |-> <<Exact, B(TRUE)>>])
MonReqD == Obj([columns |-> <<Arr(Exact), A(<<>>)>>, where |-> <<Arr(CondD), A(<<>>)>>, select |-> <<SelectD, O(<<>>)>>])

DescOf(T) ==
    CASE T \in {"OvsSet", "OvsMap", "UUID"} -> Val
      [] T = "Row" -> RowD
      [] T \in {"Condition", "Mutation"} -> CondD
      [] T = "Operation" -> OpD
      [] T = "OperationResult" -> ResultD
      [] T = "TableUpdates" -> Dict(Dict(RowUpdateD))
      [] T = "TableUpdates2" -> Dict(Dict(RowUpdate2D))
      [] T = "MonitorRequest" -> MonReqD
      [] T = "MonitorSelect" -> SelectD
      [] T = "MonitorCondSinceReply" -> Tup(<<Exact, Exact, Dict(Dict(RowUpdate2D))>>)
      [] T = "BaseType" -> [d |-> "base"]
      [] T = "ColumnType" -> [d |-> "coltype"]
      [] T = "ColumnSchema" -> ColumnD
      [] T = "TableSchema" -> TableD
      [] T = "DatabaseSchema" -> SchemaD

RECURSIVE Eq(_, _, _), EqDefault(_, _, _, _)
Eq(D, a, b) ==
    CASE D.d = "exact" -> a = b
      [] D.d = "value" -> IF a.k = "z" \/ b.k = "z" THEN a = b ELSE EqValue(a, b)
      [] D.d = "arr" -> /\ IsA(a) /\ IsA(b) /\ Len(a.a) = Len(b.a)
                        /\ \A i \in DOMAIN a.a : Eq(D.e, a.a[i], b.a[i])
      [] D.d = "bag" -> /\ IsA(a) /\ IsA(b) /\ Len(a.a) = Len(b.a)
                        /\ \E p \in Perms(Len(a.a)) : \A i \in DOMAIN a.a : Eq(D.e, a.a[i], b.a[p[i]])
      [] D.d = "dict" -> /\ IsO(a) /\ IsO(b) /\ Keys(a) = Keys(b)
                         /\ \A x \in Keys(a) : Eq(D.e, a.o[x], b.o[x])
      [] D.d = "tuple" -> /\ IsA(a) /\ IsA(b) /\ Len(a.a) = Len(D.e) /\ Len(b.a) = Len(D.e)
                          /\ \A i \in DOMAIN D.e : Eq(D.e[i], a.a[i], b.a[i])
      [] D.d = "obj" -> /\ IsO(a) /\ IsO(b)
                        /\ (Keys(a) \cup Keys(b)) \subseteq DOMAIN D.m
                        /\ \A x \in DOMAIN D.m :
                              LET av == Get(a, x, D.m[x][2]) bv == Get(b, x, D.m[x][2])
                              IN  IF av = D.m[x][2] \/ bv = D.m[x][2] THEN EqDefault(D.m[x][1], av, bv, D.m[x][2]) ELSE Eq(D.m[x][1], av, bv)
      [] D.d = "base" -> Eq(BaseD, NormBase(a), NormBase(b))
      [] D.d = "coltype" -> Eq(ColTypeD, NormColType(a), NormColType(b))
      [] D.d = "delete2" -> TRUE     \* the member's presence says it all: null or an empty row
\* one side is the default (or absent): the other must be the default too, up to what the default means for the descriptor
EqDefault(D, av, bv, dflt) ==
    \/ av = bv
    \/ /\ D.d \in {"arr", "bag"} /\ {av, bv} \subseteq {dflt, A(<<>>)}
    \/ /\ D.d = "dict" /\ {av, bv} \subseteq {dflt, O(<<>>)}
    \/ /\ D.d = "obj" /\ dflt = O(<<>>) /\ Eq(D, av, bv)

\* =========================================================================
\* corruption: every tree one local edit away
\* =========================================================================
Junk == {N(0), N(-1), S(""), S("set"), S("uuid"), B(TRUE), Z, A(<<>>), O(<<>>), A(<<S("uuid")>>), A(<<S("set"), N(1)>>), A(<<S("map"), A(<<N(1)>>)>>), Rl("0.5")}
RemoveAt(s, i) == [j \in 1..(Len(s) - 1) |-> IF j < i THEN s[j] ELSE s[j + 1]]
RECURSIVE Corrupt(_)
Corrupt(t) ==
    (Junk \ {t})
    \cup (IF IsA(t) THEN {A(RemoveAt(t.a, i)) : i \in DOMAIN t.a}
                         \cup UNION {{A([t.a EXCEPT ![i] = c]) : c \in Corrupt(t.a[i])} : i \in DOMAIN t.a}
                         \cup {A(Append(t.a, N(1)))}
          ELSE {})
    \cup (IF IsO(t) THEN {O([x \in Keys(t) \ {m} |-> t.o[x]]) : m \in Keys(t)}
                         \cup UNION {{O([t.o EXCEPT ![m] = c]) : c \in Corrupt(t.o[m])} : m \in Keys(t)}
          ELSE {})
\* all small trees
Atoms0 == {N(0), N(1), S(""), S("set"), S("map"), S("uuid"), S("named-uuid"), S(U1), B(TRUE), Z}
Level(X) == X \cup {A(<<>>), O(<<>>)} \cup {A(<<x>>) : x \in X} \cup {A(<<x, y>>) : x, y \in X} \cup {O([a |-> x]) : x \in X}
Small1 == Level(Atoms0)
Small2 == Level(Small1)
=============================================================================
