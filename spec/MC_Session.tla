----------------------------- MODULE MC_Session -----------------------------
EXTENDS Session, Json

MCRows == {"r1", "r2", "r3"}
MCTableOf == [r \in MCRows |-> IF r = "r3" THEN "T2" ELSE "T1"]
MCMonitors == [m \in {"m1", "m2"} |-> IF m = "m1" THEN "T1" ELSE "T2"]

\* every maximal behaviour (quiescent, nothing more to start) is one schedule
Terminal == Quiescent /\ ntxn = MaxTxns /\ \A m \in DOMAIN Monitors : pend[m] = "done"
EmitSchedules == Terminal => PrintT(<<"CASE", ToJson(hist)>>)

\* the state without the history, for the exhaustive check
View == <<db, ntxn, txn, registered, chan, cache, deferU, deferred, pend, replyBuf, failed>>
=============================================================================
