------------------------------- MODULE Mapper -------------------------------
(***************************************************************************)
(* The mapping between Go models and OVSDB rows (property C09, and the     *)
(* field types property C20 expects of generated code).                    *)
(*                                                                         *)
(* A column type is [key, value, min, max] (value = "" for non-maps,       *)
(* max = -1 for unlimited, enum = the key is an enum).  NativeType(c) is   *)
(* the one Go type a model field of that column must have; any other type  *)
(* must be rejected when the model is bound to the schema.                 *)
(* A native value is [kind, elems]: kind "atom" (one element), "opt"       *)
(* (pointer: zero or one element), "set" (slice), "map" (pairs).  Atoms    *)
(* are the typed tree nodes of Wire.tla (uuids are strings natively).      *)
(* Enc(c, v) is the wire encoding the mapper must produce for v in column  *)
(* c; the round trip must give v back.                                     *)
(***************************************************************************)
EXTENDS Wire

Col(k, v, mn, mx, en) == [key |-> k, value |-> v, min |-> mn, max |-> mx, enum |-> en]

GoAtom(t) == CASE t = "integer" -> "int" [] t = "real" -> "float64" [] t = "boolean" -> "bool" [] t = "string" -> "string" [] t = "uuid" -> "string"
ColKind(c) == IF c.value # "" THEN "map"
              ELSE IF c.min = 1 /\ c.max = 1 THEN "atom"
              ELSE IF c.min = 0 /\ c.max = 1 THEN "opt"
              ELSE "set"
NativeType(c) ==
    CASE ColKind(c) = "map"  -> "map[" \o GoAtom(c.key) \o "]" \o GoAtom(c.value)
      [] ColKind(c) = "atom" -> GoAtom(c.key)
      [] ColKind(c) = "opt"  -> "*" \o GoAtom(c.key)
      [] ColKind(c) = "set"  -> "[]" \o GoAtom(c.key)

\* the Go types a careless model might use
GoTypes == {"int", "float64", "bool", "string", "*int", "*float64", "*bool", "*string", "[]int", "[]float64", "[]bool", "[]string",
            "map[string]string", "map[string]int", "map[int]string", "map[string]bool", "map[string]float64", "map[int]int",
            "int64", "[]*string", "*[]string", "interface {}", "[1]string", "uint"}

\* ---- the type space: every atomic type in key and value position, the four min/max shapes, enums, references
Shapes == {<<1, 1>>, <<0, 1>>, <<0, -1>>, <<1, -1>>, <<0, 3>>, <<2, 3>>}
ColTypes ==
    {Col(k, "", s[1], s[2], FALSE) : k \in AtomTypes, s \in Shapes}
    \cup {Col(k, "", s[1], s[2], TRUE) : k \in {"string", "integer"}, s \in {<<1, 1>>, <<0, 1>>, <<0, -1>>}}
    \cup {Col(k, v, mn, -1, FALSE) : k \in {"string", "integer", "uuid"}, v \in AtomTypes, mn \in {0, 1}}
    \cup {Col("string", "string", 0, 2, FALSE)}

\* ---- native atoms of a type (enum columns: the enum's members)
EnumOf(t) == IF t = "string" THEN {S("red"), S("green"), S("blue")} ELSE {N(1), N(2), N(3)}
NativeAtoms(t, en) ==
    IF en THEN EnumOf(t)
    ELSE CASE t = "integer" -> {N(0), N(1), N(-7), Big("9007199254740993"), Big("9223372036854775807"), Big("-9223372036854775808")}
           [] t = "real"    -> {N(0), N(2), Rl("0.5"), Rl("-1.25"), Rl("1e+300")}
           [] t = "boolean" -> {B(TRUE), B(FALSE)}
           [] t = "string"  -> {S(""), S("a"), S("b c"), S("set")}
           [] t = "uuid"    -> {S(U1), S(U2), S(U3)}
\* fewer atoms where sets and maps multiply them
FewAtoms(t, en) == IF en THEN EnumOf(t)
                   ELSE CASE t = "integer" -> {N(0), N(-7), Big("9007199254740993")}
                          [] t = "real"    -> {N(0), Rl("0.5"), Rl("-1.25")}
                          [] t = "boolean" -> {B(TRUE), B(FALSE)}
                          [] t = "string"  -> {S(""), S("a"), S("b c")}
                          [] t = "uuid"    -> {S(U1), S(U2), S(U3)}

NV(kind, elems) == [kind |-> kind, elems |-> elems]
\* every native value of a column within the bounds (length within min..max, at most 3 elements)
ValuesOf(c) ==
    LET hi == IF c.max = -1 THEN 3 ELSE c.max
    IN  CASE ColKind(c) = "atom" -> {NV("atom", <<a>>) : a \in NativeAtoms(c.key, c.enum)}
          [] ColKind(c) = "opt"  -> {NV("opt", <<>>)} \cup {NV("opt", <<a>>) : a \in NativeAtoms(c.key, c.enum)}
          [] ColKind(c) = "set"  -> {NV("set", s) : s \in {q \in InjSeqs(FewAtoms(c.key, c.enum), hi) : Len(q) >= c.min}}
          [] ColKind(c) = "map"  -> {NV("map", p) : p \in {q \in InjSeqs(FewAtoms(c.key, FALSE) \X {x \in FewAtoms(c.value, FALSE) : x.k # "big"}, IF hi > 2 THEN 2 ELSE hi) :
                                                              /\ Len(q) >= c.min
                                                              /\ \A i, j \in DOMAIN q : i < j => q[i][1] # q[j][1]}}

\* a deeper value space for the thorough tier: sets over every atom (64-bit extremes, large reals, keyword-like strings)
DeepValuesOf(c) ==
    IF ColKind(c) # "set" THEN {}
    ELSE LET hi == IF c.max = -1 THEN 2 ELSE IF c.max > 2 THEN 2 ELSE c.max
         IN  {NV("set", s) : s \in {q \in InjSeqs(NativeAtoms(c.key, c.enum), hi) : Len(q) >= c.min}}

\* ---- the wire encoding the mapper must produce
EncAtom(t, a) == IF t = "uuid" THEN Uuid(a.s) ELSE a
Enc(c, v) ==
    CASE v.kind = "atom" -> EncAtom(c.key, v.elems[1])
      [] v.kind \in {"opt", "set"} -> IF Len(v.elems) = 1 THEN EncAtom(c.key, v.elems[1])
                                      ELSE SetEnc([i \in DOMAIN v.elems |-> EncAtom(c.key, v.elems[i])])
      [] v.kind = "map" -> MapEnc([i \in DOMAIN v.elems |-> <<EncAtom(c.key, v.elems[i][1]), EncAtom(c.value, v.elems[i][2])>>])

\* NewRow (without a list of fields) leaves a column out when the field holds the zero value of its Go type;
\* read back into a fresh model that is the same value
IsDefault(v) == \/ v.kind \in {"opt", "set", "map"} /\ Len(v.elems) = 0
                \/ v.kind = "atom" /\ v.elems[1] \in {N(0), S(""), B(FALSE)}

\* two native values are the same value: sets and maps are unordered
SameVal(a, b) == /\ a.kind = b.kind /\ Len(a.elems) = Len(b.elems)
                 /\ \E p \in Perms(Len(a.elems)) : \A i \in DOMAIN a.elems : a.elems[i] = b.elems[p[i]]

\* ---- sanity
TypeLaws == /\ NativeType(Col("string", "", 1, 1, FALSE)) = "string"
            /\ NativeType(Col("uuid", "", 0, 1, FALSE)) = "*string"
            /\ NativeType(Col("integer", "", 0, -1, FALSE)) = "[]int"
            /\ NativeType(Col("integer", "", 1, -1, FALSE)) = "[]int"
            /\ NativeType(Col("string", "", 1, 1, TRUE)) = "string"
            /\ NativeType(Col("string", "", 0, -1, TRUE)) = "[]string"
            /\ NativeType(Col("string", "uuid", 0, -1, FALSE)) = "map[string]string"
            /\ NativeType(Col("integer", "real", 0, -1, FALSE)) = "map[int]float64"
            /\ \A c \in ColTypes : NativeType(c) \in GoTypes \cup {"map[string]string", "map[int]bool", "map[int]float64", "map[string]float64", "map[int]string", "map[int]int", "map[string]int", "map[string]bool"}
=============================================================================
