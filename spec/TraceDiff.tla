------------------------------ MODULE TraceDiff -----------------------------
(***************************************************************************)
(* Validates the difference cases executed on the real updates package     *)
(* (vh diff-cases) against Diff.tla - property C10.                        *)
(*  {"ev":"diff","via","kind","col","a","b","oa","ob","hasModify","modify",*)
(*   "applied","aAfter","a2After","rewritten","err"}                        *)
(*  {"ev":"peer","kind","col","a","d","result","changed","err"}             *)
(* Values are in the integer universe of MC_Diff (sets as arrays, maps as  *)
(* arrays of pairs).                                                       *)
(***************************************************************************)
EXTENDS Diff, Json

Trace == ndJsonDeserialize("trace.ndjson")
VARIABLES l, done
vars == <<l, done>>

V(kind, j) ==
    CASE kind \in {"set", "opt"} -> SeqToSet(j)
      [] kind = "map" -> [k \in {j[i][1] : i \in DOMAIN j} |-> LET i == CHOOSE i \in DOMAIN j : j[i][1] = k IN j[i][2]]
      [] OTHER -> j

Report(prop, what, detail) ==
    PrintT(<<"MISMATCH", ToJson([prop |-> prop, line |-> l, what |-> what, detail |-> detail])>>)
Chk(cond, prop, what, detail) == IF cond THEN TRUE ELSE Report(prop, what, detail)

Key(e) == [kind |-> e.kind, col |-> e.col, a |-> e.a, b |-> IF e.ev = "diff" THEN e.b ELSE e.d,
           via |-> IF e.ev = "diff" THEN e.via ELSE "peer",
           order |-> IF e.ev = "diff" THEN <<e.oa, e.ob>> ELSE <<0, 1>>]

CheckDiff(e) ==
    LET k == e.kind
        a == V(k, e.a)
        b == V(k, e.b)
    IN
    /\ Chk(e.err = "", "C10", "computing or applying the difference failed", [err |-> e.err, case |-> Key(e)])
    /\ e.err = "" =>
       /\ Chk(e.hasModify <=> a # b, "C10", "difference is empty although the values differ, or present although they are equal",
              [hasModify |-> e.hasModify, case |-> Key(e)])
       /\ e.hasModify =>
            /\ Chk(Apply(k, a, V(k, e.modify)) = b, "C10", "the computed difference applied to a (update2 rules) does not give b",
                   [modify |-> e.modify, case |-> Key(e)])
            /\ Chk(V(k, e.applied) = b, "C10", "the library applying its own difference to a does not obtain b",
                   [modify |-> e.modify, applied |-> e.applied, case |-> Key(e)])
       /\ Chk(V(k, e.newVal) = b, "C10", "the new model recorded by the update does not hold the new value",
              [newVal |-> e.newVal, case |-> Key(e)])
       /\ Chk(V(k, e.aAfter) = a /\ V(k, e.a2After) = a /\ ~e.rewritten, "C10",
              "computing or applying the difference altered the model it was computed from",
              [aAfter |-> e.aAfter, a2After |-> e.a2After, rewritten |-> e.rewritten, case |-> Key(e)])

CheckPeer(e) ==
    LET k == e.kind
        a == V(k, e.a)
        d == V(k, e.d)
    IN
    /\ Chk(e.err = "", "C10", "applying a peer's difference failed", [err |-> e.err, case |-> Key(e)])
    /\ e.err = "" =>
       Chk(V(k, e.result) = Apply(k, a, d), "C10", "a peer's difference is not applied by the update2 rules",
           [result |-> e.result, case |-> Key(e)])

Init == l = 1 /\ done = FALSE
Next ==
    \/ /\ l <= Len(Trace)
       /\ IF Trace[l].ev = "diff" THEN CheckDiff(Trace[l]) ELSE CheckPeer(Trace[l])
       /\ l' = l + 1 /\ UNCHANGED done
    \/ /\ l = Len(Trace) + 1 /\ ~done
       /\ PrintT(<<"TRACE-COMPLETE", Len(Trace)>>)
       /\ done' = TRUE /\ UNCHANGED l
Spec == Init /\ [][Next]_vars
=============================================================================
