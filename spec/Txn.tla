-------------------------------- MODULE Txn ---------------------------------
(***************************************************************************)
(* The executable reference model of an OVSDB transaction (RFC 7047        *)
(* section 4.1.3 "transact" and 5.2 "operations") for the built-in         *)
(* database: a function from a database and a list of operations to the    *)
(* per-operation results, the verdict and the resulting database.          *)
(*                                                                         *)
(* Operation record (fixed field set, produced by the harness):            *)
(*  [op, table, uuid, uuidName, where, row, rows, columns, hasColumns,     *)
(*   mutations, until, timeout, bad]                                       *)
(*   uuid      explicit row uuid of an insert (the harness always knows it:*)
(*             it either supplied it or read it from the reply)            *)
(*   uuidName  "@name" or ""                                               *)
(*   where     sequence of conditions, mutations sequence of mutations     *)
(*   row       partial row as a record column -> valueJson                 *)
(*   bad       the harness deliberately made this operation ill-formed     *)
(*             (unknown table, wrong value type, ...): it must fail        *)
(***************************************************************************)
EXTENDS Refs

\* ------------------------------------------------------------ named uuids
\* names: "@name" -> uuid for every insert carrying a uuid-name
NameOps(ops)   == {i \in DOMAIN ops : ops[i].op = "insert" /\ ops[i].uuidName # ""}
NameSet(ops)   == {ops[i].uuidName : i \in NameOps(ops)}
NameConflict(ops) ==
    \E i, j \in NameOps(ops) : ops[i].uuidName = ops[j].uuidName /\ ops[i].uuid # ops[j].uuid
Names(ops) ==
    [n \in NameSet(ops) |-> ops[CHOOSE i \in NameOps(ops) : ops[i].uuidName = n].uuid]

XAtom(names, base, a) ==
    IF base.t = "uuid" /\ a \in DOMAIN names THEN names[a] ELSE a

\* substitute names in a decoded value, only in uuid-typed positions
XVal(names, col, v) ==
    CASE col.kind = "atom" -> XAtom(names, col.key, v)
      [] col.kind \in {"opt", "set"} -> {XAtom(names, col.key, x) : x \in v}
      [] col.kind = "map" ->
            [k \in {XAtom(names, col.key, x) : x \in DOMAIN v} |->
                XAtom(names, col.val,
                      v[CHOOSE x \in DOMAIN v : XAtom(names, col.key, x) = k])]

\* the same on the JSON form (used for conditions and mutations, which the
\* later operators decode themselves)
XAtomJ(names, base, a) == XAtom(names, base, a)
XValJ(names, col, j, shape) ==
    CASE col.kind = "atom" -> XAtomJ(names, col.key, j)
      [] col.kind \in {"opt", "set"} -> [i \in DOMAIN j |-> XAtomJ(names, col.key, j[i])]
      [] col.kind = "map" ->
            IF shape = "keys" THEN [i \in DOMAIN j |-> XAtomJ(names, col.key, j[i])]
            ELSE [i \in DOMAIN j |-> <<XAtomJ(names, col.key, j[i][1]), XAtomJ(names, col.val, j[i][2])>>]

XWhere(names, t, where) ==
    [i \in DOMAIN where |->
        <<where[i][1], where[i][2],
          XValJ(names, ColX(t, where[i][1]), where[i][3], where[i][4]), where[i][4]>>]

\* arithmetic mutations carry one atom
XMuts(names, t, muts) ==
    [i \in DOMAIN muts |->
        IF muts[i][1] \notin Cols(t) \/ muts[i][2] \in ArithMutators THEN muts[i]
        ELSE <<muts[i][1], muts[i][2],
               XValJ(names, Col(t, muts[i][1]), muts[i][3], muts[i][4]), muts[i][4]>>]

\* a partial row (record column -> json) decoded and expanded
PartialRow(names, t, jrow) ==
    [c \in DOMAIN jrow \cap Cols(t) |-> XVal(names, Col(t, c), ValJ(Col(t, c), jrow[c]))]

\* ------------------------------------------------------------- operations
CoreOps == {"insert", "select", "update", "mutate", "delete", "wait"}

\* result records: [kind, uuid, count, rows]
RUuid(u)  == [kind |-> "uuid",  uuid |-> u,  count |-> 0, rows |-> {}]
RCount(n) == [kind |-> "count", uuid |-> "", count |-> n, rows |-> {}]
RRows(rs) == [kind |-> "rows",  uuid |-> "", count |-> 0, rows |-> rs]
REmpty    == [kind |-> "empty", uuid |-> "", count |-> 0, rows |-> {}]
RError    == [kind |-> "error", uuid |-> "", count |-> 0, rows |-> {}]

\* one step: [ok, res, d]
StepInsert(names, d, op) ==
    LET t == op.table
        new == Override(DefaultRow(t), PartialRow(names, t, op.row))
    IN  IF op.uuid = "" \/ op.uuid \in DOMAIN d[t]
        THEN [ok |-> FALSE, res |-> RError, d |-> d]
        ELSE [ok |-> TRUE, res |-> RUuid(op.uuid),
              d |-> [d EXCEPT ![t] = Override(d[t], [u \in {op.uuid} |-> new])]]

StepSelect(names, d, op) ==
    LET t == op.table
        sel == Select(t, d[t], XWhere(names, t, op.where))
    IN  [ok |-> TRUE, res |-> RRows({<<u, d[t][u]>> : u \in sel}), d |-> d]

StepUpdate(names, d, op) ==
    LET t == op.table
        sel == Select(t, d[t], XWhere(names, t, op.where))
        pr == PartialRow(names, t, op.row)
        immutableChange == \E u \in sel : \E c \in DOMAIN pr : ~Col(t, c).mut /\ d[t][u][c] # pr[c]
    IN  IF immutableChange THEN [ok |-> FALSE, res |-> RError, d |-> d]
        ELSE [ok |-> TRUE, res |-> RCount(Cardinality(sel)),
              d |-> [d EXCEPT ![t] = [u \in DOMAIN d[t] |->
                        IF u \in sel THEN Override(d[t][u], pr) ELSE d[t][u]]]]

StepMutate(names, d, op) ==
    LET t == op.table
        sel == Select(t, d[t], XWhere(names, t, op.where))
        muts == XMuts(names, t, op.mutations)
        out == [u \in sel |-> MutateRow(t, d[t][u], muts, 1)]
        \* (a mutation of an immutable column that selects no row changes
        \* nothing: accepted, like the implementation does)
    IN  IF \E u \in sel : ~out[u].ok
        THEN [ok |-> FALSE, res |-> RError, d |-> d]
        ELSE [ok |-> TRUE, res |-> RCount(Cardinality(sel)),
              d |-> [d EXCEPT ![t] = [u \in DOMAIN d[t] |->
                        IF u \in sel THEN out[u].row ELSE d[t][u]]]]

StepDelete(names, d, op) ==
    LET t == op.table
        sel == Select(t, d[t], XWhere(names, t, op.where))
    IN  [ok |-> TRUE, res |-> RCount(Cardinality(sel)),
         d |-> [d EXCEPT ![t] = Without(d[t], sel)]]

\* wait with timeout 0: the rows selected by where and the given rows are
\* compared as sets on the given columns (all columns when none are given).
\* A column an expected row does not provide is not compared - this is the
\* reading the repository's own tests fix (RFC 7047 would take the default);
\* the drivers only produce expected rows that provide every listed column,
\* where both readings coincide.
WaitHolds(names, d, op) ==
    LET t == op.table
        sel == Select(t, d[t], XWhere(names, t, op.where))
        cols == IF op.hasColumns /\ Len(op.columns) > 0 THEN SeqToSet(op.columns) \cap Cols(t) ELSE Cols(t)
        exp(i) == PartialRow(names, t, op.rows[i])
        matches(u, i) == \A c \in cols \cap DOMAIN exp(i) : d[t][u][c] = exp(i)[c]
        equal == /\ \A u \in sel : \E i \in DOMAIN op.rows : matches(u, i)
                 /\ \A i \in DOMAIN op.rows : \E u \in sel : matches(u, i)
    IN  IF op.until = "==" THEN equal ELSE ~equal

StepWait(names, d, op) ==
    IF op.until \notin {"==", "!="} THEN [ok |-> FALSE, res |-> RError, d |-> d]
    ELSE IF WaitHolds(names, d, op) THEN [ok |-> TRUE, res |-> REmpty, d |-> d]
    ELSE [ok |-> FALSE, res |-> RError, d |-> d]     \* "timed out"

Step(names, d, op) ==
    IF op.bad THEN [ok |-> FALSE, res |-> RError, d |-> d]
    ELSE IF op.op \in {"comment", "commit"} THEN [ok |-> TRUE, res |-> REmpty, d |-> d]
    ELSE IF op.op \notin CoreOps \/ op.table \notin Tables THEN [ok |-> FALSE, res |-> RError, d |-> d]
    ELSE CASE op.op = "insert" -> StepInsert(names, d, op)
           [] op.op = "select" -> StepSelect(names, d, op)
           [] op.op = "update" -> StepUpdate(names, d, op)
           [] op.op = "mutate" -> StepMutate(names, d, op)
           [] op.op = "delete" -> StepDelete(names, d, op)
           [] op.op = "wait"   -> StepWait(names, d, op)

RECURSIVE Run(_, _, _, _, _)
\* [failAt (0 = none), results, d]
Run(names, d, ops, i, results) ==
    IF i > Len(ops) THEN [failAt |-> 0, results |-> results, d |-> d]
    ELSE LET s == Step(names, d, ops[i])
         IN  IF ~s.ok THEN [failAt |-> i, results |-> results, d |-> d]
             ELSE Run(names, s.d, ops, i + 1, Append(results, s.res))

\* The transaction function.
\*   ok       committed
\*   failAt   index of the failing operation, 0 if none failed
\*   reason   "" | "op" | "names" | "refs" | "min" | "index"
\*   results  results of the operations before the failing one (all if none)
\*   db       the database afterwards (= db when not ok)
\*   afterOps the scratch database after the operations (before GC / pruning)
Txn(db, ops) ==
    IF NameConflict(ops)
    THEN [ok |-> FALSE, failAt |-> 1, reason |-> "names", results |-> <<>>, db |-> db, afterOps |-> db]
    ELSE
    LET r == Run(Names(ops), db, ops, 1, <<>>)
    IN  IF r.failAt # 0
        THEN [ok |-> FALSE, failAt |-> r.failAt, reason |-> "op", results |-> r.results, db |-> db, afterOps |-> r.d]
        ELSE LET f == Fix(r.d)
             IN  IF Dangling(f) # {}
                 THEN [ok |-> FALSE, failAt |-> 0, reason |-> "refs", results |-> r.results, db |-> db, afterOps |-> r.d]
                 ELSE IF MinViolations(r.d) # {}
                 THEN [ok |-> FALSE, failAt |-> 0, reason |-> "min", results |-> r.results, db |-> db, afterOps |-> r.d]
                 ELSE IF Duplicates(f) # {}
                 THEN [ok |-> FALSE, failAt |-> 0, reason |-> "index", results |-> r.results, db |-> db, afterOps |-> r.d]
                 ELSE [ok |-> TRUE, failAt |-> 0, reason |-> "", results |-> r.results, db |-> f, afterOps |-> r.d]

EmptyDB == [t \in Tables |-> [u \in {} |-> 0]]
=============================================================================
