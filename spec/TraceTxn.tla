------------------------------ MODULE TraceTxn ------------------------------
(***************************************************************************)
(* Trace specification: validates executions recorded from the real        *)
(* database/transaction engine (vh record txn) against the reference       *)
(* model.  One action per recorded event; the specification recomputes     *)
(* every result and every post-state and reports each disagreement as a    *)
(* MISMATCH line tagged with the property it falsifies.  After each event  *)
(* the specification adopts the state the implementation reported, so one  *)
(* disagreement does not hide the following events.                        *)
(*                                                                         *)
(* Events (ndjson, fixed fields per type):                                 *)
(*  {"ev":"reset","db":k}                        fresh empty database k    *)
(*  {"ev":"load","db":k,"from":j,"post":..,"refs":..}  database k loaded   *)
(*                       with the rows of database j in one transaction    *)
(*  {"ev":"txn","db":k,"ops":[..],"results":[..],"committed":b,            *)
(*   "errIdx":n,"errKind":s,"post":{..},"refs":[..],"probe":[..],          *)
(*   "notifs":[..]}                                                        *)
(***************************************************************************)
EXTENDS Monitor

Trace == ndJsonDeserialize("trace.ndjson")

VARIABLES l, dbs, mons, cmons, done

vars == <<l, dbs, mons, cmons, done>>

\* ------------------------------------------------------------- decoding
RowJ(t, jrow) == [c \in Cols(t) |->
                    IF c \in DOMAIN jrow THEN ValJ(Col(t, c), jrow[c]) ELSE Default(Col(t, c))]
DbJ(post) == [t \in Tables |->
                IF t \in DOMAIN post
                THEN [u \in DOMAIN post[t] |-> RowJ(t, post[t][u])]
                ELSE [u \in {} |-> 0]]

RefsJ(j) == {<<j[i][1], j[i][2], j[i][3], j[i][4], j[i][5], SeqToSet(j[i][6])>> : i \in DOMAIN j}

\* a logged result -> the spec's result record (rows decoded as total rows)
ResJ(t, r) ==
    CASE r.kind = "uuid"  -> RUuid(r.uuid)
      [] r.kind = "count" -> RCount(r.count)
      [] r.kind = "rows"  -> RRows({<<r.rows[i].u, RowJ(t, r.rows[i].row)>> : i \in DOMAIN r.rows})
      [] r.kind = "empty" -> REmpty
      [] OTHER -> RError

Report(prop, what, detail) ==
    PrintT(<<"MISMATCH", ToJson([prop |-> prop, line |-> l, what |-> what, detail |-> detail])>>)
Chk(cond, prop, what, detail) == IF cond THEN TRUE ELSE Report(prop, what, detail)
Note(what, detail) ==
    PrintT(<<"NOTE", ToJson([line |-> l, what |-> what, detail |-> detail])>>)

\* ------------------------------------------------------------- checks
\* result shape of a failed transaction: results before the error, one error,
\* then only "null" padding; a commit-time rejection has one result per
\* operation plus one extra error element
ShapeOK(e) ==
    LET n == Len(e.results)
        k == e.errIdx
    IN  /\ k >= 1 /\ k <= n
        /\ \A i \in 1..(k - 1) : e.results[i].kind \notin {"error", "null"}
        /\ e.results[k].kind = "error"
        /\ \A i \in (k + 1)..n : e.results[i].kind = "null"
        /\ n <= Len(e.ops) + 1
        /\ (k = Len(e.ops) + 1) => n = k

ResultsMatch(e, r) ==
    /\ Len(e.results) = Len(e.ops)
    /\ \A i \in DOMAIN e.ops :
         LET exp == r.results[i]
             got == ResJ(e.ops[i].table, e.results[i])
         IN  IF e.ops[i].op \in {"comment", "commit"} THEN TRUE
             ELSE got = exp

FirstBadResult(e, r) ==
    LET bad == {i \in DOMAIN e.ops : i <= Len(e.results) /\ e.ops[i].op \notin {"comment", "commit"}
                  /\ ResJ(e.ops[i].table, e.results[i]) # r.results[i]}
    IN  IF bad = {} THEN 0 ELSE CHOOSE i \in bad : \A j \in bad : i <= j

\* tables in which two databases differ
DiffTables(a, b) == {t \in Tables : a[t] # b[t]}
DiffRows(a, b) == {<<t, u>> \in UNION {{<<t, u>> : u \in DOMAIN a[t] \cup DOMAIN b[t]} : t \in Tables} :
                     \/ u \notin DOMAIN a[t] \/ u \notin DOMAIN b[t] \/ a[t][u] # b[t][u]}

CheckTxn(e, db) ==
    LET r    == Txn(db, e.ops)
        post == DbJ(e.post)
    IN
    IF e.committed THEN
        /\ IF ~r.ok
           THEN Report(CASE r.reason \in {"refs", "min"} -> "C04" [] r.reason = "index" -> "C06" [] OTHER -> "C03",
                       "committed a transaction the reference rejects",
                       [reason |-> r.reason, failAt |-> r.failAt])
           ELSE /\ Chk(ResultsMatch(e, r), "C03", "operation result differs from the reference",
                       [op |-> FirstBadResult(e, r)])
                /\ Chk(post = r.db, "C03", "database contents after commit differ from the reference",
                       [rows |-> DiffRows(post, r.db)])
        /\ Chk(RefsOK(post), "C04", "referential integrity broken after commit",
               [dangling |-> {<<x.ft, x.fu, x.fc, x.to>> : x \in Dangling(post)},
                danglingWeak |-> {<<x.ft, x.fu, x.fc, x.to>> : x \in DanglingWeak(post)},
                unreferenced |-> Unreferenced(post)])
        /\ Chk(UniqueOK(post), "C06", "duplicate index value after commit", [dups |-> Duplicates(post)])
        /\ Chk(RefsJ(e.refs) = RefIndex(post), "C04",
               "reference index differs from the one recomputed from the rows",
               [extra |-> RefsJ(e.refs) \ RefIndex(post), missing |-> RefIndex(post) \ RefsJ(e.refs)])
    ELSE
        /\ Chk(e.commitErr = "", "C02", "the engine failed after or while executing the operations (commit error or panic)",
               [error |-> e.commitErr])
        /\ Chk(post = db, "C02", "failed transaction changed the database", [rows |-> DiffRows(post, db)])
        /\ Chk(RefsJ(e.refs) = RefIndex(post), "C02", "failed transaction changed the reference index",
               [extra |-> RefsJ(e.refs) \ RefIndex(post), missing |-> RefIndex(post) \ RefsJ(e.refs)])
        /\ Chk(e.commitErr # "" \/ ShapeOK(e), "C02", "reply of a failed transaction has the wrong shape",
               [errIdx |-> e.errIdx, n |-> Len(e.results), ops |-> Len(e.ops)])
        /\ IF r.ok
           THEN IF e.errKind = "index"
                THEN Report("C06", "rejected for an index violation a transaction whose final state has no duplicate", [x |-> 0])
                ELSE Note("over-rejection", [errIdx |-> e.errIdx, errKind |-> e.errKind])
           ELSE TRUE

\* ------------------------------------------------------------- actions
Init == /\ l = 1
        /\ dbs = [k \in {} |-> 0]
        /\ mons = [k \in {} |-> 0]
        /\ cmons = [k \in {} |-> 0]
        /\ done = FALSE

Ev == Trace[l]

DoReset ==
    /\ Ev.ev = "reset"
    /\ dbs' = Override(dbs, [k \in {Ev.db} |-> EmptyDB])
    /\ mons' = [k \in {} |-> 0]
    /\ cmons' = [k \in {} |-> 0]

DoLoad ==
    /\ Ev.ev = "load"
    /\ LET post == DbJ(Ev.post)
       IN  /\ Chk(Ev.failed = "", "C04", "the engine refuses to load the contents of a database it built itself into a fresh one",
                  [err |-> Ev.failed])
           /\ Chk(post = dbs[Ev.from], "C04", "database loaded with the same rows differs",
                  [rows |-> DiffRows(post, dbs[Ev.from])])
           /\ Chk(RefsJ(Ev.refs) = RefIndex(post), "C04",
                  "reference index of the reloaded database differs from the one recomputed from the rows",
                  [extra |-> RefsJ(Ev.refs) \ RefIndex(post), missing |-> RefIndex(post) \ RefsJ(Ev.refs)])
           /\ dbs' = Override(dbs, [k \in {Ev.db} |-> post])
    /\ UNCHANGED <<mons, cmons>>

DoTxn ==
    /\ Ev.ev = "txn"
    /\ CheckTxn(Ev, dbs[Ev.db])
    /\ CheckNotifs(Ev, dbs[Ev.db], DbJ(Ev.post), mons, l)
    /\ dbs' = [dbs EXCEPT ![Ev.db] = DbJ(Ev.post)]
    /\ UNCHANGED <<mons, cmons>>

DoMonitor ==
    /\ Ev.ev = "monitor"
    /\ CheckInitial(Ev, dbs[Ev.db], l)
    /\ mons' = Override(mons, [k \in {Ev.mon} |-> Ev])
    /\ UNCHANGED <<dbs, cmons>>

\* ---- a real client (monitor-fed cache): property C01
\* the tables and columns client Ev.cli monitors, over all its monitors
DoCMonitor ==
    /\ Ev.ev = "cmonitor"
    /\ cmons' = Override(cmons, [k \in {Ev.cli} |->
                    Override(IF Ev.cli \in DOMAIN cmons THEN cmons[Ev.cli] ELSE [t \in {} |-> 0], Ev.tables)])
    /\ UNCHANGED <<dbs, mons>>

\* what a cache fed by monitors over tables/columns mon must hold: for every
\* monitored table exactly the rows of the database, with the database's value in
\* every monitored column (C01 says nothing about the other columns); nothing
\* for tables that are not monitored
MonitoredPart(db, mon) ==
    [t \in Tables |->
        IF t \in DOMAIN mon
        THEN [u \in DOMAIN db[t] |-> [c \in Cols(t) \cap SeqToSet(mon[t]) |-> db[t][u][c]]]
        ELSE [u \in {} |-> 0]]

DoCache ==
    /\ Ev.ev = "cache"
    /\ LET mon == IF Ev.cli \in DOMAIN cmons THEN cmons[Ev.cli] ELSE [t \in {} |-> 0]
           want == MonitoredPart(dbs[Ev.db], mon)
           got == MonitoredPart(DbJ(Ev.rows), [t \in Tables |-> IF t \in DOMAIN mon THEN mon[t] ELSE <<>>])
       IN  Chk(got = want, IF Ev.when = "reconnected" THEN "C16" ELSE "C01",
               IF Ev.when = "reconnected" THEN "after reconnecting the client's cache did not converge to the monitored part of the database"
               ELSE "the client's cache is not the monitored part of the database",
               [cli |-> Ev.cli, when |-> Ev.when, rows |-> DiffRows(got, want)])
    /\ UNCHANGED <<dbs, mons, cmons>>

\* ---- cache events (property C14): every handler's callbacks, in delivery
\* order, folded over an empty table set reproduce the cache; every event is
\* legal where it stands (add of an absent row, update / delete of a row whose
\* current state is the event's old model); all handlers saw the same sequence
RECURSIVE FoldEvents(_, _, _)
\* tbls: table -> uuid -> row; returns [ok, at, tbls]
FoldEvents(tbls, evs, i) ==
    IF i > Len(evs) THEN [ok |-> TRUE, at |-> 0, tbls |-> tbls]
    ELSE LET e == evs[i]
             t == e.t
             cur == tbls[t]
         IN  IF t \notin Tables THEN [ok |-> FALSE, at |-> i, tbls |-> tbls]
             ELSE IF e.k = "add"
             THEN IF e.u \in DOMAIN cur THEN [ok |-> FALSE, at |-> i, tbls |-> tbls]
                  ELSE FoldEvents([tbls EXCEPT ![t] = Override(cur, [u \in {e.u} |-> RowJ(t, e.new)])], evs, i + 1)
             ELSE IF e.u \notin DOMAIN cur \/ cur[e.u] # RowJ(t, e.old) THEN [ok |-> FALSE, at |-> i, tbls |-> tbls]
             ELSE IF e.k = "update"
             THEN FoldEvents([tbls EXCEPT ![t] = [cur EXCEPT ![e.u] = RowJ(t, e.new)]], evs, i + 1)
             ELSE FoldEvents([tbls EXCEPT ![t] = Without(cur, {e.u})], evs, i + 1)

DoEvents ==
    /\ Ev.ev = "events"
    /\ Chk(Ev.err = "", "C14", "a handler was given a model that cannot be read", [cli |-> Ev.cli, err |-> Ev.err])
    /\ Chk(Ev.barrier, "C14", "the event of an applied change was never delivered to a handler", [cli |-> Ev.cli])
    /\ \A h \in DOMAIN Ev.handlers :
         LET f == FoldEvents(EmptyDB, Ev.handlers[h], 1)
         IN  /\ Chk(f.ok, "C14", "an event is illegal where it stands (old model is not the previous state of the row, or add of an existing row)",
                    [cli |-> Ev.cli, handler |-> h, index |-> f.at,
                     event |-> IF f.at > 0 THEN [k |-> Ev.handlers[h][f.at].k, t |-> Ev.handlers[h][f.at].t, u |-> Ev.handlers[h][f.at].u] ELSE [k |-> "", t |-> "", u |-> ""]])
             /\ f.ok => Chk(f.tbls = DbJ(Ev.rows), "C14", "the events of a handler do not reproduce the cache contents",
                            [cli |-> Ev.cli, handler |-> h, rows |-> DiffRows(f.tbls, DbJ(Ev.rows))])
    /\ Chk(\A g, h \in DOMAIN Ev.handlers : Ev.handlers[g] = Ev.handlers[h], "C14", "handlers saw different event sequences", [cli |-> Ev.cli])
    /\ UNCHANGED <<dbs, mons, cmons>>

\* ---- reconnect runs (property C16)
\* the database as observed once everything has settled (concurrent client
\* transactions are not recorded one by one in these runs)
DoSync ==
    /\ Ev.ev = "sync"
    /\ dbs' = Override(dbs, [k \in {Ev.db} |-> DbJ(Ev.post)])
    /\ UNCHANGED <<mons, cmons>>

DoReconn ==
    /\ Ev.ev = "reconn"
    /\ Chk(Ev.connected, "C16", "the client does not report being connected again after the faults stopped", [cli |-> Ev.cli])
    /\ UNCHANGED <<dbs, mons, cmons>>

\* a Transact call that returned results was applied exactly once, one that returned an error at most once
DoMarker ==
    /\ Ev.ev = "marker"
    /\ LET n == Cardinality({u \in DOMAIN dbs[Ev.db][Ev.table] : dbs[Ev.db][Ev.table][u].name = Ev.name})
       IN  IF Ev.outcome = "stuck"
           THEN Report("C16", "a Transact call in flight when the connection was lost has not returned long after its context expired (the client is wedged)", [marker |-> Ev.name])
           ELSE
           Chk(IF Ev.outcome = "results" THEN n = 1 ELSE n <= 1, "C16",
               "a Transact call that returned results was not applied exactly once (or one that returned an error more than once)",
               [marker |-> Ev.name, outcome |-> Ev.outcome, applied |-> n])
    /\ UNCHANGED <<dbs, mons, cmons>>

\* the client after a forced schedule: still connected, no Monitor call failed, nothing hangs
DoHealth ==
    /\ Ev.ev = "health"
    /\ Chk(Ev.connected /\ Len(Ev.monitorErrors) = 0, "C01",
           "monitor set-up racing a notification ended with a cache inconsistency (Monitor failed or the client disconnected)",
           [cli |-> Ev.cli, connected |-> Ev.connected, monitorErrors |-> Ev.monitorErrors])
    /\ Chk(Len(Ev.stuck) = 0, "C18", "a call did not return", [cli |-> Ev.cli, stuck |-> Ev.stuck])
    /\ UNCHANGED <<dbs, mons, cmons>>

Next ==
    \/ /\ l <= Len(Trace)
       /\ (DoReset \/ DoLoad \/ DoTxn \/ DoMonitor \/ DoCMonitor \/ DoCache \/ DoHealth \/ DoEvents \/ DoSync \/ DoReconn \/ DoMarker)
       /\ l' = l + 1
       /\ UNCHANGED done
    \/ /\ l = Len(Trace) + 1
       /\ ~done
       /\ PrintT(<<"TRACE-COMPLETE", Len(Trace)>>)
       /\ done' = TRUE
       /\ UNCHANGED <<l, dbs, mons, cmons>>

Spec == Init /\ [][Next]_vars
=============================================================================
