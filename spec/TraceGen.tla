------------------------------ MODULE TraceGen ------------------------------
(***************************************************************************)
(* Validation of recorded generator runs (C20): one event per (schema,     *)
(* extended on/off, enum types on/off).                                    *)
(***************************************************************************)
EXTENDS Mapper, Json
Trace == ndJsonDeserialize("trace.ndjson")
VARIABLES l, done
vars == <<l, done>>
Ev == Trace[l]
Report(prop, what, detail) == PrintT(<<"MISMATCH", ToJson([prop |-> prop, line |-> l, what |-> what, detail |-> detail])>>)
Chk(cond, prop, what, detail) == IF cond THEN TRUE ELSE Report(prop, what, detail)
Key == [id |-> Ev.id, extended |-> Ev.extended, enumTypes |-> Ev.enumTypes]

DoGen ==
    /\ Ev.ev = "gen"
    /\ IF Ev.genErr # "" THEN Report("C20", "the generator failed on a valid schema", [key |-> Key, err |-> Ev.genErr])
       ELSE /\ Chk(Ev.deterministic, "C20", "two runs of the generator on the same schema differ", [key |-> Key, file |-> Ev.differs])
            /\ IF ~Ev.builds THEN Report("C20", "the generated code does not compile", [key |-> Key, err |-> Ev.buildErr])
               ELSE /\ Chk(Ev.validates, "C20", "the generated model does not validate against the schema it was generated from", [key |-> Key, errs |-> Ev.validateErrs])
                    /\ \A t \in DOMAIN Ev.expect : \A c \in DOMAIN Ev.expect[t] :
                          Chk(t \in DOMAIN Ev.fieldTypes /\ c \in DOMAIN Ev.fieldTypes[t] /\ Ev.fieldTypes[t][c] = Ev.expect[t][c], "C20",
                              "a generated field does not have the type the mapper expects for its column",
                              [key |-> Key, table |-> t, column |-> c, expected |-> Ev.expect[t][c],
                               got |-> IF t \in DOMAIN Ev.fieldTypes /\ c \in DOMAIN Ev.fieldTypes[t] THEN Ev.fieldTypes[t][c] ELSE "no field"])
                    /\ Ev.extended =>
                          /\ Chk(Ev.laws.copyEqual, "C20", "a generated deep copy is not equal to the original", [key |-> Key, what |-> Ev.laws.detail])
                          /\ Chk(Ev.laws.noSharing, "C20", "a generated deep copy shares memory with the original", [key |-> Key, what |-> Ev.laws.detail])
                          /\ Chk(Ev.laws.equalsAgree, "C20", "generated Equals disagrees with the generic model.Equal", [key |-> Key, what |-> Ev.laws.detail])
                          /\ Chk(Ev.laws.cloneAgree, "C20", "generated DeepCopy disagrees with the generic model.Clone", [key |-> Key, what |-> Ev.laws.detail])

Init == l = 1 /\ done = FALSE
Next == \/ /\ l <= Len(Trace) /\ DoGen /\ l' = l + 1 /\ UNCHANGED done
        \/ /\ l = Len(Trace) + 1 /\ ~done /\ PrintT(<<"TRACE-COMPLETE", Len(Trace)>>) /\ done' = TRUE /\ UNCHANGED l
Spec == Init /\ [][Next]_vars
=============================================================================
