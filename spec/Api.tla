--------------------------------- MODULE Api ---------------------------------
(***************************************************************************)
(* The client's model API (client/api.go, client/condition.go,             *)
(* mapper.NewRow / NewMutation / NewEqualityCondition) as a function from  *)
(* an API call and the contents of the client's cache to the operations    *)
(* the call hands to Transact - or to an error.  The operations are the    *)
(* records of Txn.tla, so what a call MEANS is Txn(db, ApiOps(call, db)):  *)
(* the trace specification holds the transaction the real API produced,    *)
(* executed by the real server, against that.                              *)
(*                                                                         *)
(* A model is [uuid, cols]: uuid is the model's _uuid field ("" unset,     *)
(* "@name" a symbolic name, anything else a uuid), cols gives every column *)
(* a value in the JSON form of Values.tla (a Go struct has all its fields; *)
(* an untouched field holds the zero value = the column's default).        *)
(*                                                                         *)
(* A call is [kind, table, sel, models, fields, muts, until]:              *)
(*   kind    "create" | "update" | "mutate" | "delete" | "wait"            *)
(*   sel     [form, models, conds]  form "models": Where(models...),       *)
(*           "all": WhereAll(m, conds...), "any": WhereAny(m, conds...);   *)
(*           conds are <<column, function, value, shape>> as in Txn.tla    *)
(*   models  create: the models; update / mutate / wait: the one model     *)
(*   fields  the columns behind the field pointers given to Update / Wait  *)
(*   muts    <<column, mutator, value, shape>>                             *)
(***************************************************************************)
EXTENDS Txn

NoRec == [c \in {} |-> 0]
Op0 == [op |-> "", table |-> "", uuid |-> "", uuidName |-> "", where |-> <<>>, row |-> NoRec, rows |-> <<>>,
        columns |-> <<>>, hasColumns |-> FALSE, mutations |-> <<>>, until |-> "", timeout |-> 0, bad |-> FALSE,
        noUUID |-> FALSE]

IsName(u) == u # "" /\ SubSeq(u, 1, 1) = "@"
MV(t, m, c) == ValJ(Col(t, c), m.cols[c])
\* a boolean field is never taken for unset: Go cannot tell false from "not given" (ovsdb.IsDefaultValue)
IsDef(t, m, c) == /\ MV(t, m, c) = Default(Col(t, c))
                  /\ ~(Col(t, c).kind = "atom" /\ Col(t, c).key.t = "boolean")

\* mapper.NewRow: with field pointers exactly those columns, whatever they hold; without, every column that
\* does not hold its default value
RowCols(t, m, fields) == IF fields # {} THEN fields ELSE {c \in Cols(t) : ~IsDef(t, m, c)}
RowOf(t, m, cs) == [c \in cs |-> m.cols[c]]

\* ------------------------------------------------------------ selection
\* the cache answers a model by its uuid, else by the first schema index that finds a row, among the indexes
\* the model has any data for (an index none of whose fields is populated cannot stand for a row; client indexes
\* are not configured here)
IndexData(t, m, ix) == \A i \in DOMAIN ix : ~IsDef(t, m, ix[i])
IndexAnyData(t, m, ix) == \E i \in DOMAIN ix : ~IsDef(t, m, ix[i])
IndexHit(t, rows, m, ix) == {u \in DOMAIN rows : \A i \in DOMAIN ix : rows[u][ix[i]] = MV(t, m, ix[i])}
RECURSIVE FirstIndexHit(_, _, _, _)
FirstIndexHit(t, rows, m, k) ==
    IF k > Len(Schema.tables[t].indexes) THEN {}
    ELSE LET ix == Schema.tables[t].indexes[k]
             hit == IF IndexAnyData(t, m, ix) THEN IndexHit(t, rows, m, ix) ELSE {}
         IN  IF hit # {} THEN hit ELSE FirstIndexHit(t, rows, m, k + 1)
CacheByModel(t, rows, m) ==
    IF m.uuid # "" /\ m.uuid \in DOMAIN rows THEN {m.uuid} ELSE FirstIndexHit(t, rows, m, 1)

ByUUID(u) == <<<<"_uuid", "==", u, "atom">>>>
\* mapper.NewEqualityCondition: the uuid if the model has one, else the first index it has data for
RECURSIVE FirstValidIndex(_, _, _)
FirstValidIndex(t, m, k) ==
    IF k > Len(Schema.tables[t].indexes) THEN 0
    ELSE IF IndexData(t, m, Schema.tables[t].indexes[k]) THEN k ELSE FirstValidIndex(t, m, k + 1)
ModelConds(t, m) ==
    IF m.uuid # "" THEN ByUUID(m.uuid)
    ELSE LET ix == Schema.tables[t].indexes[FirstValidIndex(t, m, 1)]
         IN  [i \in DOMAIN ix |-> <<ix[i], "==", m.cols[ix[i]], IF Col(t, ix[i]).kind = "map" THEN "col" ELSE IF Col(t, ix[i]).kind = "atom" THEN "atom" ELSE "set">>]
ModelCondsError(t, m) == m.uuid = "" /\ FirstValidIndex(t, m, 1) = 0

\* sets in a fixed order, to make sequences of operations
RECURSIVE SetSeq(_)
SetSeq(S) == IF S = {} THEN <<>> ELSE LET x == CHOOSE x \in S : TRUE IN <<x>> \o SetSeq(S \ {x})

\* Conditional.Generate: [err, lists] - one list of conditions per operation.  Rows found in the cache are
\* addressed by their uuid; without a hit the conditions are those of the models / the ones given.
Generate(t, rows, sel) ==
    CASE sel.form = "models" /\ Len(sel.models) = 0 -> [err |-> TRUE, lists |-> <<>>]      \* at least one model
      [] sel.form \in {"all", "any"} /\ Len(sel.conds) = 0 -> [err |-> TRUE, lists |-> <<>>]  \* at least one condition
      [] sel.form \in {"all", "any"} /\ \E i \in DOMAIN sel.conds : ~CondWellFormed(t, sel.conds[i]) -> [err |-> TRUE, lists |-> <<>>]
      [] sel.form = "models" ->
            LET hits == UNION {CacheByModel(t, rows, sel.models[i]) : i \in DOMAIN sel.models}
            IN  IF hits # {} THEN [err |-> FALSE, lists |-> [i \in 1..Cardinality(hits) |-> ByUUID(SetSeq(hits)[i])]]
                ELSE IF \E i \in DOMAIN sel.models : ModelCondsError(t, sel.models[i]) THEN [err |-> TRUE, lists |-> <<>>]
                ELSE [err |-> FALSE, lists |-> [i \in DOMAIN sel.models |-> ModelConds(t, sel.models[i])]]
      [] sel.form = "all" ->
            LET hits == Select(t, rows, sel.conds)
            IN  IF hits # {} THEN [err |-> FALSE, lists |-> [i \in 1..Cardinality(hits) |-> ByUUID(SetSeq(hits)[i])]]
                ELSE [err |-> FALSE, lists |-> <<sel.conds>>]
      [] sel.form = "any" ->
            LET hits == UNION {Select(t, rows, <<sel.conds[i]>>) : i \in DOMAIN sel.conds}
            IN  IF hits # {} THEN [err |-> FALSE, lists |-> [i \in 1..Cardinality(hits) |-> ByUUID(SetSeq(hits)[i])]]
                ELSE [err |-> FALSE, lists |-> [i \in DOMAIN sel.conds |-> <<sel.conds[i]>>]]

\* the rows a selection stands for (what List() reports on a synchronised cache): a model stands for the row
\* with its uuid, else for the rows found through the first index it has data for that finds any; conditions for
\* the rows satisfying all / any of them
Meant(t, rows, sel) ==
    CASE sel.form = "models" -> UNION {CacheByModel(t, rows, sel.models[i]) : i \in DOMAIN sel.models}
      [] sel.form = "all" -> Select(t, rows, sel.conds)
      [] sel.form = "any" -> UNION {Select(t, rows, <<sel.conds[i]>>) : i \in DOMAIN sel.conds}

\* a selection that cannot be built (no model, no condition, an ordering function on a column that has no order)
\* lists nothing and reports an error
SelError(t, sel) ==
    \/ sel.form = "models" /\ Len(sel.models) = 0
    \/ sel.form \in {"all", "any"} /\ (Len(sel.conds) = 0 \/ \E i \in DOMAIN sel.conds : ~CondWellFormed(t, sel.conds[i]))

\* ------------------------------------------------------------ the calls
Err == [err |-> TRUE, ops |-> <<>>]
Ok(ops) == [err |-> FALSE, ops |-> ops]

\* Create: one insert per model; a symbolic name in _uuid becomes the uuid-name, a uuid the row's uuid,
\* otherwise the server chooses; the row leaves out the columns holding their default and never carries _uuid
CreateOp(t, m) ==
    [Op0 EXCEPT !.op = "insert", !.table = t,
                !.uuid = IF m.uuid = "" \/ IsName(m.uuid) THEN "" ELSE m.uuid,
                !.noUUID = (m.uuid = "" \/ IsName(m.uuid)),
                !.uuidName = IF IsName(m.uuid) THEN m.uuid ELSE "",
                !.row = RowOf(t, m, RowCols(t, m, {}))]
ApiCreate(call) == Ok([i \in DOMAIN call.models |-> CreateOp(call.table, call.models[i])])

Mutable(t, c) == Col(t, c).mut

\* Update: naming an immutable field is an error; immutable columns are dropped from the row; an empty row is
\* an error; one update per list of conditions
ApiUpdate(call, rows) ==
    LET t == call.table
        m == call.models[1]
        fs == SeqToSet(call.fields)
        cs == {c \in RowCols(t, m, fs) : Mutable(t, c)}
        g == Generate(t, rows, call.sel)
    IN  IF \E c \in fs : ~Mutable(t, c) THEN Err
        ELSE IF g.err THEN Err
        ELSE IF cs = {} THEN Err
        ELSE Ok([i \in DOMAIN g.lists |-> [Op0 EXCEPT !.op = "update", !.table = t, !.where = g.lists[i], !.row = RowOf(t, m, cs)]])

\* Mutate: at least one mutation, each valid for its column (ovsdb.ValidateMutation: arithmetic on numbers,
\* insert / delete on sets and maps, never on an immutable column)
MutationValid(t, mu) ==
    LET c == Col(t, mu[1])
    IN  /\ c.mut
        \* arithmetic on the elements of a set is not supported anywhere in the library (the engine refuses it as
        \* well): the API refuses it; "enums do not support mutation"
        /\ \/ /\ mu[2] \in ArithMutators /\ c.kind = "atom" /\ c.key.t \in {"integer", "real"} /\ Len(c.key.enum) = 0
              /\ mu[2] = "%=" => c.key.t = "integer"
              /\ mu[2] \in {"/=", "%="} => ~ArithDomainError(c.key.t, mu[2], mu[3])
           \/ mu[2] \in {"insert", "delete"} /\ c.kind \in {"set", "map"}
ApiMutate(call, rows) ==
    LET t == call.table
        g == Generate(t, rows, call.sel)
    IN  IF Len(call.muts) = 0 THEN Err
        ELSE IF g.err THEN Err
        ELSE IF \E i \in DOMAIN call.muts : ~MutationValid(t, call.muts[i]) THEN Err
        ELSE Ok([i \in DOMAIN g.lists |-> [Op0 EXCEPT !.op = "mutate", !.table = t, !.where = g.lists[i], !.mutations = call.muts]])

ApiDelete(call, rows) ==
    LET g == Generate(call.table, rows, call.sel)
    IN  IF g.err THEN Err
        ELSE Ok([i \in DOMAIN g.lists |-> [Op0 EXCEPT !.op = "delete", !.table = call.table, !.where = g.lists[i]]])

\* Wait (timeout 0): the columns behind the field pointers and a row holding the model's values for them;
\* without fields no column list and a row of the non-default columns
ApiWait(call, rows) ==
    LET t == call.table
        m == call.models[1]
        fs == SeqToSet(call.fields)
        g == Generate(t, rows, call.sel)
    IN  IF g.err THEN Err
        ELSE Ok([i \in DOMAIN g.lists |->
                    [Op0 EXCEPT !.op = "wait", !.table = t, !.where = g.lists[i], !.until = call.until,
                                !.columns = call.fields, !.hasColumns = (call.fields # <<>>),
                                !.rows = <<RowOf(t, m, RowCols(t, m, fs))>>]])

\* rows: the table's rows in the client's cache (the database's, the client being synchronised)
ApiOps(call, db) ==
    LET rows == db[call.table]
    IN  CASE call.kind = "create" -> ApiCreate(call)
          [] call.kind = "update" -> ApiUpdate(call, rows)
          [] call.kind = "mutate" -> ApiMutate(call, rows)
          [] call.kind = "delete" -> ApiDelete(call, rows)
          [] call.kind = "wait"   -> ApiWait(call, rows)

\* an insert without a uuid gets the one the server chose: in a trace the uuid its result reports, in the model
\* checker a fresh token
FillFresh(ops) == [i \in DOMAIN ops |-> IF ops[i].noUUID THEN [ops[i] EXCEPT !.uuid = "g" \o ToString(i)] ELSE ops[i]]
FillFrom(ops, results) ==
    [i \in DOMAIN ops |->
        IF ops[i].noUUID /\ i \in DOMAIN results /\ results[i].kind = "uuid" THEN [ops[i] EXCEPT !.uuid = results[i].uuid] ELSE ops[i]]

\* what a call means
ApiTxn(call, db) == Txn(db, FillFresh(ApiOps(call, db).ops))
=============================================================================
