----------------------------- MODULE TraceMerge -----------------------------
(***************************************************************************)
(* Validates accumulated updates computed by the real updates package      *)
(* (vh merge-cases) for the operation sequences enumerated by MC_Merge:    *)
(* the accumulated update must be the single net update (Merge!NetOK).     *)
(***************************************************************************)
EXTENDS Merge, Json

Trace == ndJsonDeserialize("trace.ndjson")
VARIABLES l, done
vars == <<l, done>>

MapV(j) == [k \in {j[i][1] : i \in DOMAIN j} |-> LET i == CHOOSE i \in DOMAIN j : j[i][1] = k IN j[i][2]]
RowV(r) == IF ~r.present THEN NoRow ELSE [a |-> r.a, o |-> SeqToSet(r.o), s |-> SeqToSet(r.s), m |-> MapV(r.m)]
OpV(op) ==
    [op |-> op.op, col |-> op.col, mut |-> op.mut, shape |-> op.shape,
     val |-> CASE op.op = "insert" -> RowV(op.val)
               [] op.op = "mutate2" ->
                    [i \in 1..2 |-> IF op.col = "s" \/ op.shape[i] = "keys" THEN SeqToSet(op.val[i]) ELSE MapV(op.val[i])]
               [] op.op = "delete" -> 0
               [] op.col = "a" -> op.val
               [] op.col \in {"o", "s"} -> SeqToSet(op.val)
               [] op.col = "m" /\ op.shape = "keys" -> SeqToSet(op.val)
               [] OTHER -> MapV(op.val)]
ModV(j) == [c \in DOMAIN j |-> CASE c = "a" -> j[c] [] c \in {"o", "s"} -> SeqToSet(j[c]) [] OTHER -> MapV(j[c])]

RECURSIVE Fold(_, _, _)
Fold(cur, ops, i) == IF i > Len(ops) THEN cur ELSE Fold(NextRow(cur, OpV(ops[i])), ops, i + 1)

Report(prop, what, detail) ==
    PrintT(<<"MISMATCH", ToJson([prop |-> prop, line |-> l, what |-> what, detail |-> detail])>>)
Chk(cond, prop, what, detail) == IF cond THEN TRUE ELSE Report(prop, what, detail)

Check(e) ==
    LET orig == RowV(e.orig)
        cur == Fold(orig, e.ops, 1)
        key == [group |-> e.group, orig |-> e.orig, ops |-> e.ops]
        acc == [kind |-> e.k, old |-> RowV(e.old), new |-> RowV(e.new), mod |-> ModV(e.modify)]
    IN
    /\ Chk(e.err = "", "C11", "accumulating the operations failed", [err |-> e.err, case |-> key])
    /\ e.err = "" =>
       /\ Chk(NetOK(acc, orig, cur), "C11", "the accumulated update is not the single net update",
              [got |-> [k |-> e.k, old |-> e.old, new |-> e.new, modify |-> e.modify],
               wantKind |-> CASE orig = NoRow /\ cur = NoRow -> "none" [] orig = NoRow -> "insert"
                              [] cur = NoRow -> "delete" [] orig = cur -> "none" [] OTHER -> "modify",
               case |-> key])
       /\ Chk(e.k = "insert" => RowV(e.insert) = cur, "C11", "insert followed by changes is not reported as one insert of the final row",
              [insert |-> e.insert, case |-> key])
       /\ Chk(RowV(e.getModel) = (IF e.k \in {"none", "delete"} THEN NoRow ELSE cur), "C11",
              "GetModel of the accumulated update is not the last new value", [getModel |-> e.getModel, case |-> key])

Init == l = 1 /\ done = FALSE
Next ==
    \/ /\ l <= Len(Trace) /\ Check(Trace[l]) /\ l' = l + 1 /\ UNCHANGED done
    \/ /\ l = Len(Trace) + 1 /\ ~done /\ PrintT(<<"TRACE-COMPLETE", Len(Trace)>>) /\ done' = TRUE /\ UNCHANGED l
Spec == Init /\ [][Next]_vars
=============================================================================
