----------------------------- MODULE TraceCond ------------------------------
(***************************************************************************)
(* Validates row selections performed by the real cache / transaction      *)
(* engine / conditional API (vh cond-cases) against Cond!Select: C08.      *)
(*  {"ev":"cond","group","idxcfg","via","rows":{u:row},"conds":[..],       *)
(*   "uuids":[..],"err":""}                                                *)
(***************************************************************************)
EXTENDS Cond

Trace == ndJsonDeserialize("trace.ndjson")
VARIABLES l, done
vars == <<l, done>>

RowV(t, jr) == [c \in Cols(t) |-> ValJ(Col(t, c), jr[c])]
Report(prop, what, detail) ==
    PrintT(<<"MISMATCH", ToJson([prop |-> prop, line |-> l, what |-> what, detail |-> detail])>>)
Chk(cond, prop, what, detail) == IF cond THEN TRUE ELSE Report(prop, what, detail)

\* WhereAny: rows matching at least one condition
SelectAny(t, tbl, conds) == {u \in DOMAIN tbl : \E i \in DOMAIN conds : CondTrue(t, u, tbl[u], conds[i])}

Check(e) ==
    LET tbl == [u \in DOMAIN e.rows |-> RowV("Q", e.rows[u])]
        want == IF e.mode = "any" THEN SelectAny("Q", tbl, e.conds) ELSE Select("Q", tbl, e.conds)
        got == SeqToSet(e.uuids)
        key == [group |-> e.group, idxcfg |-> e.idxcfg, via |-> e.via, mode |-> e.mode, conds |-> e.conds, rows |-> e.rows]
    IN  /\ Chk(e.err = "", "C08", "selecting rows failed", [err |-> e.err, case |-> key])
        /\ e.err = "" => Chk(got = want, "C08", "selected rows are not the rows satisfying the conditions",
                             [got |-> got, want |-> want, case |-> key])

Init == l = 1 /\ done = FALSE
Next ==
    \/ /\ l <= Len(Trace) /\ Check(Trace[l]) /\ l' = l + 1 /\ UNCHANGED done
    \/ /\ l = Len(Trace) + 1 /\ ~done /\ PrintT(<<"TRACE-COMPLETE", Len(Trace)>>) /\ done' = TRUE /\ UNCHANGED l
Spec == Init /\ [][Next]_vars
=============================================================================
