------------------------------ MODULE MC_LocksX -----------------------------
(***************************************************************************)
(* Locks.tla over the steps extracted from client/client.go by             *)
(* harness/lockx (LocksXData.tla: entry names and their step sequences).      *)
(* Every multiset of up to three entries runs concurrently; TLC's deadlock *)
(* check and NoLeak decide.  XOrderOK: every nested acquisition in the     *)
(* source follows the declared order.                                      *)
(***************************************************************************)
EXTENDS Locks, LocksXData
X == [names |-> XNames, steps |-> XStepSeqs, clean |-> XClean]
N == Len(XNames)
XSteps == [c \in {X.names[i] : i \in 1..N} |-> X.steps[CHOOSE i \in 1..N : X.names[i] = c]]
XProcSets == {[p \in {"a", "b", "c"} |-> X.names[CASE p = "a" -> t[1] [] p = "b" -> t[2] [] OTHER -> t[3]]] :
                 t \in {u \in (1..N) \X (1..N) \X (1..N) : u[1] <= u[2] /\ u[2] <= u[3]}}
XOrderOK == \A i \in 1..N : X.clean[i] => Ordered(X.steps[i])
XBad == {X.names[i] : i \in {j \in 1..N : X.clean[j] /\ ~Ordered(X.steps[j])}}
=============================================================================
