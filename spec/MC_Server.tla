------------------------------ MODULE MC_Server -----------------------------
EXTENDS Server
MCClients == {"c1", "c2", "c3", "c4"}
MCKind == [c \in MCClients |-> IF c \in {"c1", "c2"} THEN "inc" ELSE "claim"]
=============================================================================
