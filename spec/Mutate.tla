------------------------------- MODULE Mutate -------------------------------
(***************************************************************************)
(* RFC 7047 section 5.1 <mutation>: [column, mutator, value].              *)
(* Abstract encoding <<column, mutator, valueJson, shape>> with            *)
(*   arithmetic mutators: valueJson is one atom                            *)
(*   insert/delete on optional/set: valueJson is an array of atoms         *)
(*   insert on map: array of pairs; delete on map: array of pairs, or      *)
(*   (shape "keys") an array of keys.                                      *)
(***************************************************************************)
EXTENDS Cond

Mutators == ArithMutators \cup {"insert", "delete"}

\* [ok, v]: ok = FALSE is an error result (domain error, constraint violation,
\* not mutable, mutator not applicable to the column)
MutateValue(col, mut, arg, shape, v) ==
    LET bad == [ok |-> FALSE, v |-> v]
    IN
    IF ~col.mut THEN bad
    ELSE IF mut \in ArithMutators THEN
        IF col.kind = "map" \/ col.key.t \notin {"integer", "real"} \/ col.key.enum # <<>>
           \/ ArithDomainError(col.key.t, mut, arg)
        THEN bad
        ELSE IF col.kind = "atom"
             THEN [ok |-> TRUE, v |-> Arith(col.key.t, mut, v, arg)]
             ELSE [ok |-> TRUE, v |-> {Arith(col.key.t, mut, e, arg) : e \in v}]
    ELSE IF col.kind = "atom" THEN bad
    ELSE IF col.kind \in {"opt", "set"} THEN
        LET a == SeqToSet(arg)
        IN  IF mut = "insert" THEN [ok |-> TRUE, v |-> v \cup a]
            ELSE [ok |-> TRUE, v |-> v \ a]
    ELSE \* map
        IF mut = "insert" THEN
            LET a == ValJ(col, arg)
            IN  [ok |-> TRUE, v |-> Override(a, v)]     \* existing keys keep their value
        ELSE IF shape = "keys" THEN
            [ok |-> TRUE, v |-> Without(v, SeqToSet(arg))]
        ELSE
            LET a == ValJ(col, arg)
            IN  [ok |-> TRUE, v |-> Without(v, {k \in DOMAIN a : k \in DOMAIN v /\ v[k] = a[k]})]

\* a value respects the column's cardinality limits
CardOK(col, v) ==
    LET n == Card(col, v)
    IN  n >= col.min /\ (col.max = -1 \/ n <= col.max)

RECURSIVE MutateRow(_, _, _, _)
\* applies mutations[i..] to row; [ok, row]
MutateRow(t, row, muts, i) ==
    IF i > Len(muts) THEN [ok |-> TRUE, row |-> row]
    ELSE LET m == muts[i]
             c == m[1]
         IN  IF c \notin Cols(t) THEN [ok |-> FALSE, row |-> row]
             ELSE LET r == MutateValue(Col(t, c), m[2], m[3], m[4], row[c])
                  IN  IF ~r.ok THEN [ok |-> FALSE, row |-> row]
                      ELSE MutateRow(t, [row EXCEPT ![c] = r.v], muts, i + 1)
=============================================================================
