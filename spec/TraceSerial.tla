----------------------------- MODULE TraceSerial ----------------------------
(***************************************************************************)
(* Linearisation search for property C17.  A trace holds the calls of      *)
(* several concurrent clients (operations, results, invocation and         *)
(* response stamps of one global counter), the message sequence each       *)
(* monitoring peer received, and the final database.  TLC chooses the next *)
(* call to place among the calls not yet placed, respecting real time      *)
(* (a call that returned before another was invoked comes first); the      *)
(* placed call must have produced exactly the results the reference model  *)
(* (Txn.tla) computes on the current database, and, if it changed what a   *)
(* monitor watches, the monitor's next message must be the difference it   *)
(* made.  A monitor established while the clients run joins the order at   *)
(* one point between its request and its reply: its initial contents are   *)
(* the database there, its messages the changes made afterwards.  The      *)
(* trace is accepted iff some order places every call, joins every         *)
(* monitor, consumes every message and ends in the recorded final database.*)
(***************************************************************************)
EXTENDS Monitor

Traces == ndJsonDeserialize("trace.ndjson")

VARIABLES ti, db, placed, mpos, joined, done
vars == <<ti, db, placed, mpos, joined, done>>

RowJ(t, jrow) == [c \in Cols(t) |->
                    IF c \in DOMAIN jrow THEN ValJ(Col(t, c), jrow[c]) ELSE Default(Col(t, c))]
DbJ(post) == [t \in Tables |->
                IF t \in DOMAIN post THEN [u \in DOMAIN post[t] |-> RowJ(t, post[t][u])] ELSE [u \in {} |-> 0]]
ResJ(t, r) ==
    CASE r.kind = "uuid"  -> RUuid(r.uuid)
      [] r.kind = "count" -> RCount(r.count)
      [] r.kind = "rows"  -> RRows({<<r.rows[i].u, RowJ(t, r.rows[i].row)>> : i \in DOMAIN r.rows})
      [] r.kind = "empty" -> REmpty
      [] OTHER -> RError

T == Traces[ti]
Calls == T.calls

\* real-time order: c may be placed next only if no unplaced call returned before c was invoked - and no
\* monitor that is still to join had its reply before c was invoked
MayGoNext(c) == /\ \A d \in DOMAIN Calls \ placed : d # c => ~(Calls[d].ret < Calls[c].inv)
                /\ \A i \in DOMAIN T.mons : ~joined[i] => ~(T.mons[i].ret < Calls[c].inv)

\* a committed call must have the results of the reference model on the
\* current database; a failed call left the database as it was (whether the
\* reference would have failed too is the business of C02/C03: rejections
\* beyond the reference's are tolerated there as well)
ResultsAgree(call, r) ==
    IF call.committed
    THEN /\ r.ok
         /\ Len(call.results) = Len(call.ops)
         /\ \A i \in DOMAIN call.ops : ResJ(call.ops[i].table, call.results[i]) = r.results[i]
    ELSE TRUE

Init == /\ ti \in DOMAIN Traces
        /\ db = DbJ(Traces[ti].init)
        /\ placed = {}
        /\ mpos = [i \in DOMAIN Traces[ti].mons |-> 0]
        /\ joined = [i \in DOMAIN Traces[ti].mons |-> ~Traces[ti].mons[i].late]
        /\ done = FALSE

\* a monitor established while the clients run joins the order at one point: every call that returned before
\* the monitor request was sent has been placed, and what the reply reported is the database at that point
\* (these monitors watch every table and column)
Join(i) ==
    /\ ~joined[i]
    /\ \A d \in DOMAIN Calls \ placed : ~(Calls[d].ret < T.mons[i].inv)
    /\ DbJ(T.mons[i].init) = db
    /\ joined' = [joined EXCEPT ![i] = TRUE]
    /\ UNCHANGED <<ti, db, placed, mpos, done>>

Place(c) ==
    /\ c \notin placed /\ MayGoNext(c)
    /\ LET call == Calls[c]
           r == Txn(db, call.ops)
           post == IF call.committed THEN r.db ELSE db
       IN  /\ ResultsAgree(call, r)
           /\ db' = post
           /\ \A i \in DOMAIN T.mons :
                IF joined[i] /\ Concerns(T.mons[i], db, post)
                THEN /\ mpos[i] < Len(T.mons[i].msgs)
                     /\ MsgOK(T.mons[i], db, post, T.mons[i].msgs[mpos[i] + 1].tu)
                ELSE TRUE
           /\ mpos' = [i \in DOMAIN T.mons |-> IF joined[i] /\ Concerns(T.mons[i], db, post) THEN mpos[i] + 1 ELSE mpos[i]]
    /\ placed' = placed \cup {c}
    /\ UNCHANGED <<ti, joined, done>>

Finish ==
    /\ ~done /\ placed = DOMAIN Calls
    /\ \A i \in DOMAIN T.mons : joined[i] /\ mpos[i] = Len(T.mons[i].msgs)
    /\ db = DbJ(T.final)
    /\ PrintT(<<"ACCEPTED", ti>>)
    /\ done' = TRUE
    /\ UNCHANGED <<ti, db, placed, mpos, joined>>

Next == (\E c \in DOMAIN Calls : Place(c)) \/ (\E i \in DOMAIN T.mons : Join(i)) \/ Finish

Spec == Init /\ [][Next]_vars

\* ---- what C17 singles out, as invariants of every accepted linearisation:
\* the blind increments are all there, and no two rows share an index value
FinalCounterOK ==
    done => LET incs == Cardinality({c \in DOMAIN Calls : Calls[c].committed /\ Len(Calls[c].ops) = 1
                                        /\ Calls[c].ops[1].op = "mutate" /\ Len(Calls[c].ops[1].mutations) = 1
                                        /\ Calls[c].ops[1].mutations[1][1] = "x"})
            IN  \A u \in DOMAIN db["R"] : db["R"][u].name = "ctr" => db["R"][u].x = incs
FinalUnique == done => UniqueOK(db)
=============================================================================
