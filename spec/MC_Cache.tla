------------------------------ MODULE MC_Cache ------------------------------
EXTENDS Cache, Json

\* one CASE line per (configuration, state before, state after): the harness
\* applies the batch in every order on the real RowCache / TableCache
RowsJ(tbl) == [u \in Present(tbl) |-> tbl[u]]
CfgJ(c) == [id |-> c.id, f2col |-> c.f2col, indexes |-> c.indexes]
EmitInit == pending # {} => PrintT(<<"CASE", ToJson([cfg |-> CfgJ(cfg), pre |-> RowsJ(rows), post |-> RowsJ(target)])>>)
InitEmit == Init /\ EmitInit
SpecEmit == InitEmit /\ [][FALSE]_vars
=============================================================================
