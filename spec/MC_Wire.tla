------------------------------ MODULE MC_Wire -------------------------------
(***************************************************************************)
(* Case emission for C12 / C19 from Wire.tla, and the sanity laws of the   *)
(* meaning relation (reflexive on every valid encoding; a one-element set  *)
(* is its element; order of set elements and map pairs is immaterial; an   *)
(* absent member is its default; a corrupted encoding that is still valid  *)
(* is not Eq to the original unless it only reordered).                    *)
(***************************************************************************)
EXTENDS Wire, Json
CONSTANT Tier

Reflexive == \A T \in WireTypes : \A v \in Valid(T) : Eq(DescOf(T), v, v)
Laws == /\ Eq(Val, SetEnc(<<N(1)>>), N(1))
        /\ Eq(Val, SetEnc(<<N(1), N(0)>>), SetEnc(<<N(0), N(1)>>))
        /\ ~Eq(Val, SetEnc(<<N(1), N(0)>>), SetEnc(<<N(1)>>))
        /\ ~Eq(Val, SetEnc(<<>>), MapEnc(<<>>))
        /\ Eq(Val, MapEnc(<< <<S("a"), S("x")>>, <<S("b"), S("y")>> >>), MapEnc(<< <<S("b"), S("y")>>, <<S("a"), S("x")>> >>))
        /\ ~Eq(Val, MapEnc(<< <<S("a"), S("x")>> >>), MapEnc(<< <<S("a"), S("y")>> >>))
        /\ Eq([d |-> "base"], S("integer"), O([type |-> S("integer")]))
        /\ ~Eq([d |-> "base"], O([type |-> S("string"), minLength |-> N(2), maxLength |-> N(8)]), O([type |-> S("string"), minLength |-> N(8), maxLength |-> N(8)]))
        /\ Eq([d |-> "coltype"], S("string"), O([key |-> O([type |-> S("string")]), min |-> N(1), max |-> N(1)]))
        /\ ~Eq([d |-> "coltype"], O([key |-> S("string"), min |-> N(0)]), S("string"))
        /\ Eq(ColumnD, O([type |-> S("string")]), O([type |-> S("string"), mutable |-> B(TRUE), ephemeral |-> B(FALSE)]))
        /\ ~Eq(ColumnD, O([type |-> S("string")]), O([type |-> S("string"), mutable |-> B(FALSE)]))
        /\ Eq(OpD, O([op |-> S("select"), table |-> S("T"), where |-> A(<<>>)]), O([op |-> S("select"), table |-> S("T")]))
        /\ ~Eq(OpD, O([op |-> S("commit"), durable |-> B(FALSE)]), O([op |-> S("commit")]))
        /\ Eq(ResultD, O(<<>>), O([count |-> N(0)]))
        /\ ~Eq(ResultD, O([count |-> N(3)]), O(<<>>))
        /\ Eq(SelectD, O(<<>>), O([initial |-> B(TRUE), insert |-> B(TRUE), delete |-> B(TRUE), modify |-> B(TRUE)]))
        /\ ~Eq(SelectD, O([initial |-> B(FALSE)]), O(<<>>))

\* seeds whose corruptions are decoded in the quick tier
QuickValid(T) ==
    CASE T = "OvsMap" -> {v \in Valid(T) : Len(v.a[2].a) <= 1}
      [] T = "Operation" -> {v \in Valid(T) : ~Has(v, "where") \/ v.o.where \in {A(<<>>), A(<<A(<<S("c1"), S("=="), N(1)>>)>>)}}
      [] T \in {"Condition", "Mutation"} -> {v \in Valid(T) : v.a[3] \in {N(1), SetEnc(<<N(1), N(0)>>), MapEnc(<< <<S("a"), Uuid(U1)>> >>), Uuid(U1)}}
      [] T \in {"ColumnType", "ColumnSchema"} -> {v \in Valid(T) : IsO(v) /\ (Has(v, "value") \/ Has(v, "ephemeral") \/ (Has(v, "type") /\ IsO(v.o.type) /\ Has(v.o.type, "value")))}
      [] OTHER -> Valid(T)
Seeds(T) == IF Tier = "quick" THEN QuickValid(T) ELSE Valid(T)

EmitRT(x) == \A T \in WireTypes : \A v \in (IF Tier = "quick" THEN Valid(T) ELSE Valid(T) \cup DeepValid(T)) : PrintT(<<"CASE", ToJson([mode |-> "rt", t |-> T, tree |-> v])>>)
EmitBig(x) == \A p \in BigValid : PrintT(<<"CASE", ToJson([mode |-> "rt", t |-> p[1], tree |-> p[2]])>>)
EmitDec(x) == \A T \in WireTypes : \A c \in UNION {Corrupt(v) : v \in Seeds(T)} : PrintT(<<"CASE", ToJson([mode |-> "dec", t |-> T, tree |-> c])>>)
EmitSmall(x) == \A c \in (IF Tier = "quick" THEN Small1 ELSE Small2) : PrintT(<<"CASE", ToJson([mode |-> "small", t |-> "*", tree |-> c])>>)

\* ---- ill-formed transactions (C19): valid operations on table T of the harness' schema (c1 integer, c2 map of
\* strings, c3 set of weak references to T, c4 real, c5 string with an index, c6 set of integers), corrupted
R1 == Uuid(U1)
TxnOps ==
    {O([op |-> S("insert"), table |-> S("T"), row |-> O([c1 |-> N(5), c4 |-> Rl("0.5"), c5 |-> S("n")])]),
     O([op |-> S("insert"), table |-> S("T"), row |-> O([c1 |-> N(5), c4 |-> N(1), c5 |-> S("n"), c2 |-> MapEnc(<< <<S("a"), S("x")>> >>), c3 |-> SetEnc(<<R1, Uuid(U2)>>)])] @@ ("uuid-name" :> S("row1"))),
     O([op |-> S("select"), table |-> S("T"), where |-> A(<<>>)]),
     O([op |-> S("select"), table |-> S("T"), where |-> A(<<A(<<S("c1"), S("<"), N(3)>>), A(<<S("c3"), S("includes"), R1>>)>>), columns |-> A(<<S("c1"), S("c2")>>)]),
     O([op |-> S("update"), table |-> S("T"), where |-> A(<<A(<<S("_uuid"), S("=="), R1>>)>>), row |-> O([c2 |-> MapEnc(<<>>), c6 |-> SetEnc(<<N(1), N(3)>>)])]),
     O([op |-> S("delete"), table |-> S("T"), where |-> A(<<A(<<S("c5"), S("=="), S("zzz")>>)>>)]),
     O([op |-> S("wait"), table |-> S("T"), where |-> A(<<>>), columns |-> A(<<S("c1")>>), until |-> S("!="), rows |-> A(<<O([c1 |-> N(77)])>>), timeout |-> N(0)]),
     O([op |-> S("commit"), durable |-> B(FALSE)]), O([op |-> S("abort")]), O([op |-> S("comment"), comment |-> S("why")]), O([op |-> S("assert"), lock |-> S("l1")])}
    \cup {O([op |-> S("mutate"), table |-> S("T"), where |-> A(<<A(<<S("_uuid"), S("=="), R1>>)>>), mutations |-> A(<<A(<<S(c), S(m), v>>)>>)]) :
             c \in {"c1", "c4", "c6"}, m \in {"+=", "-=", "*=", "/=", "%="}, v \in {N(0), N(2), Rl("0.5")}}
    \cup {O([op |-> S("mutate"), table |-> S("T"), where |-> A(<<>>), mutations |-> A(<<A(<<S(c), S(m), v>>)>>)]) :
             c \in {"c2", "c3", "c6"}, m \in {"insert", "delete"}, v \in {MapEnc(<< <<S("a"), S("x")>> >>), SetEnc(<<S("a")>>), R1, SetEnc(<<N(1)>>), SetEnc(<<>>)}}
\* corrupted single operations (the whole request is an array of operations), and pairs of a sound and a corrupted one
TxnSeeds == IF Tier = "quick" THEN {o \in TxnOps : o.o.op # S("mutate") \/ o.o.mutations.a[1].a[3] \in {N(0), R1, SetEnc(<<>>)}} ELSE TxnOps
EmitTxn(x) == /\ \A o \in TxnOps : PrintT(<<"CASE", ToJson([mode |-> "txn", t |-> "Operations", tree |-> A(<<o>>)])>>)
              /\ \A o \in TxnSeeds : \A c \in Corrupt(o) : PrintT(<<"CASE", ToJson([mode |-> "txn", t |-> "Operations", tree |-> A(<<c>>)])>>)
              /\ \A o \in TxnSeeds : \A c \in {A(<<>>), A(<<o, Z>>), A(<<o, A(<<>>)>>), A(<<O([op |-> S("insert"), table |-> S("T"), row |-> O([c1 |-> N(9), c4 |-> N(1), c5 |-> S("m")])]), o>>)} :
                    PrintT(<<"CASE", ToJson([mode |-> "txn", t |-> "Operations", tree |-> c])>>)

\* ---- monitor requests, sound and corrupted, each followed by a commit that concerns the monitored table
MonReqsT == {O([T |-> r]) : r \in MonitorRequests} \cup {O(<<>>), O([T |-> O(<<>>), Nosuch |-> O([columns |-> A(<<S("c1")>>)])])}
EmitMon(x) == /\ \A m \in MonReqsT : PrintT(<<"CASE", ToJson([mode |-> "mon", t |-> "MonitorRequests", tree |-> m])>>)
              /\ \A m \in {O([T |-> r]) : r \in {O([columns |-> A(<<S("c1"), S("c2")>>), select |-> O([initial |-> B(FALSE)])]), O([select |-> O([modify |-> B(FALSE), delete |-> B(TRUE)])])}} :
                    \A c \in Corrupt(m) : PrintT(<<"CASE", ToJson([mode |-> "mon", t |-> "MonitorRequests", tree |-> c])>>)

\* ---- notifications a client receives for its monitor of table T: sound ones, ones naming a table or a column the
\* schema does not have, ill-typed rows, and every tree one edit away from two sound ones
RowU == "00000000-0000-4000-8000-00000000000a"
RowV == "00000000-0000-4000-8000-00000000000b"
Notifs2 == TU2 \cup {O([T |-> O(RowU :> O([insert |-> O([c1 |-> N(5), c5 |-> S("n")])]))]),
                     O([Nosuch |-> O(RowU :> O([insert |-> O([c1 |-> N(1)])]))]),
                     O([T |-> O(RowU :> O([insert |-> O([nocol |-> N(1)])]))]),
                     O([T |-> O(RowU :> O([modify |-> O([c1 |-> N(1)])]))]),
                     O([T |-> O(RowU :> O([delete |-> Z]))]),
                     O([T |-> O(RowU :> O([insert |-> O([c1 |-> S("x"), c2 |-> N(1), c3 |-> S("u"), c6 |-> MapEnc(<< <<N(1), N(2)>> >>)])]))]),
                     O([T |-> O(RowU :> Z)]), O([T |-> Z]),
                     \* a row update with more than one member, or none, for a row the client does not hold
                     O([T |-> O(RowV :> O([insert |-> O([c1 |-> N(1)]), modify |-> O([c1 |-> N(2)])]))]),
                     O([T |-> O(RowV :> O([initial |-> O([c1 |-> N(1)]), modify |-> O([c1 |-> N(2)])]))]),
                     O([T |-> O(RowV :> O([modify |-> O([c1 |-> N(2)]), delete |-> Z]))]),
                     O([T |-> O(RowV :> O([insert |-> O([c1 |-> N(1)]), delete |-> Z]))]),
                     O([T |-> O(RowV :> O([initial |-> O([c1 |-> N(1)]), insert |-> O([c1 |-> N(3)]), modify |-> O([c1 |-> N(2)]), delete |-> Z]))]),
                     O([T |-> O(RowV :> O(<<>>))])}
Notifs1 == TU1 \cup {O([Nosuch |-> O(RowU :> O([new |-> O([c1 |-> N(1)])]))]),
                     O([T |-> O(RowU :> O([new |-> O([nocol |-> N(1)])]))]),
                     O([T |-> O(RowU :> O([old |-> O([c1 |-> N(1)])]))]),
                     O([T |-> O(RowU :> O([old |-> O([c1 |-> N(1)]), new |-> O([c1 |-> S("x")])]))])}
EmitNotif(x) == /\ \A m \in Notifs2 : PrintT(<<"CASE", ToJson([mode |-> "notif", t |-> "TableUpdates2", tree |-> m])>>)
                /\ \A m \in Notifs1 : PrintT(<<"CASE", ToJson([mode |-> "notif", t |-> "TableUpdates", tree |-> m])>>)
                /\ \A c \in Corrupt(O([T |-> O(RowU :> O([insert |-> O([c1 |-> N(5), c2 |-> MapEnc(<< <<S("a"), S("b")>> >>)])]))])) :
                      PrintT(<<"CASE", ToJson([mode |-> "notif", t |-> "TableUpdates2", tree |-> c])>>)
                /\ \A c \in Corrupt(O([T |-> O(RowU :> O([new |-> O([c1 |-> N(5), c6 |-> SetEnc(<<N(1), N(2)>>)])]))])) :
                      PrintT(<<"CASE", ToJson([mode |-> "notif", t |-> "TableUpdates", tree |-> c])>>)
=============================================================================
