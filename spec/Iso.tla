--------------------------------- MODULE Iso --------------------------------
(***************************************************************************)
(* Isolation of cached models (property C13) as a small heap model.        *)
(* A model has inline fields (scalars) and reference fields (slice, map,   *)
(* pointer) whose contents live in heap cells.  The cache owns the cells   *)
(* of its row; a write path stores a copy of the caller's model, a read    *)
(* path hands out a copy.  The caller may then mutate what it holds        *)
(* (overwrite a scalar, append to / overwrite inside a slice, insert into  *)
(* a map, write through a pointer).  Invariant: the contents reachable     *)
(* from the cache never change except through a write path.                *)
(* Variant "copy" (intended) | "aliasIn" (a write path keeps the caller's  *)
(* cells) | "aliasOut" (a read path hands out the cache's cells): the two  *)
(* mutants must violate the invariant.                                     *)
(***************************************************************************)
EXTENDS Integers, Sequences, FiniteSets, TLC

CONSTANTS Variant, WritePaths, ReadPaths

RefFields == {"slice", "map", "ptr"}
Fields == {"scalar"} \cup RefFields
Mutations == [scalar : {"overwrite"}, slice : {"append", "overwriteElem"}, map : {"insertKey", "overwriteKey"}, ptr : {"writeThrough"}]

VARIABLES heap,        \* address -> contents (an integer standing for the whole value)
          nextAddr,
          cacheRow,    \* field -> address (ref fields) ; scalar kept in heap too for uniformity
          stored,      \* field -> the contents the cache must show (ghost)
          held,        \* models the caller holds: sequence of field -> address
          steps
vars == <<heap, nextAddr, cacheRow, stored, held, steps>>

Alloc(n) == nextAddr .. (nextAddr + n - 1)
FieldSeq == <<"scalar", "slice", "map", "ptr">>
Idx(f) == CHOOSE i \in 1..4 : FieldSeq[i] = f

\* a fresh copy of a model m (field -> address)
CopyOf(m, base) == [f \in Fields |-> base + Idx(f) - 1]
HeapAfterCopy(m, base) == [a \in DOMAIN heap \cup (base .. base + 3) |->
                              IF a \in base .. base + 3 THEN heap[m[FieldSeq[a - base + 1]]] ELSE heap[a]]

Init ==
    /\ heap = [a \in 1..4 |-> 10 + a] /\ nextAddr = 5
    /\ cacheRow = [f \in Fields |-> 0]          \* no row yet
    /\ stored = [f \in Fields |-> 0]
    /\ held = << [f \in Fields |-> Idx(f)] >>   \* the caller's own model, cells 1..4
    /\ steps = 0

\* the caller hands model held[h] to the cache through a write path
Write(p, h) ==
    /\ steps < 4
    /\ LET m == held[h]
       IN IF Variant = "aliasIn" /\ p = 1
          THEN /\ cacheRow' = m /\ UNCHANGED <<heap, nextAddr>>
          ELSE /\ cacheRow' = CopyOf(m, nextAddr)
               /\ heap' = HeapAfterCopy(m, nextAddr)
               /\ nextAddr' = nextAddr + 4
    /\ stored' = [f \in Fields |-> heap[held[h][f]]]
    /\ steps' = steps + 1
    /\ UNCHANGED held

\* a read path returns a model to the caller
Read(p) ==
    /\ steps < 4 /\ cacheRow["scalar"] # 0
    /\ IF Variant = "aliasOut" /\ p = 1
       THEN /\ held' = Append(held, cacheRow) /\ UNCHANGED <<heap, nextAddr>>
       ELSE /\ held' = Append(held, CopyOf(cacheRow, nextAddr))
            /\ heap' = HeapAfterCopy(cacheRow, nextAddr)
            /\ nextAddr' = nextAddr + 4
    /\ steps' = steps + 1
    /\ UNCHANGED <<cacheRow, stored>>

\* the caller mutates a model it holds; a scalar overwrite touches only the
\* caller's struct, the others write into the cell the field refers to
CallerMutate(h, f) ==
    /\ steps < 4
    /\ heap' = [heap EXCEPT ![held[h][f]] = @ + 100]
    /\ steps' = steps + 1
    /\ UNCHANGED <<nextAddr, cacheRow, stored, held>>

Next == \/ \E p \in DOMAIN WritePaths, h \in DOMAIN held : Write(p, h)
        \/ \E p \in DOMAIN ReadPaths : Read(p)
        \/ \E h \in DOMAIN held, f \in Fields : CallerMutate(h, f)
Spec == Init /\ [][Next]_vars

\* C13: what the cache shows is what was written, whatever callers did to their models
Isolated == cacheRow["scalar"] # 0 => \A f \in Fields : heap[cacheRow[f]] = stored[f]
\* the struct itself (the scalar) of a returned model is the caller's own even when the
\* cells are shared, so the scalar cannot be changed through an alias: only reference fields matter
=============================================================================
