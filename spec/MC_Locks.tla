------------------------------ MODULE MC_Locks ------------------------------
(***************************************************************************)
(* The protocol as documented (Variant "intended": the lock order          *)
(* rpc < monitors < cache < model < shutdown on every path) and the four   *)
(* protocols of the pinned commit, each of which TLC refutes:              *)
(*  "leak"      a failing Monitor returns with the model mutex read-locked *)
(*  "handler"   the disconnect handler takes cache, model, then monitors   *)
(*  "monitor"   Monitor takes monitors, then rpc (connect on reconnect and *)
(*              MonitorCancel take rpc, then monitors)                     *)
(***************************************************************************)
EXTENDS Locks, Json
CONSTANT Variant

MonitorSteps(fail) ==
    LET body == IF fail THEN IF Variant = "leak" THEN << <<"RL", "model">> >> ELSE << <<"RL", "model">>, <<"RU", "model">> >>
                ELSE << <<"RL", "model">>, <<"RU", "model">>, <<"L", "cache">>, <<"U", "cache">>, <<"L", "cache">>, <<"U", "cache">> >>
        n == Len(body)
    IN  IF Variant = "monitor"
        THEN << <<"L", "monitors">>, <<"RL", "rpc">>, <<"chk", n + 4>> >> \o body \o << <<"RU", "rpc">>, <<"U", "monitors">>, <<"ret", "">> >>
        ELSE << <<"RL", "rpc">>, <<"L", "monitors">>, <<"chk", n + 4>> >> \o body \o << <<"U", "monitors">>, <<"RU", "rpc">>, <<"ret", "">> >>

Cleanup == IF Variant = "handler"
           THEN << <<"L", "cache">>, <<"L", "model">>, <<"L", "monitors">>, <<"L", "shutdown">>, <<"U", "shutdown">>, <<"U", "monitors">>, <<"U", "model">>, <<"U", "cache">> >>
           ELSE << <<"L", "monitors">>, <<"L", "cache">>, <<"L", "model">>, <<"L", "shutdown">>, <<"U", "shutdown">>, <<"U", "model">>, <<"U", "cache">>, <<"U", "monitors">> >>
ConnectBody == << <<"L", "model">>, <<"U", "model">>, <<"L", "cache">>, <<"U", "cache">>, <<"RL", "model">>, <<"RU", "model">> >>
Restart == << <<"L", "monitors">>, <<"L", "cache">>, <<"U", "cache">>, <<"RL", "model">>, <<"RU", "model">>, <<"L", "cache">>, <<"U", "cache">>,
              <<"L", "cache">>, <<"U", "cache">>, <<"U", "monitors">> >>

MCSteps == [c \in {"MonitorOK", "MonitorFail", "Disconnect", "DisconnectReconnect", "Connect", "MonitorCancel", "Get", "Transact", "Echo", "Update", "Update3", "Close"} |->
    CASE c = "MonitorOK" -> MonitorSteps(FALSE)
      [] c = "MonitorFail" -> MonitorSteps(TRUE)
      [] c = "Disconnect" ->          \* Disconnect(), then the disconnect handler cleans up (no reconnect option)
           << <<"L", "rpc">>, <<"U", "rpc">>, <<"ret", "">>, <<"L", "rpc">>, <<"set", "down">>, <<"U", "rpc">> >> \o Cleanup
      [] c = "DisconnectReconnect" -> \* with the reconnect option the handler reconnects and restarts the monitors
           << <<"L", "rpc">>, <<"U", "rpc">>, <<"ret", "">>, <<"L", "rpc">>, <<"set", "down">>, <<"U", "rpc">>, <<"L", "cache">>, <<"U", "cache">>, <<"L", "rpc">> >>
           \o ConnectBody \o Restart \o << <<"set", "up">>, <<"U", "rpc">> >>
      [] c = "Connect" -> << <<"L", "rpc">> >> \o ConnectBody \o << <<"set", "up">>, <<"U", "rpc">>, <<"ret", "">> >>
      [] c = "MonitorCancel" -> << <<"L", "rpc">>, <<"chk", 5>>, <<"L", "monitors">>, <<"U", "monitors">>, <<"U", "rpc">>, <<"ret", "">> >>
      [] c = "Get" -> << <<"L", "monitors">>, <<"U", "monitors">>, <<"RL", "cache">>, <<"RU", "cache">>, <<"ret", "">> >>
      [] c = "Transact" -> << <<"RL", "rpc">>, <<"chk", 5>>, <<"RL", "model">>, <<"RU", "model">>, <<"RU", "rpc">>, <<"ret", "">> >>
      [] c = "Echo" -> << <<"RL", "rpc">>, <<"RU", "rpc">>, <<"ret", "">> >>
      [] c = "Update" -> << <<"L", "cache">>, <<"U", "cache">>, <<"RL", "cache">>, <<"RU", "cache">>, <<"ret", "">> >>
      [] c = "Update3" -> << <<"L", "cache">>, <<"U", "cache">>, <<"RL", "cache">>, <<"RU", "cache">>, <<"L", "monitors">>, <<"U", "monitors">>, <<"ret", "">> >>
      [] c = "Close" -> << <<"L", "rpc">>, <<"L", "shutdown">>, <<"U", "shutdown">>, <<"U", "rpc">>, <<"ret", "">> >>]

Mk(s) == [i \in {"a", "b", "c", "d", "e"} \cap {<<"a", "b", "c", "d", "e">>[k] : k \in 1..Len(s)} |->
            s[CHOOSE k \in 1..Len(s) : <<"a", "b", "c", "d", "e">>[k] = i]]
MCProcSets == {Mk(<<"MonitorFail", "Disconnect", "Connect", "Get">>),
               Mk(<<"MonitorOK", "Disconnect", "Connect">>),
               Mk(<<"MonitorOK", "DisconnectReconnect", "Get">>),
               Mk(<<"MonitorOK", "MonitorCancel", "Get">>),
               Mk(<<"MonitorOK", "MonitorOK", "MonitorCancel", "Close">>),
               Mk(<<"MonitorOK", "Transact", "Update", "Get", "Echo">>),
               Mk(<<"MonitorOK", "Disconnect", "Update3", "Transact">>),
               Mk(<<"MonitorFail", "DisconnectReconnect", "Update3", "Transact">>)}

\* the documented protocol follows the declared order on every path
OrderOK == \A c \in DOMAIN MCSteps : Ordered(MCSteps[c])

\* the call sequences replayed on a real client: a first call (failing in each way it can) followed by the others,
\* and the gated races (one goroutine parked at a pause point while the others start)
FirstCalls == {"MonitorUnknownTable", "MonitorNoTables", "MonitorBadMethod", "MonitorBuilderError", "MonitorWhenDisconnected", "TransactInvalid",
               "TransactWhenDisconnected", "GetNotFound", "MonitorCancelUnknown", "MonitorCancelWhenDisconnected", "EchoWhenDisconnected", "MonitorOK",
               "GatedDisconnectRace", "GatedReconnectMonitor", "GatedCancelMonitor"}
FollowUps == {<<"Disconnect", "Connect", "Get">>, <<"Get", "Transact", "Echo">>, <<"MonitorOK", "List", "Disconnect">>,
              <<"Disconnect", "Connect", "MonitorOK">>, <<"Transact", "Disconnect", "Connect">>, <<"Close", "Connect", "Transact">>,
              <<"MonitorOK", "MonitorCancel", "WhereDelete">>}
Emit == \A f \in FirstCalls, g \in FollowUps : PrintT(<<"CASE", ToJson([first |-> f, then |-> g])>>)
=============================================================================
