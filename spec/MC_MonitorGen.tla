---------------------------- MODULE MC_MonitorGen ---------------------------
EXTENDS MC_Txn, MonitorGen
Req(cols, ins, del, mod) == [columns |-> cols, initial |-> TRUE, insert |-> ins, delete |-> del, modify |-> mod]
Reqs == {[R |-> Req(<<"name", "sref", "wref", "x", "mkv">>, TRUE, TRUE, TRUE), N |-> Req(<<"name", "next", "v">>, TRUE, TRUE, TRUE)],
         [R |-> Req(<<"x", "oref">>, TRUE, FALSE, TRUE)],
         [N |-> Req(<<"name">>, FALSE, TRUE, TRUE), W |-> Req(<<"w1", "ow">>, TRUE, TRUE, FALSE)]}
NotifyProp == [][lastOk' => NotifyLaws(db, db', Reqs)]_vars
\* non-vacuity: TLC must refute this one (some transition owes somebody a message and the laws hold for it)
Vacuous == [][lastOk' /\ db' # db => ~NotifyLaws(db, db', Reqs)]_vars
=============================================================================
