-------------------------------- MODULE Locks -------------------------------
(***************************************************************************)
(* The client's lock protocol (client/client.go): which mutexes each API   *)
(* call and background goroutine takes, in which order.  Property C18      *)
(* (liveness part): no interleaving deadlocks, and every started call      *)
(* returns - also after an earlier call failed.                            *)
(*                                                                         *)
(* Mutexes: rpc (RW), model (RW), cache (RW), monitors, shutdown.          *)
(* Go's sync.RWMutex: a blocked Lock() blocks later RLock() calls.         *)
(* A call is a sequence of steps <<op, arg>>:                              *)
(*   "L" Lock, "U" Unlock, "RL" RLock, "RU" RUnlock of mutex arg;          *)
(*   "ret": the caller has its result (later steps belong to a goroutine   *)
(*          the call leaves behind);                                       *)
(*   "chk" k: the call looks at the connection and, finding it down,       *)
(*          jumps to step k (its early exit); "set" up|down;               *)
(*   "chkup", "chkdown": the same test in an extracted path (no-ops: the   *)
(*          path has already been chosen).                                 *)
(* The steps are a parameter: MC_Locks gives the protocol as documented    *)
(* (and the variants of the pinned commit), MC_LocksX the steps extracted  *)
(* from the source by harness/lockx.                                       *)
(***************************************************************************)
EXTENDS Integers, Sequences, FiniteSets, TLC

CONSTANTS StepsOf,     \* call name -> sequence of steps
          ProcSets     \* set of functions process -> call name: each is explored

Mutexes == {"rpc", "model", "cache", "monitors", "shutdown"}

VARIABLES procs, pc, writer, readers, waiting, returned, conn
vars == <<procs, pc, writer, readers, waiting, returned, conn>>

P == DOMAIN procs

Init == /\ procs \in ProcSets
        /\ pc = [p \in DOMAIN procs |-> 1]
        /\ writer = [m \in Mutexes |-> ""]
        /\ readers = [m \in Mutexes |-> {}]
        /\ waiting = [m \in Mutexes |-> {}]       \* processes blocked in Lock()
        /\ returned = [p \in DOMAIN procs |-> FALSE]
        /\ conn = "up"

Done(p) == pc[p] > Len(StepsOf[procs[p]])

Step(p) ==
    /\ ~Done(p)
    /\ UNCHANGED procs
    /\ LET s == StepsOf[procs[p]][pc[p]]
           op == s[1] m == s[2]
       IN CASE op = "ret" ->
                 /\ returned' = [returned EXCEPT ![p] = TRUE] /\ pc' = [pc EXCEPT ![p] = @ + 1]
                 /\ UNCHANGED <<writer, readers, waiting, conn>>
            [] op = "chk" ->
                 /\ pc' = [pc EXCEPT ![p] = IF conn = "down" THEN m ELSE @ + 1]
                 /\ UNCHANGED <<writer, readers, waiting, returned, conn>>
            [] op \in {"chkup", "chkdown"} ->
                 /\ pc' = [pc EXCEPT ![p] = @ + 1]
                 /\ UNCHANGED <<writer, readers, waiting, returned, conn>>
            [] op = "set" ->
                 /\ conn' = m /\ pc' = [pc EXCEPT ![p] = @ + 1]
                 /\ UNCHANGED <<writer, readers, waiting, returned>>
            [] op = "L" ->
                 IF writer[m] = "" /\ readers[m] = {}
                 THEN /\ writer' = [writer EXCEPT ![m] = p] /\ waiting' = [waiting EXCEPT ![m] = @ \ {p}]
                      /\ pc' = [pc EXCEPT ![p] = @ + 1] /\ UNCHANGED <<readers, returned, conn>>
                 ELSE \* blocks; announces itself so that new readers queue up behind it
                      /\ p \notin waiting[m]
                      /\ waiting' = [waiting EXCEPT ![m] = @ \cup {p}] /\ UNCHANGED <<pc, writer, readers, returned, conn>>
            [] op = "U" ->
                 /\ writer' = [writer EXCEPT ![m] = ""] /\ pc' = [pc EXCEPT ![p] = @ + 1]
                 /\ UNCHANGED <<readers, waiting, returned, conn>>
            [] op = "RL" ->
                 /\ writer[m] = "" /\ waiting[m] = {}
                 /\ readers' = [readers EXCEPT ![m] = @ \cup {p}] /\ pc' = [pc EXCEPT ![p] = @ + 1]
                 /\ UNCHANGED <<writer, waiting, returned, conn>>
            [] op = "RU" ->
                 /\ readers' = [readers EXCEPT ![m] = @ \ {p}] /\ pc' = [pc EXCEPT ![p] = @ + 1]
                 /\ UNCHANGED <<writer, waiting, returned, conn>>

AllDone == \A p \in P : Done(p)
\* TLC's deadlock check is the property: some call is not finished and nobody can move
Next == (\E p \in P : Step(p)) \/ (AllDone /\ UNCHANGED vars)
Spec == Init /\ [][Next]_vars
\* Every path is finite and a process that is not blocked can always move, so with TLC's deadlock check on
\* ("some call unfinished and nobody can move" is an error) every call returns under weak fairness.
\* nothing is left holding a lock when all is over
NoLeak == AllDone => \A m \in Mutexes : writer[m] = "" /\ readers[m] = {}

\* ---- the declared lock order: a mutex is only acquired while holding mutexes before it
Order == <<"rpc", "monitors", "cache", "model", "shutdown">>
Pos(m) == CHOOSE i \in 1..Len(Order) : Order[i] = m
RECURSIVE HeldAfter(_, _, _)
HeldAfter(steps, i, h) ==   \* multiset-free: the set of mutexes held after the first i steps
    IF i = 0 THEN h
    ELSE LET hh == HeldAfter(steps, i - 1, h) s == steps[i]
         IN  IF s[1] \in {"L", "RL"} THEN hh \cup {s[2]}
             ELSE IF s[1] \in {"U", "RU"} THEN hh \ {s[2]} ELSE hh
EdgesOf(steps) == {<<h, steps[i][2]>> : i \in {j \in 1..Len(steps) : steps[j][1] \in {"L", "RL"}}, h \in Mutexes} \cap
                  UNION {{<<h, steps[i][2]>> : h \in HeldAfter(steps, i - 1, {})} : i \in {j \in 1..Len(steps) : steps[j][1] \in {"L", "RL"}}}
Ordered(steps) == \A e \in EdgesOf(steps) : Pos(e[1]) < Pos(e[2])
=============================================================================
