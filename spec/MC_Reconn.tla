------------------------------ MODULE MC_Reconn -----------------------------
EXTENDS Reconn, Json
MCRows == {"r1", "r2"}
MCTableOf == [r \in MCRows |-> IF r = "r1" THEN "T1" ELSE "T2"]
MCMonitors2 == [m \in {"m1", "m2"} |-> IF m = "m1" THEN "T1" ELSE "T2"]
MCMonitors1 == [m \in {"m1"} |-> "T1"]
MCRows1 == {"r1"}
MCTableOf1 == [r \in MCRows1 |-> "T1"]

\* ---- the fault scenarios replayed on a real client behind the fault-injecting proxy
Methods == {"monitor", "monitor_cond", "monitor_cond_since"}
MethodSeqs == UNION {[1..n -> Methods] : n \in 1..3}
Cuts == [kind : {"cut"}, dir : {"c2s", "s2c"}, at : 1..4, inside : BOOLEAN, phase : {"steady", "reconnect"}, away : {0, 2, 3}]
Holes == [kind : {"blackhole"}, dir : {""}, at : {0}, inside : {FALSE}, phase : {"steady"}, away : {0, 3}]
\* a cut, then the reply of a restarted monitor held at the pause point while a transaction commits: the
\* interleaving ReadLoop (deferring the notification) before ApplyReply of Reconn.tla, forced on the real client
Gated == [kind : {"gated"}, dir : {""}, at : {0}, inside : {FALSE}, phase : {"reconnect"}, away : {0}]
SingleFaultCases == {[methods |-> ms, faults |-> <<f>>, seed |-> 1, since |-> FALSE] : ms \in MethodSeqs, f \in Cuts \cup Holes \cup Gated}
                    \cup {[methods |-> ms, faults |-> <<g, g>>, seed |-> 3, since |-> FALSE] : ms \in MethodSeqs, g \in Gated}
\* two faults in a row: a sample of the product (first fault x second fault), every method sequence of length 2
DoubleFaultCases == {[methods |-> ms, faults |-> <<f, g>>, seed |-> 2, since |-> FALSE]
                       : ms \in [1..2 -> Methods],
                         f \in {c \in Cuts : c.at \in {1, 3} /\ c.away = 2 /\ c.phase = "steady"},
                         g \in {c \in Cuts : c.at = 2 /\ c.away = 3}}
\* the same against a server that remembers transaction ids (ServerKnows), for the method sequences with a
\* monitor_cond_since monitor: every cut and silence, and two faults in a row
HasSince(ms) == \E i \in DOMAIN ms : ms[i] = "monitor_cond_since"
SinceCases == {[c EXCEPT !.since = TRUE] : c \in {x \in SingleFaultCases \cup DoubleFaultCases : HasSince(x.methods) /\ Len(x.methods) <= 2}}
ASSUME \A c \in SingleFaultCases \cup DoubleFaultCases \cup SinceCases : PrintT(<<"CASE", ToJson(c)>>)
=============================================================================
