----------------------------- MODULE MC_Mapper ------------------------------
EXTENDS Mapper, Json
CONSTANT Tier
Cols == IF Tier = "quick" THEN {c \in ColTypes : c.max \in {1, -1}} ELSE ColTypes
EmitTypes(x) == \A c \in ColTypes : \A g \in GoTypes \cup {NativeType(c)} : PrintT(<<"CASE", ToJson([mode |-> "mtype", col |-> c, gotype |-> g])>>)
EmitVals(x) == \A c \in Cols : \A v \in (IF Tier = "quick" THEN ValuesOf(c) ELSE ValuesOf(c) \cup DeepValuesOf(c)) : PrintT(<<"CASE", ToJson([mode |-> "map", col |-> c, gotype |-> NativeType(c), value |-> v])>>)
=============================================================================
