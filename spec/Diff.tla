-------------------------------- MODULE Diff --------------------------------
(***************************************************************************)
(* The update2 "modify" difference algebra of ovsdb-server(7):             *)
(*   set (max > 1): elements that belong to exactly one of the two sets    *)
(*   map: pairs whose key is in exactly one map, plus, for keys in both    *)
(*        with different values, the pair of the NEW map                   *)
(*   anything else (atoms, optionals): the new value                       *)
(* and its application by a peer:                                          *)
(*   set: each element of the difference toggles membership                *)
(*   map: key absent -> add the pair; same key and value -> remove;        *)
(*        same key, other value -> replace                                 *)
(*   anything else: overwrite.                                             *)
(* kind is "atom" | "opt" | "set" | "map".                                 *)
(***************************************************************************)
EXTENDS Values

SymDiff(a, b) == (a \ b) \cup (b \ a)

Diff(kind, a, b) ==
    CASE kind = "set" -> SymDiff(a, b)
      [] kind = "map" ->
            LET ks == {k \in DOMAIN a \cup DOMAIN b :
                          \/ k \notin DOMAIN a \/ k \notin DOMAIN b \/ a[k] # b[k]}
            IN  [k \in ks |-> IF k \in DOMAIN b THEN b[k] ELSE a[k]]
      [] OTHER -> b

Changed(a, b) == a # b

Apply(kind, a, d) ==
    CASE kind = "set" -> SymDiff(a, d)
      [] kind = "map" ->
            LET removed == {k \in DOMAIN d : k \in DOMAIN a /\ a[k] = d[k]}
                kept    == DOMAIN a \ removed
                added   == DOMAIN d \ removed
            IN  [k \in kept \cup added |-> IF k \in added THEN d[k] ELSE a[k]]
      [] OTHER -> d

\* the difference that takes o to Apply(Apply(o, d1), d2)
MergeDiff(kind, o, d1, d2) == Diff(kind, o, Apply(kind, Apply(kind, o, d1), d2))

\* a difference that changes nothing when applied
NoOpDiff(kind, a, d) == Apply(kind, a, d) = a

\* the laws of property C10, stated for one pair of values
LawChanged(kind, a, b) ==
    (CASE kind = "set" -> Diff(kind, a, b) = {}
       [] kind = "map" -> DOMAIN Diff(kind, a, b) = {}
       [] OTHER -> a = b) <=> (a = b)
LawApply(kind, a, b) == Apply(kind, a, Diff(kind, a, b)) = b
LawMerge(kind, o, a, b) ==
    Apply(kind, o, MergeDiff(kind, o, Diff(kind, o, a), Diff(kind, a, b))) = b
=============================================================================
