----------------------------- MODULE TraceCache -----------------------------
(***************************************************************************)
(* Validates executions of the real RowCache / TableCache recorded by      *)
(* `vh cache-cases`: each event is one batch (state before, state after,   *)
(* application order, path) together with what the cache answered          *)
(* afterwards through every read path.  The expected answers are those of  *)
(* a full scan of the state after (Cache.tla IndexOf).                     *)
(***************************************************************************)
EXTENDS Integers, Sequences, FiniteSets, TLC, Json

Trace == ndJsonDeserialize("trace.ndjson")

VARIABLES l, done
vars == <<l, done>>

SeqToSet(s) == {s[i] : i \in DOMAIN s}
IdxVal(ix, row) == [i \in DOMAIN ix.cols |-> row[ix.cols[i]]]
Present(tbl) == DOMAIN tbl
Groups(ix, tbl) == {{u \in Present(tbl) : IdxVal(ix, tbl[u]) = IdxVal(ix, tbl[w])} : w \in Present(tbl)}
Matching(ix, tbl, probe) == {u \in Present(tbl) : IdxVal(ix, tbl[u]) = IdxVal(ix, probe)}

Report(prop, what, detail) ==
    PrintT(<<"MISMATCH", ToJson([prop |-> prop, line |-> l, what |-> what, detail |-> detail])>>)
Chk(cond, prop, what, detail) == IF cond THEN TRUE ELSE Report(prop, what, detail)

\* a model is looked up through an index only if it holds a value (not "", not unset) in one of its columns
HasData(ix, probe) == \E i \in DOMAIN ix.cols : probe[ix.cols[i]] \notin {"", "nil"}

\* first index (of the given kinds, in configuration order) in which the probe's value occurs
RECURSIVE FirstHit(_, _, _, _, _)
FirstHit(cfg, tbl, probe, kinds, i) ==
    IF i > Len(cfg.indexes) THEN {}
    ELSE IF cfg.indexes[i].type \in kinds /\ HasData(cfg.indexes[i], probe) /\ Matching(cfg.indexes[i], tbl, probe) # {}
         THEN Matching(cfg.indexes[i], tbl, probe)
         ELSE FirstHit(cfg, tbl, probe, kinds, i + 1)

\* the cache orders schema indexes before client indexes
Ordered(cfg) ==
    [cfg EXCEPT !.indexes = SelectSeq(cfg.indexes, LAMBDA x : x.type = "schema")
                            \o SelectSeq(cfg.indexes, LAMBDA x : x.type = "client")]

CheckLookup(e, q) ==
    LET probe == [f1 |-> q.f1, f2 |-> q.f2]
        got == SeqToSet(q.uuids)
        cfg == Ordered(e.cfg)
        post == e.post
        want == CASE q.via = "byModel"  -> FirstHit(cfg, post, probe, {"schema"}, 1)
                  [] q.via = "byModels" -> FirstHit(cfg, post, probe, {"schema", "client"}, 1)
                  [] q.via = "cond1"    -> {u \in Present(post) : post[u].f1 = q.f1}
                  [] q.via = "cond2"    -> {u \in Present(post) : post[u].f2 = q.f2}
                  [] q.via = "cond12"   -> {u \in Present(post) : post[u].f1 = q.f1 /\ post[u].f2 = q.f2}
    IN  Chk(IF q.via = "byModel" THEN (IF want = {} THEN got = {} ELSE got \subseteq want /\ Cardinality(got) = 1)
            ELSE got = want,
            "C05", "lookup through the cache differs from a full scan",
            [via |-> q.via, f1 |-> q.f1, f2 |-> q.f2, got |-> got, want |-> want, cfg |-> e.cfg.id,
             order |-> e.order, path |-> e.path])

CheckEvent(e) ==
    /\ Chk(e.err = "", "C05", "applying the batch failed", [err |-> e.err, cfg |-> e.cfg.id, order |-> e.order, path |-> e.path])
    /\ Chk(e.rows = e.post, "C05", "rows after the batch are not the target rows", [cfg |-> e.cfg.id, order |-> e.order, path |-> e.path])
    /\ \A i \in DOMAIN e.cfg.indexes :
         LET ix == e.cfg.indexes[i]
             got == {SeqToSet(e.idx[ix.name][k]) : k \in DOMAIN e.idx[ix.name]}
         IN  Chk(got = Groups(ix, e.post), "C05", "index disagrees with the rows",
                 [index |-> ix.name, got |-> got, want |-> Groups(ix, e.post), cfg |-> e.cfg.id,
                  order |-> e.order, path |-> e.path])
    /\ \A i \in DOMAIN e.lookups : CheckLookup(e, e.lookups[i])
    /\ \A i \in DOMAIN e.cfg.indexes :
         LET ix == e.cfg.indexes[i]
             got == {SeqToSet(e.idx2[ix.name][k]) : k \in DOMAIN e.idx2[ix.name]}
         IN  Chk(got = Groups(ix, e.post), "C05", "an index no longer agrees with the rows after look-ups (a look-up changed it)",
                 [index |-> ix.name, got |-> got, want |-> Groups(ix, e.post), cfg |-> e.cfg.id, order |-> e.order, path |-> e.path])

Init == l = 1 /\ done = FALSE
Next ==
    \/ /\ l <= Len(Trace)
       /\ CheckEvent(Trace[l])
       /\ l' = l + 1
       /\ UNCHANGED done
    \/ /\ l = Len(Trace) + 1 /\ ~done
       /\ PrintT(<<"TRACE-COMPLETE", Len(Trace)>>)
       /\ done' = TRUE /\ UNCHANGED l
Spec == Init /\ [][Next]_vars
=============================================================================
