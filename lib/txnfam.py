"""The transaction family (C02 C03 C04 C06 C07 C15): random and enumerated
transactions run on the real engine / server, every event validated by TLC
against the reference model (TraceTxn.tla)."""
import json, os, shutil, time
from common import *

SPEC_FILES = ["Values.tla", "Schema.tla", "Cond.tla", "Mutate.tla", "Refs.tla", "Txn.tla", "Diff.tla",
              "Monitor.tla", "TraceTxn.tla"]


def validate_trace(d, timeout=900):
    """Runs TLC on d/trace.ndjson with d/schema.abs.json. Returns dict."""
    copy_spec(d, SPEC_FILES)
    with open(os.path.join(d, "TraceTxn.cfg"), "w") as f:
        f.write("SPECIFICATION Spec\nCHECK_DEADLOCK FALSE\n")
    rc, out, wall = run_tlc(d, "TraceTxn.tla", cfg="TraceTxn.cfg", workers=1, timeout=timeout)
    complete = tlc_prints(out, "TRACE-COMPLETE")
    if rc != 0 or not complete:
        raise Broken("trace validation did not complete (rc=%d):\n%s" % (rc, out[-3000:]))
    gen, dist = tlc_stats(out)
    return {"mismatches": tlc_prints(out, "MISMATCH"), "notes": tlc_prints(out, "NOTE"),
            "states": dist, "transitions": gen, "events": complete[0], "tlc_wall": wall}


def read_trace(path):
    with open(path) as f:
        return [json.loads(l) for l in f if l.strip()]


def record_and_validate(vh, job):
    """job: dict(schema, schema_seed, seed, mode, n, profile, reload, episode)."""
    with Scratch("txn") as sc:
        d = sc.dir
        rc, o, e = run([vh, "schema", "-schema", job["schema"], "-seed", str(job["schema_seed"]),
                        "-o", sc.path("schema.abs.json")])
        if rc != 0:
            raise Broken("vh schema failed: " + e[-2000:])
        cmd = [vh, "record-txn", "-schema", job["schema"], "-schema-seed", str(job["schema_seed"]),
               "-seed", str(job["seed"]), "-n", str(job["n"]), "-mode", job["mode"],
               "-profile", job.get("profile", ""), "-reload", str(job.get("reload", 0.0)),
               "-episode", str(job.get("episode", 40)), "-o", sc.path("trace.ndjson")]
        rc, o, e = run(cmd, timeout=900)
        if rc != 0:
            raise Broken("vh record-txn failed (%s): %s" % (job, e[-3000:]))
        res = validate_trace(d)
        res["job"] = job
        res["scenarios"] = {}
        for line in e.splitlines():
            if line.startswith("STATS "):
                try:
                    res["scenarios"] = json.loads(line[6:]) or {}
                except ValueError:
                    pass
        trace = read_trace(sc.path("trace.ndjson"))
        res["n_events"] = len(trace)
        res["txns"] = sum(1 for x in trace if x["ev"] == "txn")
        res["committed"] = sum(1 for x in trace if x["ev"] == "txn" and x["committed"])
        res["failed"] = res["txns"] - res["committed"]
        res["sample"] = next((x for x in trace if x["ev"] == "txn" and x["committed"] and len(x["ops"]) > 1), None)
        # keep what is needed to confirm mismatches
        res["cases"] = []
        if res["mismatches"]:
            schema = json.load(open(sc.path("schema.abs.json")))
            for m in res["mismatches"]:
                line = m.get("line", 0)
                res["cases"].append({"mismatch": m, "schema": schema, "mode": job["mode"],
                                     "events": episode_prefix(trace, line)})
        return res


def episode_prefix(trace, line):
    """Events from the last reset of database 0 before `line` (1-based) up to it."""
    start = 0
    for i in range(min(line, len(trace))):
        if trace[i]["ev"] == "reset" and trace[i]["db"] == 0:
            start = i
    return trace[start:line]


def confirm(vh, case):
    """Re-executes the recorded operations of a case in isolation; returns the
    mismatches found at the last event (same property and symptom)."""
    with Scratch("cfm") as sc:
        with open(sc.path("schema.abs.json"), "w") as f:
            json.dump(case["schema"], f)
        with open(sc.path("events.ndjson"), "w") as f:
            for e in case["events"]:
                f.write(json.dumps(e) + "\n")
        rc, o, e = run([vh, "replay-txn", "-schema-file", sc.path("schema.abs.json"), "-i", sc.path("events.ndjson"),
                        "-o", sc.path("trace.ndjson"), "-mode", case.get("mode", "direct")], timeout=600)
        if rc != 0:
            raise Broken("vh replay-txn failed: " + e[-2000:])
        res = validate_trace(sc.dir)
        trace = read_trace(sc.path("trace.ndjson"))
        want = case["mismatch"]
        got = [m for m in res["mismatches"] if m.get("prop") == want.get("prop") and m.get("what") == want.get("what")
               and m.get("line") == len(trace)]
        return got, trace
