"""Checks that need real clients attached to the real server: C01 (cache mirrors
the database). Recorded sessions are validated by TLC (TraceTxn.tla client events)."""
import json, os, time
from common import *
import txnfam, findings


def record_session(vh, job):
    with Scratch("sess") as sc:
        rc, o, e = run([vh, "schema", "-schema", job["schema"], "-seed", str(job["schema_seed"]), "-o", sc.path("schema.abs.json")])
        if rc != 0:
            raise Broken("vh schema failed: " + e[-2000:])
        cmd = [vh, "record-session", "-schema", job["schema"], "-schema-seed", str(job["schema_seed"]), "-seed", str(job["seed"]),
               "-n", str(job["n"]), "-clients", str(job.get("clients", 2)), "-profile", job.get("profile", "C01"),
               "-o", sc.path("trace.ndjson")]
        rc, o, e = run(cmd, timeout=1800)
        if rc != 0:
            raise Broken("vh record-session failed (%s): %s" % (job, e[-3000:]))
        res = txnfam.validate_trace(sc.dir)
        trace = txnfam.read_trace(sc.path("trace.ndjson"))
        res["job"] = job
        res["txns"] = sum(1 for x in trace if x["ev"] == "txn")
        res["cache_snapshots"] = sum(1 for x in trace if x["ev"] == "cache")
        res["monitors"] = sum(1 for x in trace if x["ev"] == "cmonitor")
        res["methods"] = sorted({x["method"] for x in trace if x["ev"] == "cmonitor"})
        res["sample"] = next((x for x in trace if x["ev"] == "cmonitor"), None)
        res["cases"] = []
        if res["mismatches"]:
            schema = json.load(open(sc.path("schema.abs.json")))
            for m in res["mismatches"]:
                res["cases"].append({"mismatch": m, "schema": schema, "events": txnfam.episode_prefix(trace, m.get("line", 0))})
        return res


def confirm_session(vh):
    def confirm(case):
        with Scratch("cfs") as sc:
            json.dump(case["schema"], open(sc.path("schema.abs.json"), "w"))
            with open(sc.path("events.ndjson"), "w") as f:
                for e in case["events"]:
                    f.write(json.dumps(e) + "\n")
            rc, o, e = run([vh, "replay-session", "-schema-file", sc.path("schema.abs.json"), "-i", sc.path("events.ndjson"),
                            "-o", sc.path("trace.ndjson")], timeout=900)
            if rc != 0:
                raise Broken("vh replay-session failed: " + e[-2000:])
            res = txnfam.validate_trace(sc.dir)
            trace = txnfam.read_trace(sc.path("trace.ndjson"))
            want = case["mismatch"]
            got = [m for m in res["mismatches"] if m.get("prop") == want.get("prop") and m.get("what") == want.get("what")
                   and m.get("line") == len(trace)]
            return got, trace
    return confirm


def session_jobs(prop, tier, sd):
    n = 120 if tier == "quick" else 600
    jobs = []
    for r in range(1 if tier == "quick" else 3):
        s = sd * 1000 + r
        jobs.append(dict(schema="small", schema_seed=1, seed=s, n=n, profile=prop))
        jobs.append(dict(schema="small", schema_seed=1, seed=s + 1, n=n, profile=prop, clients=3))
        jobs.append(dict(schema="kitchen", schema_seed=1, seed=s + 2, n=n, profile=prop))
        jobs.append(dict(schema="kitchen", schema_seed=1, seed=s + 3, n=n, profile=prop))
        for k in range(4 if tier == "quick" else 8):
            jobs.append(dict(schema="random", schema_seed=s * 13 + k, seed=s + 10 + k, n=n // 2, profile=prop))
    return jobs


def run_c01(prop, tier):
    t0 = time.time()
    vh = build_vh()
    sd = seed()
    jobs = session_jobs(prop, tier, sd)
    results = pmap(lambda j: record_session(vh, j), jobs)
    import checks_gates
    gates = checks_gates.run_c01_schedules(vh, tier, sd)
    cases = [c for r in results for c in r["cases"] if c["mismatch"].get("prop") == "C01"] + gates["cases"]
    other = sum(1 for r in results for c in r["cases"] if c["mismatch"].get("prop") != "C01")
    verdict = findings.adjudicate(prop, cases, lambda c: (checks_gates.confirm_schedule(vh)(c) if "schedule" in c else confirm_session(vh)(c)))
    cov = {"states": sum(r["states"] for r in results) + gates["states"], "transitions": sum(r["transitions"] for r in results) + gates["transitions"],
           "traces_validated_against_impl": len(results) + gates["traces"],
           "transactions": sum(r["txns"] for r in results), "cache_snapshots_validated": sum(r["cache_snapshots"] for r in results),
           "client_monitors": sum(r["monitors"] for r in results),
           "monitor_methods": sorted({m for r in results for m in r["methods"]}),
           "mismatches_for_other_properties": other,
           "schedules": gates["coverage"],
           "samples": [r["sample"] for r in results[:2] if r["sample"]] + gates["samples"][:1], "known_findings_seen": verdict["known"],
           "rule": "sessions of 2-3 real clients with first and additional monitors of every method over disjoint table sets and random column "
                   "subsets, established at random points of a random transaction history (own and foreign transactions); after every step each "
                   "client's whole cache is compared by TLC with the monitored part of the database; plus TLC-enumerated schedules of "
                   "Session.tla forced on real goroutines with the verif pause points"}
    write_evidence(prop, tier, "model_checking", cov, time.time() - t0, violations=len(verdict["violations"]),
                   assumptions=["the monitors of one client cover disjoint table sets",
                                "only monitored columns are compared (the statement does not constrain the others)"])
    return verdict
