"""Checks that need real clients attached to the real server: C01 (cache mirrors
the database). Recorded sessions are validated by TLC (TraceTxn.tla client events)."""
import json, os, time
from common import *
import txnfam, findings


def record_session(vh, job):
    with Scratch("sess") as sc:
        rc, o, e = run([vh, "schema", "-schema", job["schema"], "-seed", str(job["schema_seed"]), "-o", sc.path("schema.abs.json")])
        if rc != 0:
            raise Broken("vh schema failed: " + e[-2000:])
        cmd = [vh, "record-session", "-schema", job["schema"], "-schema-seed", str(job["schema_seed"]), "-seed", str(job["seed"]),
               "-n", str(job["n"]), "-clients", str(job.get("clients", 2)), "-profile", job.get("profile", "C01"),
               "-handlers", str(job.get("handlers", 0)), "-o", sc.path("trace.ndjson")]
        env = dict(os.environ)
        if job.get("gomaxprocs"):
            env["GOMAXPROCS"] = str(job["gomaxprocs"])
        rc, o, e = run(cmd, timeout=1800, env=env)
        if rc != 0:
            raise Broken("vh record-session failed (%s): %s" % (job, e[-3000:]))
        res = txnfam.validate_trace(sc.dir)
        trace = txnfam.read_trace(sc.path("trace.ndjson"))
        res["job"] = job
        res["txns"] = sum(1 for x in trace if x["ev"] == "txn")
        res["cache_snapshots"] = sum(1 for x in trace if x["ev"] == "cache")
        res["monitors"] = sum(1 for x in trace if x["ev"] == "cmonitor")
        res["event_checks"] = sum(1 for x in trace if x["ev"] == "events")
        res["callbacks"] = sum(len(h) for x in trace if x["ev"] == "events" for h in x["handlers"])
        res["sample_events"] = next((x["handlers"][0][:3] for x in trace if x["ev"] == "events" and x["handlers"] and len(x["handlers"][0]) >= 3), None)
        res["methods"] = sorted({x["method"] for x in trace if x["ev"] == "cmonitor"})
        res["sample"] = next((x for x in trace if x["ev"] == "cmonitor"), None)
        res["cases"] = []
        if res["mismatches"]:
            schema = json.load(open(sc.path("schema.abs.json")))
            for m in res["mismatches"]:
                res["cases"].append({"mismatch": m, "schema": schema, "events": txnfam.episode_prefix(trace, m.get("line", 0))})
        return res


def confirm_session(vh):
    def confirm(case):
        with Scratch("cfs") as sc:
            json.dump(case["schema"], open(sc.path("schema.abs.json"), "w"))
            with open(sc.path("events.ndjson"), "w") as f:
                for e in case["events"]:
                    f.write(json.dumps(e) + "\n")
            rc, o, e = run([vh, "replay-session", "-schema-file", sc.path("schema.abs.json"), "-i", sc.path("events.ndjson"),
                            "-o", sc.path("trace.ndjson")], timeout=900)
            if rc != 0:
                raise Broken("vh replay-session failed: " + e[-2000:])
            res = txnfam.validate_trace(sc.dir)
            trace = txnfam.read_trace(sc.path("trace.ndjson"))
            want = case["mismatch"]
            got = [m for m in res["mismatches"] if m.get("prop") == want.get("prop") and m.get("what") == want.get("what")
                   and m.get("line") == len(trace)]
            return got, trace
    return confirm


def session_jobs(prop, tier, sd):
    n = 120 if tier == "quick" else 600
    jobs = []
    for r in range(1 if tier == "quick" else 3):
        s = sd * 1000 + r
        jobs.append(dict(schema="small", schema_seed=1, seed=s, n=n, profile=prop))
        jobs.append(dict(schema="small", schema_seed=1, seed=s + 1, n=n, profile=prop, clients=3))
        jobs.append(dict(schema="kitchen", schema_seed=1, seed=s + 2, n=n, profile=prop))
        jobs.append(dict(schema="kitchen", schema_seed=1, seed=s + 3, n=n, profile=prop))
        for k in range(4 if tier == "quick" else 8):
            jobs.append(dict(schema="random", schema_seed=s * 13 + k, seed=s + 10 + k, n=n // 2, profile=prop))
    return jobs


def run_c01(prop, tier):
    t0 = time.time()
    vh = build_vh()
    sd = seed()
    jobs = session_jobs(prop, tier, sd)
    results = pmap(lambda j: record_session(vh, j), jobs)
    import checks_gates
    gates = checks_gates.run_c01_schedules(vh, tier, sd)
    cases = [c for r in results for c in r["cases"] if c["mismatch"].get("prop") == "C01"] + gates["cases"]
    other = sum(1 for r in results for c in r["cases"] if c["mismatch"].get("prop") != "C01")
    verdict = findings.adjudicate(prop, cases, lambda c: (checks_gates.confirm_schedule(vh)(c) if "schedule" in c else confirm_session(vh)(c)))
    cov = {"states": sum(r["states"] for r in results) + gates["states"], "transitions": sum(r["transitions"] for r in results) + gates["transitions"],
           "traces_validated_against_impl": len(results) + gates["traces"],
           "transactions": sum(r["txns"] for r in results), "cache_snapshots_validated": sum(r["cache_snapshots"] for r in results),
           "client_monitors": sum(r["monitors"] for r in results),
           "monitor_methods": sorted({m for r in results for m in r["methods"]}),
           "mismatches_for_other_properties": other,
           "schedules": gates["coverage"],
           "samples": [r["sample"] for r in results[:2] if r["sample"]] + gates["samples"][:1], "known_findings_seen": verdict["known"],
           "rule": "sessions of 2-3 real clients with first and additional monitors of every method over disjoint table sets and random column "
                   "subsets, established at random points of a random transaction history (own and foreign transactions); after every step each "
                   "client's whole cache is compared by TLC with the monitored part of the database; plus TLC-enumerated schedules of "
                   "Session.tla forced on real goroutines with the verif pause points"}
    write_evidence(prop, tier, "model_checking", cov, time.time() - t0, violations=len(verdict["violations"]),
                   assumptions=["the monitors of one client cover disjoint table sets",
                                "only monitored columns are compared (the statement does not constrain the others)"])
    return verdict


EV_CFG = 'SPECIFICATION Spec\nCONSTANTS Rows = {"r1","r2"}\n Handlers = {"h1","h2"}\n Capacity = 2\n MaxChanges = %d\n Variant = "%s"\nINVARIANTS SeenIsPrefix SameSequence FoldReproducesCache LegalAlternation\nCHECK_DEADLOCK FALSE\n'


def run_c14(prop, tier):
    t0 = time.time()
    vh = build_vh()
    sd = seed()
    with Scratch("mcev") as sc:
        copy_spec(sc.dir, ["Events.tla"])
        open(sc.path("MC.cfg"), "w").write(EV_CFG % (5 if tier == "quick" else 6, "intended"))
        rc, out, wall = run_tlc(sc.dir, "Events.tla", cfg="MC.cfg", workers=NCPU, timeout=3000)
        if "Model checking completed. No error has been found." not in out:
            raise Broken("Events.tla: the intended design violates C14 or TLC failed:\n" + out[-3000:])
        gen, dist = tlc_stats(out)
        open(sc.path("MCv.cfg"), "w").write(EV_CFG % (4, "perHandler"))
        rc, o2, w2 = run_tlc(sc.dir, "Events.tla", cfg="MCv.cfg", workers=4, timeout=900)
        if "is violated" not in o2:
            raise Broken("Events.tla: the perHandler variant is not refuted")
    jobs = []
    n = 150 if tier == "quick" else 700
    for i in range(8 if tier == "quick" else 24):
        schema = ["small", "kitchen", "random", "random"][i % 4]
        jobs.append(dict(schema=schema, schema_seed=sd * 7 + i, seed=sd * 1000 + i, n=n if schema != "random" else n // 2, profile="C01",
                         handlers=1 + i % 3, clients=1 + i % 2, gomaxprocs=[1, 2, 4, 16][i % 4]))
    results = pmap(lambda j: record_session(vh, j), jobs)
    # notifications applied directly to a cache, including ones it must reject (no event for a change that was not applied)
    djobs = [dict(schema=["small", "kitchen", "random"][i % 3], schema_seed=sd * 5 + i, seed=sd * 100 + i, n=12 if tier == "quick" else 60)
             for i in range(6 if tier == "quick" else 18)]
    dres = pmap(lambda j: events_direct(vh, j), djobs)
    cases = [c for r in results for c in r["cases"] if c["mismatch"].get("prop") == "C14"]
    dcases = [c for r in dres for c in r["cases"]]
    verdict = findings.adjudicate(prop, cases + dcases, lambda c: (confirm_direct(vh)(c) if "direct" in c else confirm_session(vh)(c)))
    results = results + dres
    cov = {"states": dist + sum(r["states"] for r in results), "transitions": gen + sum(r["transitions"] for r in results),
           "mc_states": dist, "variant_refuted": "perHandler",
           "traces_validated_against_impl": len(results), "event_sequences_validated": sum(r["event_checks"] for r in results),
           "callbacks_validated": sum(r["callbacks"] for r in results), "transactions": sum(r["txns"] for r in results),
           "rejected_notifications_exercised": sum(r.get("rejected_notifications", 0) for r in results),
           "samples": [r["sample_events"] for r in results if r.get("sample_events")][:2] or [{"note": "no handler saw three events"}],
           "known_findings_seen": verdict["known"],
           "rule": "1-3 recording handlers are registered on each real client's cache before any monitor; random histories (several rows per "
                   "notification, every monitor method) run under GOMAXPROCS 1/2/4/16; after a marker row has reached every handler (FIFO "
                   "barrier) TLC folds each handler's callbacks: every event legal where it stands, result = cache contents, all handlers equal"}
    write_evidence(prop, tier, "model_checking", cov, time.time() - t0, violations=len(verdict["violations"]),
                   assumptions=["fewer events outstanding than the buffer holds (65536)", "no reconnect during the history"])
    return verdict


def events_direct(vh, job):
    with Scratch("evd") as sc:
        rc, o, e = run([vh, "schema", "-schema", job["schema"], "-seed", str(job["schema_seed"]), "-o", sc.path("schema.abs.json")])
        if rc != 0:
            raise Broken("vh schema failed: " + e[-2000:])
        rc, o, e = run([vh, "events-direct", "-schema", job["schema"], "-schema-seed", str(job["schema_seed"]), "-seed", str(job["seed"]),
                        "-n", str(job["n"]), "-o", sc.path("trace.ndjson")], timeout=900)
        if rc != 0:
            raise Broken("vh events-direct failed: " + e[-3000:])
        res = txnfam.validate_trace(sc.dir)
        trace = txnfam.read_trace(sc.path("trace.ndjson"))
        evs = [x for x in trace if x["ev"] == "events"]
        res.update({"txns": 0, "cache_snapshots": 0, "monitors": 0, "methods": [], "sample": None,
                    "event_checks": len(evs), "callbacks": sum(len(h) for x in evs for h in x["handlers"]),
                    "rejected_notifications": sum(x.get("rejected", 0) for x in evs), "sample_events": None})
        res["cases"] = [{"mismatch": m, "direct": job} for m in res["mismatches"] if m.get("prop") == "C14"]
        return res


def confirm_direct(vh):
    def confirm(case):
        r = events_direct(vh, case["direct"])
        got = [c["mismatch"] for c in r["cases"] if c["mismatch"]["what"] == case["mismatch"]["what"]]
        return got, None
    return confirm
