"""Check C16: after losing its connection the client resynchronises completely."""
import json, os, random, re, time
from common import *
import txnfam, findings

CFG = 'SPECIFICATION Spec\nCONSTANTS Rows <- %s\n TableOf <- %s\n Monitors <- %s\n MaxTxns = %d\n MaxCuts = %d\n PurgeVariant = "%s"\n SinceVariant = "%s"\n ServerKnows = %s\nINVARIANT Resynchronised\nCHECK_DEADLOCK FALSE\n'
FILES = ["Reconn.tla", "MC_Reconn.tla", "Leader.tla", "MC_Leader.tla", "TraceLeader.tla"]
LCFG = 'SPECIFICATION Spec\nCONSTANTS\n Endpoints = {"A","B"}\n MaxEvents = %d\n Variant = "%s"\nINVARIANT AttachedToLeader\nPROPERTY Settles\nCHECK_DEADLOCK FALSE\n'


def model_check(tier):
    with Scratch("mcrec") as sc:
        copy_spec(sc.dir, FILES)
        tot_s = tot_t = 0
        cases = None
        for rows, tof, mons, knows in (("MCRows", "MCTableOf", "MCMonitors2", "FALSE"), ("MCRows1", "MCTableOf1", "MCMonitors1", "FALSE"),
                                       ("MCRows", "MCTableOf", "MCMonitors2", "TRUE"), ("MCRows1", "MCTableOf1", "MCMonitors1", "TRUE")):
            open(sc.path("MC.cfg"), "w").write(CFG % (rows, tof, mons, 3 if tier == "quick" else 4, 2, "intended", "intended", knows))
            rc, out, wall = run_tlc(sc.dir, "MC_Reconn.tla", cfg="MC.cfg", workers=NCPU, timeout=3000)
            if "Model checking completed. No error has been found." not in out:
                raise Broken("MC_Reconn: the intended design violates C16 or TLC failed:\n" + out[-3000:])
            g, d = tlc_stats(out)
            tot_s += d
            tot_t += g
            if cases is None:
                cases = tlc_prints(out, "CASE")
        open(sc.path("MCv.cfg"), "w").write(CFG % ("MCRows", "MCTableOf", "MCMonitors2", 3, 2, "pinned", "intended", "FALSE"))
        rc, o2, w2 = run_tlc(sc.dir, "MC_Reconn.tla", cfg="MCv.cfg", workers=4, timeout=900)
        if "Invariant Resynchronised is violated" not in o2:
            raise Broken("MC_Reconn: the pinned purge rule is not refuted")
        open(sc.path("MCs.cfg"), "w").write(CFG % ("MCRows", "MCTableOf", "MCMonitors2", 3, 2, "intended", "always", "TRUE"))
        rc, o3, w3 = run_tlc(sc.dir, "MC_Reconn.tla", cfg="MCs.cfg", workers=4, timeout=900)
        if "Invariant Resynchronised is violated" not in o3:
            raise Broken("MC_Reconn: quoting the last transaction id with several monitors is not refuted")
        return {"mc_states": tot_s, "mc_transitions": tot_t,
                "variants_refuted": ["pinned (every restarted monitor purges the cache)", "always (several monitors quote their last transaction id although the cache was emptied)"]}, cases


def leader_model_check():
    with Scratch("mcleader") as sc:
        copy_spec(sc.dir, FILES)
        open(sc.path("MC_Leader.tla"), "a").write("")
        src = open(sc.path("MC_Leader.tla")).read().replace("=============================================================================", "ASSUME Emit(0)\n=============================================================================")
        open(sc.path("MC_Leader.tla"), "w").write(src)
        open(sc.path("ML.cfg"), "w").write(LCFG % (5, "intended"))
        rc, out, wall = run_tlc(sc.dir, "MC_Leader.tla", cfg="ML.cfg", workers=4, timeout=900)
        if "Model checking completed. No error has been found." not in out:
            raise Broken("MC_Leader: the intended leader-only design fails or TLC failed:\n" + out[-3000:])
        g, d = tlc_stats(out)
        cases = tlc_prints(out, "CASE")
        open(sc.path("MLv.cfg"), "w").write(LCFG % (3, "sticky"))
        rc, o2, w2 = run_tlc(sc.dir, "MC_Leader.tla", cfg="MLv.cfg", workers=2, timeout=900)
        if "Invariant AttachedToLeader is violated" not in o2:
            raise Broken("MC_Leader: the sticky variant is not refuted")
        return {"leader_states": d, "leader_transitions": g}, cases


def run_leader(vh, cases):
    with Scratch("leader") as sc:
        copy_spec(sc.dir, FILES)
        with open(sc.path("cases.ndjson"), "w") as f:
            for c in cases:
                f.write(json.dumps(c) + "\n")
        rc, o, e = run([vh, "leader-cases", "-cases", sc.path("cases.ndjson"), "-o", sc.path("trace.ndjson")], timeout=3000)
        if rc != 0:
            raise Broken("vh leader-cases failed: " + e[-3000:])
        open(sc.path("T.cfg"), "w").write("SPECIFICATION Spec\nCHECK_DEADLOCK FALSE\n")
        rc, out, wall = run_tlc(sc.dir, "TraceLeader.tla", cfg="T.cfg", workers=1, timeout=900)
        complete = tlc_prints(out, "TRACE-COMPLETE")
        if rc != 0 or not complete:
            raise Broken("TraceLeader did not complete:\n" + out[-3000:])
        g, d = tlc_stats(out)
        mism = tlc_prints(out, "MISMATCH")
        trace = [json.loads(l) for l in open(sc.path("trace.ndjson")) if l.strip()]
        return {"mismatches": mism, "states": d, "transitions": g, "runs": len(trace), "sample": trace[-1] if trace else None,
                "cases": [{"mismatch": m, "leader": cases[m["detail"]["id"]]} for m in mism]}


def run_shards(vh, cases):
    nsh = min(NCPU, max(1, len(cases) // 8))
    shards = [cases[i::nsh] for i in range(nsh)]

    def one(sh):
        with Scratch("reconn") as sc:
            lines, stats, ran, crashes = [], [], [], []
            start = 0
            while start < len(sh):
                with open(sc.path("cases.ndjson"), "w") as f:
                    for c in sh[start:]:
                        f.write(json.dumps(c) + "\n")
                for fn in ("part.ndjson", "pstats.ndjson"):
                    if os.path.exists(sc.path(fn)):
                        os.remove(sc.path(fn))
                rc, o, e = run([vh, "reconn-cases", "-cases", sc.path("cases.ndjson"), "-o", sc.path("part.ndjson"), "-stats", sc.path("pstats.ndjson"),
                                "-schema-out", sc.path("schema.abs.json")], timeout=3000)
                pst = [json.loads(l) for l in open(sc.path("pstats.ndjson")) if l.strip()] if os.path.exists(sc.path("pstats.ndjson")) else []
                part = []
                if os.path.exists(sc.path("part.ndjson")):
                    for l in open(sc.path("part.ndjson")):
                        try:
                            part.append(json.loads(l))
                        except ValueError:
                            pass
                if rc == 0:
                    lines += part
                    stats += pst
                    ran += list(range(start, len(sh)))
                    break
                # the client panicking takes the harness process with it: that is an observation about the case
                # that was running, the others are run again after it
                if "panic:" not in e or "libovsdb/client" not in e:
                    raise Broken("vh reconn-cases failed: " + e[-3000:])
                done = len(pst)
                resets = [i for i, ev in enumerate(part) if ev["ev"] == "reset"]
                keep = resets[done] if done < len(resets) else len(part)
                lines += part[:keep]
                stats += pst
                ran += list(range(start, start + done))
                m = re.search(r"(panic: .*?)\n\n", e, re.S)
                crashes.append({"mismatch": {"prop": "C16", "line": 0, "what": "the client panicked while its connection was being lost or restored",
                                             "detail": {"msg": (m.group(1) if m else e[-1500:])[:1500]}}, "reconn": sh[start + done]})
                start = start + done + 1
                if len(crashes) >= 4:
                    break
            with open(sc.path("trace.ndjson"), "w") as f:
                for ev in lines:
                    f.write(json.dumps(ev) + "\n")
            if lines:
                res = txnfam.validate_trace(sc.dir, timeout=3000)
            else:
                res = {"mismatches": [], "notes": [], "states": 0, "transitions": 0, "events": 0}
            resets = [i for i, ev in enumerate(lines) if ev["ev"] == "reset"]
            res["cases"] = list(crashes)
            for m in res["mismatches"]:
                k = max(j for j, pos in enumerate(resets) if pos < m["line"])
                res["cases"].append({"mismatch": m, "reconn": sh[ran[k]]})
            res["mismatches"] = res["mismatches"] + [c["mismatch"] for c in crashes]
            res["runs"] = len(stats) + len(crashes)
            res["faults_fired"] = sum(s["fired"] for s in stats)
            res["markers"] = sum(s["markers"] for s in stats)
            res["since_found"] = sum(s.get("sinceFound", 0) for s in stats)
            res["sample"] = {"case": sh[0], "stats": stats[0]} if stats else None
            return res
    return pmap(one, shards)


def confirm_fn(vh):
    def confirm(case):
        if "leader" in case:
            r = run_leader(vh, [case["leader"]])
            return [m for m in r["mismatches"] if m["what"] == case["mismatch"]["what"]], None
        res = run_shards(vh, [case["reconn"]])
        want = case["mismatch"]
        got = [c["mismatch"] for r in res for c in r["cases"] if c["mismatch"]["what"] == want["what"]]
        return got, None
    return confirm


def run_check(prop, tier):
    t0 = time.time()
    vh = build_vh()
    sd = seed()
    cov, cases = model_check(tier)
    total = len(cases)
    rnd = random.Random(sd)
    rnd.shuffle(cases)
    multi = [c for c in cases if len(c["methods"]) > 1]
    single = [c for c in cases if len(c["methods"]) == 1]
    gated = [c for c in cases if any(f["kind"] == "gated" for f in c["faults"])]
    since = [c for c in cases if c.get("since")]
    # a single monitor_cond_since monitor, found = true, the reply held back while others commit, and a second loss of
    # the connection: always run, three times each (the interleaving inside the held reply is the scheduler's)
    held = [c for c in since if len(c["methods"]) == 1 and c["faults"][0]["kind"] == "gated" and len(c["faults"]) == 2]
    sel = (gated + [c for c in multi if c not in gated and not c.get("since")][:160] + [c for c in single if c not in gated and not c.get("since")][:50]
           + [c for c in since if len(c["methods"]) == 1][:30] + [c for c in since if len(c["methods"]) > 1][:40]) if tier == "quick" else cases
    sel = sel + held * 2
    res = run_shards(vh, sel)
    lcov, lcases = leader_model_check()
    lsh = [lcases[i::8] for i in range(8)]
    lres = pmap(lambda sh: run_leader(vh, sh), [x for x in lsh if x])
    allc = [c for r in res for c in r["cases"] if c["mismatch"].get("prop") == "C16"] + [c for r in lres for c in r["cases"]]
    cov.update(lcov)
    cov.update({"leader_histories_run": sum(r["runs"] for r in lres), "leader_sample": lres[0]["sample"] if lres else None})
    verdict = findings.adjudicate(prop, allc, confirm_fn(vh))
    cov.update({"states": cov["mc_states"] + lcov["leader_states"] + sum(r["states"] for r in res + lres),
                "transitions": cov["mc_transitions"] + lcov["leader_transitions"] + sum(r["transitions"] for r in res + lres),
                "traces_validated_against_impl": len(res) + len(lres), "scenarios_enumerated": total, "scenarios_run": sum(r["runs"] for r in res),
                "faults_fired": sum(r["faults_fired"] for r in res), "client_transactions_with_markers": sum(r["markers"] for r in res),
                "scenarios_with_a_server_that_remembers_transactions": len([c for c in sel if c.get("since")]),
                "replies_with_found_true": sum(r.get("since_found", 0) for r in res),
                "samples": [r["sample"] for r in res[:2] if r.get("sample")], "known_findings_seen": verdict["known"],
                "rule": "TLC checks Reconn.tla (cuts at any point, sequential monitor restarts, commits by others meanwhile) for 1 and 2 monitors and refutes "
                        "the pinned purge rule; it enumerates fault scenarios (1-3 monitors of any method; cut after / inside the k-th message of either "
                        "direction in steady state or again while reconnecting; silent peer detected by the inactivity probe; 0-3 transactions by others "
                        "while away; two faults in a row; against a server that answers monitor_cond_since with found = false and, through the proxy's since mode, "
                        "against one that remembers the last transaction id and sends the difference only); each runs on a real client with reconnect behind a message-boundary aware proxy; once connected "
                        "again the cache must converge to the database and every marked Transact call must be applied exactly / at most once; "
                        "Leader.tla (TLC: attached to a leader once the row has been seen, settles under fairness; sticky variant refuted) enumerates leadership "
                        "histories run on a real leader-only client with two servers"})
    write_evidence(prop, tier, "model_checking", cov, time.time() - t0, violations=len(verdict["violations"]),
                   assumptions=["convergence is awaited for 15 s after the faults stop", "leader-only: two endpoints with their own databases and _Server rows; every history of up to three leadership changes from every initial pair of flags"])
    return verdict
