"""Checks C12 (wire encoding round-trips) and C19 (no input crashes the library), both on Wire.tla.

Wire.tla is a grammar of JSON trees for every wire type plus a type-directed meaning relation Eq.
 C12: TLC checks the laws of Eq and enumerates every valid encoding of the bounded grammar; each is decoded, encoded
      and decoded again by the real codecs; TraceWire.tla demands that the re-encoding means the same (Eq) and that the
      two decoded values are equal; error results go through CheckOperationResults / ResultFromError and back.
 C19: TLC enumerates every tree one local edit away from a valid encoding and every small tree; each goes to the
      decoders under recover; corrupted transactions go to the transaction engine and, as raw requests followed by an
      echo, to a real server (a crash of the process is attributed to the request being served).
"""
import json, os, re, time
from common import *
import findings

FILES = ["Wire.tla", "MC_Wire.tla", "TraceWire.tla", "Mapper.tla", "MC_Mapper.tla", "TraceMapper.tla", "MC_Gen.tla", "TraceGen.tla"]


def tlc_cases(tier, asserts, tag="mcw", base="MC_Wire"):
    """Runs MC_Wire (or MC_Mapper) with the given ASSUME lines; returns (cases, stats)."""
    with Scratch(tag) as sc:
        copy_spec(sc.dir, FILES)
        open(sc.path("MCW.tla"), "w").write("---- MODULE MCW ----\nEXTENDS " + base + "\n" + "\n".join("ASSUME " + a for a in asserts) + "\n====\n")
        open(sc.path("MCW.cfg"), "w").write('CONSTANT Tier = "%s"\n' % tier)
        rc, out, wall = run_tlc(sc.dir, "MCW.tla", cfg="MCW.cfg", workers=1, timeout=3000, heap="6g")
        if "Model checking completed. No error has been found." not in out:
            raise Broken("MC_Wire failed (a law of the meaning relation does not hold, or TLC failed):\n" + out[-3000:])
        return tlc_prints(out, "CASE"), wall


def run_wire(vh, cases, name="wire", trace_spec="TraceWire.tla"):
    """Runs the cases on the codecs and validates the trace with TraceWire.tla. Restarts after a crash of the harness
    process (a panic in the server's connection goroutine), attributing it to the request being served."""
    with Scratch(name) as sc:
        copy_spec(sc.dir, FILES)
        with open(sc.path("cases.ndjson"), "w") as f:
            for c in cases:
                f.write(json.dumps(c) + "\n")
        byid = {}
        skip = 0
        crashes = 0
        while True:
            cur = sc.path("part.ndjson.current")
            if os.path.exists(cur):
                os.remove(cur)
            rc, o, e = run([vh, "wire-cases", "-cases", sc.path("cases.ndjson"), "-o", sc.path("part.ndjson"), "-skip", str(skip)], timeout=3000)
            part = []
            if os.path.exists(sc.path("part.ndjson")):
                for l in open(sc.path("part.ndjson")):
                    try:
                        part.append(json.loads(l))
                    except ValueError:
                        pass            # a line cut short by the crash
            for ev in part:
                byid.setdefault(ev["id"], ev)
            if rc == 0:
                break
            if "panic:" not in e and "fatal error:" not in e:
                raise Broken("vh wire-cases failed: " + e[-3000:])
            crashes += 1
            if not os.path.exists(cur):
                raise Broken("vh wire-cases crashed outside a server request: " + e[-3000:])
            dead = int(open(cur).read().strip())
            m = re.search(r"(panic: .*?)\n\n", e, re.S)
            msg = (m.group(1) if m else e[-1500:])[:1500]
            byid[dead] = {"ev": "wtxn", "mode": cases[dead].get("mode", "server") if dead < len(cases) else "server", "outcome": "crash", "alive": False, "msg": msg, "id": dead}
            skip = dead + 1
            if crashes >= 8:
                break               # enough crashes to report; the rest of the shard is not run
        uniq = [byid[i] for i in sorted(byid)]
        if crashes < 8 and len(uniq) != len(cases):
            raise Broken("vh wire-cases answered %d of %d cases" % (len(uniq), len(cases)))
        with open(sc.path("trace.ndjson"), "w") as f:
            for ev in uniq:
                f.write(json.dumps(ev) + "\n")
        open(sc.path("T.cfg"), "w").write("SPECIFICATION Spec\nCHECK_DEADLOCK FALSE\n")
        rc, out, wall = run_tlc(sc.dir, trace_spec, cfg="T.cfg", workers=1, timeout=3000, heap="6g")
        complete = tlc_prints(out, "TRACE-COMPLETE")
        if rc != 0 or not complete:
            raise Broken(trace_spec + " did not complete:\n" + out[-3000:])
        g, d = tlc_stats(out)
        mism = tlc_prints(out, "MISMATCH")
        return {"mismatches": mism, "states": d, "transitions": g, "events": uniq, "crashes": crashes,
                "cases": [{"mismatch": m, "wire": cases[case_id(m)] if case_id(m) is not None else None} for m in mism]}


def case_id(m):
    d = m.get("detail", {})
    if "id" in d:
        return d["id"]
    return d.get("key", {}).get("id")


def shard_run(vh, cases, n=None, trace_spec="TraceWire.tla"):
    n = n or min(NCPU, max(1, len(cases) // 1500))
    shards = [cases[i::n] for i in range(n)]
    return pmap(lambda sh: run_wire(vh, sh, trace_spec=trace_spec), shards)


def confirm_fn(vh, trace_spec="TraceWire.tla"):
    def confirm(case):
        if case.get("wire") is None:
            return [case["mismatch"]], None
        r = run_wire(vh, [case["wire"]], trace_spec=trace_spec)
        return [m for m in r["mismatches"] if m["what"] == case["mismatch"]["what"]], None
    return confirm


def render(n):
    k = n["k"]
    if k == "s":
        return json.dumps(n["s"])
    if k == "n":
        return str(n["n"])
    if k in ("big", "r"):
        return n["s"]
    if k == "b":
        return "true" if n["b"] else "false"
    if k == "z":
        return "null"
    if k == "a":
        return "[" + ",".join(render(x) for x in n["a"]) + "]"
    o = n["o"] if isinstance(n["o"], dict) else {}
    return "{" + ",".join(json.dumps(a) + ":" + render(b) for a, b in sorted(o.items())) + "}"


def run_c12(prop, tier):
    t0 = time.time()
    vh = build_vh()
    cases, wall = tlc_cases(tier, ["Reflexive /\\ Laws", "EmitRT(0) /\\ EmitBig(0)",
                                   '\\A r \\in {x \\in Results : Has(x, "error")} \\cup {O([error |-> S("syntax error"), details |-> S("x")]), O([error |-> S("not implemented")]), '
                                   'O([error |-> S("aborted")]), O([error |-> S("not owner"), details |-> S("d")]), O([error |-> S("domain error"), details |-> S("d")]), '
                                   'O([error |-> S("range error")]), O([error |-> S("resources exhausted")]), O([error |-> S("I/O error")]), O([error |-> S("duplicate uuid name")]), '
                                   'O([error |-> S("not supported")])} : PrintT(<<"CASE", ToJson([mode |-> "err", t |-> "OperationResult", tree |-> r])>>)'])
    for c in cases:
        c["text"] = render(c["tree"])
    res = shard_run(vh, cases, n=4)
    allc = [c for r in res for c in r["cases"] if c["mismatch"].get("prop") == "C12"]
    for c in allc:
        c["key"] = {"t": c["wire"]["t"], "text": c["wire"]["text"]} if c.get("wire") else {}
    verdict = findings.adjudicate(prop, allc, confirm_fn(vh))
    per = {}
    for c in cases:
        per[c["t"]] = per.get(c["t"], 0) + 1
    evs = [ev for r in res for ev in r["events"]]
    cov = {"states": sum(r["states"] for r in res), "transitions": sum(r["transitions"] for r in res), "traces_validated_against_impl": len(res),
           "valid_encodings_round_tripped": sum(1 for e in evs if e["ev"] == "rt"), "error_results_round_tripped": sum(1 for e in evs if e["ev"] == "err"),
           "per_wire_type": per, "samples": [{"t": c["t"], "encoding": c["text"]} for c in cases[:: max(1, len(cases) // 6)]][:6],
           "known_findings_seen": verdict["known"],
           "rule": "every valid encoding of Wire.tla's bounded grammar (18 wire types; all ten operations with and without optional members, every condition "
                   "function and mutator, sets/maps/uuids/named uuids of every atomic type, both update formats, monitor requests/selects/replies, results and "
                   "errors, schemas with every base-type constraint, min/max/unlimited, ephemeral, mutable, isRoot, indexes) is decoded, encoded and decoded again; "
                   "TLC judges Eq(type, encoding, re-encoding) and equality of the decoded values; the laws of Eq are checked first"}
    write_evidence(prop, tier, "model_checking", cov, time.time() - t0, violations=len(verdict["violations"]),
                   assumptions=["values start from decodings of valid encodings (plus the library's own constructors in C09); nil and empty collections are the same value",
                                "in schema-less positions a one-element set and its element are the same value (RFC 7047 5.1)",
                                "maxRows and cksum are not represented by the library's types and not among the listed features"])
    return verdict


def run_c19(prop, tier):
    t0 = time.time()
    vh = build_vh()
    dcases, w1 = tlc_cases(tier, ["EmitDec(0)", "EmitSmall(0)"], tag="mcw-dec")
    tcases, w2 = tlc_cases(tier, ["EmitTxn(0)"], tag="mcw-txn")
    txn = []
    for c in tcases:
        for mode in ("txn-direct", "txn-server"):
            txn.append(dict(c, mode=mode))
    mcases, w3 = tlc_cases(tier, ["EmitMon(0)"], tag="mcw-mon")
    for i, c in enumerate(mcases):
        txn.append(dict(c, mode="mon-" + ("monitor", "monitor_cond", "monitor_cond_since")[i % 3]))
    ncases, w4 = tlc_cases(tier, ["EmitNotif(0)"], tag="mcw-notif")
    sd_mod3 = seed() % 3 if tier == "quick" else -1
    for i, c in enumerate(ncases):
        txn.append(dict(c, mode="notif-update" if c["t"] == "TableUpdates" else ("notif-update2", "notif-update3")[i % 2]))
    # the same trees as the contents of a monitor reply
    for i, c in enumerate(ncases):
        if sd_mod3 < 0 or i % 3 == sd_mod3:
            txn.append(dict(c, mode="reply-monitor" if c["t"] == "TableUpdates" else ("reply-monitor_cond", "reply-monitor_cond_since")[i % 2]))
    for c in dcases + txn:
        c["text"] = render(c["tree"])[:2000]
    res = shard_run(vh, dcases) + shard_run(vh, txn, n=min(NCPU, 8))
    allc = [c for r in res for c in r["cases"] if c["mismatch"].get("prop") == "C19"]
    for c in allc:
        c["key"] = {"t": c["wire"]["t"], "mode": c["wire"]["mode"], "text": c["wire"]["text"]} if c.get("wire") else {}
    verdict = findings.adjudicate(prop, allc, confirm_fn(vh))
    evs = [ev for r in res for ev in r["events"]]
    out = {}
    for e in evs:
        if e["ev"] == "dec":
            out[e["outcome"]] = out.get(e["outcome"], 0) + 1
    tout = {}
    for e in evs:
        if e["ev"] == "wtxn":
            k = e["mode"] + ":" + e["outcome"]
            tout[k] = tout.get(k, 0) + 1
    cov = {"states": sum(r["states"] for r in res), "transitions": sum(r["transitions"] for r in res), "traces_validated_against_impl": len(res),
           "corrupted_trees_decoded": sum(1 for e in evs if e["ev"] == "dec"), "decoder_outcomes": out,
           "small_trees_decoded_by_every_decoder": sum(1 for e in evs if e["ev"] == "small"), "decoders": 22,
           "ill_formed_transactions": len(tcases), "monitor_requests_followed_by_commits": len(mcases), "notifications_sent_to_a_client": len(ncases), "monitor_replies_sent_to_a_client": sum(1 for c in txn if c["mode"].startswith("reply-")), "transaction_outcomes": tout, "process_crashes": sum(r["crashes"] for r in res),
           "samples": [{"t": c["t"], "mode": c["mode"], "input": c["text"][:300]} for c in (dcases[:: max(1, len(dcases) // 3)][:3] + txn[:: max(1, len(txn) // 3)][:3])],
           "known_findings_seen": verdict["known"],
           "rule": "TLC enumerates Corrupt(v) (every tree one local edit away: a node replaced by each junk atom/array, an element or member dropped, an element "
                   "appended) for the valid encodings of 18 wire types, and every tree of depth/width <= 2 over the keyword atoms; each is decoded (and, if it decodes, "
                   "encoded) under recover; corrupted transactions on a 6-column table (every arithmetic mutator with 0, 2 and 0.5 on integer, real and integer-set "
                   "columns; dropped members; swapped value kinds) run on the engine and as raw requests followed by an echo on a real server; monitor requests "
                   "(every member present/absent, corrupted ones) are sent on their own connections and followed by an insert, a modify and a delete of the monitored table; "
                   "update / update2 / update3 notifications (sound, naming unknown tables or columns, ill-typed, one edit away from sound) are sent to a real client "
                   "monitoring the table, followed by an echo: the client takes or refuses each and a client works afterwards"}
    write_evidence(prop, tier, "model_checking", cov, time.time() - t0, violations=len(verdict["violations"]),
                   assumptions=["bytes that are not JSON stop in encoding/json before any libovsdb code runs: trees suffice",
                                "long or deeply nested adversarial inputs and coverage-guided byte fuzzing are outside this technique"])
    return verdict


def run_c09(prop, tier):
    """C09: Mapper.tla gives, per column type, the one Go type a model field may have and the wire encoding of every
    native value; TLC enumerates (column type x candidate Go type) and (column type x value); the real mapper binds,
    writes, reads back (GetRowData, CreateModel) and TraceMapper.tla judges."""
    t0 = time.time()
    vh = build_vh()
    cases, wall = tlc_cases(tier, ["TypeLaws", "EmitTypes(0) /\\ EmitVals(0)"], tag="mcm", base="MC_Mapper")
    res = shard_run(vh, cases, n=4, trace_spec="TraceMapper.tla")
    allc = [c for r in res for c in r["cases"] if c["mismatch"].get("prop") == "C09"]
    for c in allc:
        c["key"] = {"col": c["wire"].get("col"), "gotype": c["wire"].get("gotype"), "value": c["wire"].get("value")} if c.get("wire") else {}
    verdict = findings.adjudicate(prop, allc, confirm_fn(vh, "TraceMapper.tla"))
    evs = [ev for r in res for ev in r["events"]]
    cols = {json.dumps(c["col"], sort_keys=True) for c in cases}
    cov = {"states": sum(r["states"] for r in res), "transitions": sum(r["transitions"] for r in res), "traces_validated_against_impl": len(res),
           "column_types": len(cols), "go_type_candidates_tried": sum(1 for e in evs if e["ev"] == "mtype"),
           "accepted": sum(1 for e in evs if e["ev"] == "mtype" and e["accepted"]), "values_round_tripped": sum(1 for e in evs if e["ev"] == "map"),
           "samples": [c for c in cases if c["mode"] == "map"][:: max(1, len(cases) // 4)][:3],
           "known_findings_seen": verdict["known"],
           "rule": "column types: every atomic type as key with min/max 1..1, 0..1, 0..n, 1..n, 0..3, 2..3; string and integer enums; maps over three key and "
                   "five value types; for each, 24 candidate Go field types must be rejected except NativeType(column); every value within the bounds (atoms incl. "
                   "64-bit extremes and large reals, nil/non-nil optionals, empty/singleton/multi sets and maps) goes NewRow -> json -> Row -> GetRowData and "
                   "CreateModel; TLC judges the JSON against Enc(column, value), the value read back, and that absent columns leave fields untouched"}
    write_evidence(prop, tier, "model_checking", cov, time.time() - t0, violations=len(verdict["violations"]),
                   assumptions=["NewRow without a field list leaves out columns holding the zero value; read into a fresh model that is the same value",
                                "non-finite reals are excluded by the property"])
    return verdict


def run_c20(prop, tier):
    """C20: MC_Gen.tla builds schemas over Mapper.tla's type space (plus enum columns of every atomic type, awkward column and
    table names) and states the Go type of every field (NativeType); the generator runs twice per (schema, extended, enum types),
    the output is built in a scratch module against /repo, loaded through NewDatabaseModel and probed by reflection; the generated
    DeepCopy / Equals are compared with model.Clone / model.Equal; TraceGen.tla judges."""
    t0 = time.time()
    vh = build_vh()
    base, wall = tlc_cases(tier, ["TypeLaws", "EmitGen(0)"], tag="mcg", base="MC_Gen")
    cases = []
    for c in base:
        for ext in (False, True):
            for en in (True, False):
                cases.append(dict(c, extended=ext, enumTypes=en))
    res = shard_run(vh, cases, n=min(NCPU, len(cases)), trace_spec="TraceGen.tla")
    allc = [c for r in res for c in r["cases"] if c["mismatch"].get("prop") == "C20"]
    for c in allc:
        w = c.get("wire") or {}
        c["key"] = {"schema": w.get("id"), "extended": w.get("extended"), "enumTypes": w.get("enumTypes")}
        if c.get("wire"):
            c["wire"] = {k: v for k, v in w.items()}
    verdict = findings.adjudicate(prop, allc, confirm_fn(vh, "TraceGen.tla"))
    evs = [ev for r in res for ev in r["events"]]
    cov = {"states": sum(r["states"] for r in res), "transitions": sum(r["transitions"] for r in res), "traces_validated_against_impl": len(res),
           "schemas": len(base), "generator_runs": 2 * len(evs), "packages_built": sum(1 for e in evs if e.get("builds")),
           "tables": sum(len(c["tables"]) for c in base), "columns": sum(len(t) for c in base for t in c["tables"].values()),
           "fields_type_checked": sum(len(t) for e in evs for t in e.get("fieldTypes", {}).values()),
           "samples": [{"schema": e["id"], "extended": e["extended"], "enumTypes": e["enumTypes"], "builds": e["builds"], "validates": e["validates"], "laws": e["laws"]} for e in evs[:3]],
           "known_findings_seen": verdict["known"],
           "rule": "schemas: every column type of Mapper.tla (each atomic type as key with 1..1, 0..1, 0..n, 1..n and bounded shapes; maps; string, integer, real and "
                   "boolean enums, optional and multi-valued) spread over tables with underscores, lower-case and initialism names, columns named like Go keywords; "
                   "per (schema, extended, enum types): two generator runs byte-identical, go build of the package, NewDatabaseModel(schema, FullDatabaseModel()) "
                   "valid, every field's reflect type = NativeType(column), DeepCopy equal / no shared memory / agrees with model.Clone, Equals agrees with "
                   "model.Equal on equal models, models differing in one field, zero against filled and nil against empty collections"}
    write_evidence(prop, tier, "model_checking", cov, time.time() - t0, violations=len(verdict["violations"]),
                   assumptions=["'compiles' and 'identical from run to run' are direct observations; the specification contributes the schema space, the expected field types and the laws",
                                "the generator is driven through the modelgen package API (the command line tool has no switch for enum types)"])
    return verdict
