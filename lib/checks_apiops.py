"""The client's model API (Create, Where(..).Update/Mutate/Delete/Wait, List): Api.tla says which
operations a call stands for, MC_Api.tla checks the contract's laws on every call of its alphabet and
prints the calls, `vh api-cases` makes them on a synchronised client of a real server, TraceApi.tla
judges what the real API and the real server made of each.  Part of C03 (operations built through the
model API), C08 (what a selection lists) and C15 (names given to Create)."""
import json, os, random, time
from common import *

API_FILES = ["Values.tla", "Schema.tla", "Cond.tla", "Mutate.tla", "Refs.tla", "Txn.tla", "Diff.tla", "Monitor.tla",
             "TraceTxn.tla", "Api.tla", "MC_Api.tla", "TraceApi.tla"]
MC_CFG = "SPECIFICATION %s\nCONSTANTS Variant = \"%s\"\n%sCHECK_DEADLOCK FALSE\n"


def _schema(vh, sc):
    rc, o, e = run([vh, "schema", "-schema", "api", "-seed", "1", "-o", sc.path("schema.abs.json")])
    if rc != 0:
        raise Broken("vh schema -schema api failed: " + e[-2000:])


def model_check(vh):
    """The contract's laws on every (start database, call); the variant that drops listed default fields is refuted."""
    with Scratch("mcapi") as sc:
        copy_spec(sc.dir, API_FILES)
        _schema(vh, sc)
        open(sc.path("MC.cfg"), "w").write(MC_CFG % ("SpecEmit", "intended", "INVARIANTS Laws\n"))
        rc, out, wall = run_tlc(sc.dir, "MC_Api.tla", cfg="MC.cfg", workers=1, timeout=1800)
        if "Model checking completed. No error has been found." not in out:
            raise Broken("MC_Api: the API contract violates its own laws or TLC failed:\n" + out[-3000:])
        gen, dist = tlc_stats(out)
        cases = tlc_prints(out, "CASE")
        open(sc.path("MCv.cfg"), "w").write(MC_CFG % ("Spec", "fieldsDropDefaults", "INVARIANTS Laws\n"))
        rc, out, _ = run_tlc(sc.dir, "MC_Api.tla", cfg="MCv.cfg", workers=2, timeout=1800)
        if "Invariant Laws is violated" not in out:
            raise Broken("MC_Api: the variant that does not write listed fields holding their default is not refuted: the laws are vacuous")
        return cases, {"api_mc_states": dist, "api_mc_transitions": gen, "api_variant_refuted": True, "api_mc_wall": round(wall, 1)}


def uses_names(call):
    return "@" in json.dumps(call)


def _validate(vh, cases, selftest=True):
    with Scratch("apiops") as sc:
        copy_spec(sc.dir, API_FILES)
        _schema(vh, sc)
        with open(sc.path("cases.ndjson"), "w") as f:
            for c in cases:
                f.write(json.dumps(c) + "\n")
        rc, o, e = run([vh, "api-cases", "-cases", sc.path("cases.ndjson"), "-o", sc.path("trace.ndjson")], timeout=3000)
        if rc != 0:
            raise Broken("vh api-cases failed: " + e[-3000:])
        trace = [json.loads(l) for l in open(sc.path("trace.ndjson")) if l.strip()]
        if sum(1 for ev in trace if ev["ev"] == "apitxn") != len(cases):
            raise Broken("vh api-cases recorded %d calls for %d cases" % (sum(1 for ev in trace if ev["ev"] == "apitxn"), len(cases)))
        selfline = 0
        if selftest:
            # binding self-test: a copy of the last call's events claiming one more operation must be rejected
            js = [j for j in range(1, len(trace)) if trace[j]["ev"] == "apitxn" and trace[j - 1]["ev"] == "sync" and not trace[j]["apiErr"]
                  and trace[j]["committed"] and trace[j]["nops"] > 0]
            if js:
                bad = json.loads(json.dumps(trace[js[-1]]))
                bad["nops"] += 1
                with open(sc.path("trace.ndjson"), "a") as f:
                    f.write(json.dumps(trace[js[-1] - 1]) + "\n" + json.dumps(bad) + "\n")
                selfline = len(trace) + 2
        open(sc.path("T.cfg"), "w").write("SPECIFICATION SpecApi\nCHECK_DEADLOCK FALSE\n")
        rc, out, wall = run_tlc(sc.dir, "TraceApi.tla", cfg="T.cfg", workers=1, timeout=3000)
        done = tlc_prints(out, "TRACE-COMPLETE")
        if rc != 0 or not done:
            raise Broken("TraceApi validation did not complete:\n" + out[-3000:])
        mm = tlc_prints(out, "MISMATCH")
        if selfline:
            if not any(m["line"] == selfline for m in mm):
                raise Broken("TraceApi accepted a deliberately corrupted event: the trace specification does not bind")
            mm = [m for m in mm if m["line"] != selfline]
        gen, dist = tlc_stats(out)
        out_cases = []
        for m in mm:
            # the case a line belongs to: the number of calls recorded before it
            i = min(sum(1 for ev in trace[:m["line"] - 1] if ev["ev"] == "apitxn"), len(cases) - 1)
            out_cases.append({"mismatch": m, "api_case": cases[i], "key": {"dbi": cases[i]["dbi"], "call": cases[i]["call"]}})
        return {"events": len(trace), "states": dist, "transitions": gen, "cases": out_cases,
                "sample": trace[1] if len(trace) > 1 else None, "selftest": bool(selfline)}


def _random(vh, job):
    """A random sequence of calls on an evolving database over a schema of the transaction family."""
    with Scratch("apirnd") as sc:
        copy_spec(sc.dir, API_FILES)
        rc, o, e = run([vh, "schema", "-schema", job["schema"], "-seed", str(job["schema_seed"]), "-o", sc.path("schema.abs.json")])
        if rc != 0:
            raise Broken("vh schema failed: " + e[-2000:])
        rc, o, e = run([vh, "api-random", "-schema", job["schema"], "-schema-seed", str(job["schema_seed"]), "-seed", str(job["seed"]),
                        "-n", str(job["n"]), "-o", sc.path("trace.ndjson")], timeout=3000)
        if rc != 0:
            raise Broken("vh api-random failed (%s): %s" % (job, e[-3000:]))
        trace = [json.loads(l) for l in open(sc.path("trace.ndjson")) if l.strip()]
        open(sc.path("T.cfg"), "w").write("SPECIFICATION SpecApi\nCHECK_DEADLOCK FALSE\n")
        rc, out, wall = run_tlc(sc.dir, "TraceApi.tla", cfg="T.cfg", workers=1, timeout=3000)
        done = tlc_prints(out, "TRACE-COMPLETE")
        if rc != 0 or not done:
            raise Broken("TraceApi validation (random calls) did not complete:\n" + out[-3000:])
        mm = tlc_prints(out, "MISMATCH")
        gen, dist = tlc_stats(out)
        cases = []
        for m in mm:
            ev = trace[m["line"] - 1]
            if ev["ev"] == "setup":
                # the call made next stands for the case
                ev = next((x for x in trace[m["line"]:] if x["ev"] == "apitxn"), ev)
            # to confirm: the database the call was made on, loaded into a fresh one, and the call
            before = next((trace[j]["post"] for j in range(m["line"] - 2, -1, -1) if "post" in trace[j]), {})
            cases.append({"mismatch": m, "api_random": {"schema": job["schema"], "schema_seed": job["schema_seed"], "db": before, "call": ev.get("call")},
                          "key": {"call": ev.get("call")}})
        calls = [ev for ev in trace if ev["ev"] == "apitxn"]
        return {"events": len(trace), "states": dist, "transitions": gen, "cases": cases, "calls": len(calls),
                "kinds": {k: sum(1 for c in calls if c["call"]["kind"] == k) for k in ("create", "update", "mutate", "delete", "wait")},
                "committed": sum(1 for c in calls if not c["apiErr"] and c["committed"] and c["nops"] > 0),
                "refused": sum(1 for c in calls if c["apiErr"])}


def _replay_random(vh, r):
    with Scratch("apirep") as sc:
        copy_spec(sc.dir, API_FILES)
        rc, o, e = run([vh, "schema", "-schema", r["schema"], "-seed", str(r["schema_seed"]), "-o", sc.path("schema.abs.json")])
        if rc != 0:
            raise Broken("vh schema failed: " + e[-2000:])
        json.dump({"db": r["db"], "call": r["call"]}, open(sc.path("case.json"), "w"))
        rc, o, e = run([vh, "api-random", "-schema", r["schema"], "-schema-seed", str(r["schema_seed"]), "-replay", sc.path("case.json"),
                        "-o", sc.path("trace.ndjson")], timeout=600)
        if rc != 0:
            raise Broken("vh api-random -replay failed: " + e[-3000:])
        open(sc.path("T.cfg"), "w").write("SPECIFICATION SpecApi\nCHECK_DEADLOCK FALSE\n")
        rc, out, wall = run_tlc(sc.dir, "TraceApi.tla", cfg="T.cfg", workers=1, timeout=900)
        if rc != 0 or not tlc_prints(out, "TRACE-COMPLETE"):
            raise Broken("TraceApi validation (replay) did not complete:\n" + out[-3000:])
        return tlc_prints(out, "MISMATCH")


def confirm_fn(vh):
    def confirm(case):
        if "api_random" in case:
            got = [m for m in _replay_random(vh, case["api_random"]) if m["what"] == case["mismatch"]["what"]]
            return got, None
        r = _validate(vh, [case["api_case"]], selftest=False)
        got = [c["mismatch"] for c in r["cases"] if c["mismatch"]["what"] == case["mismatch"]["what"]]
        return got, None
    return confirm


def run_for(prop, tier, vh):
    """Returns (cases to confirm for this property, coverage)."""
    cases, cov = model_check(vh)
    rnd = random.Random(seed())
    rnd.shuffle(cases)
    if prop == "C15":
        cases = [c for c in cases if uses_names(c["call"])]
    nsh = min(NCPU, max(1, len(cases) // 100))
    res = pmap(lambda sh: _validate(vh, sh), [cases[i::nsh] for i in range(nsh)])
    # random calls on the schemas of the transaction family
    sd = seed()
    n = 150 if tier == "quick" else 600
    jobs = [dict(schema="small", schema_seed=1, seed=sd * 100 + 1, n=n), dict(schema="kitchen", schema_seed=1, seed=sd * 100 + 2, n=n)]
    for k in range(4 if tier == "quick" else 12):
        jobs.append(dict(schema="random", schema_seed=sd * 37 + k, seed=sd * 100 + 10 + k, n=n))
    rres = pmap(lambda j: _random(vh, j), jobs)
    tags = {"C03": {"C03"}, "C08": {"C08"}, "C15": {"C02", "C03", "C04", "C06"}}[prop]
    mine, other = [], 0
    for r in rres:
        for c in r["cases"]:
            if c["mismatch"].get("prop") in tags and (prop != "C15" or uses_names(c["key"]["call"])):
                mine.append(c)
            else:
                other += 1
    cov.update({"api_random_calls": sum(r["calls"] for r in rres), "api_random_committed": sum(r["committed"] for r in rres),
                "api_random_refused": sum(r["refused"] for r in rres), "api_random_traces": len(rres),
                "api_random_kinds": {k: sum(r["kinds"][k] for r in rres) for k in ("create", "update", "mutate", "delete", "wait")},
                "api_random_states": sum(r["states"] for r in rres)})
    for r in res:
        for c in r["cases"]:
            if c["mismatch"].get("prop") in tags:
                mine.append(c)
            else:
                other += 1
    cov.update({"api_calls_made_on_impl": len(cases), "api_trace_events": sum(r["events"] for r in res),
                "api_states": sum(r["states"] for r in res), "api_transitions": sum(r["transitions"] for r in res),
                "api_traces": len(res), "api_mismatches_for_other_properties": other,
                "api_binding_selftest_rejected": all(r["selftest"] for r in res),
                "api_kinds": {k: sum(1 for c in cases if c["call"]["kind"] == k) for k in ("create", "update", "mutate", "delete", "wait")}})
    return mine, cov
