"""Builds LocksXData.tla (entries of the lock protocol extracted from client/client.go) for MC_LocksX.tla."""
import json, re

HANDLERS = {'update', 'update2', 'update3', 'echo'}


def is_entry(name):
    base = name.split('$')[0]
    return base[0].isupper() or base.startswith('handle') or base in HANDLERS or '$go' in name


def build(locks_json, out):
    r = json.load(open(locks_json))
    names, steps, clean, imprecise, leaks = [], [], [], [], []
    seen = {}
    for n, f in sorted(r['funcs'].items()):
        if not is_entry(n):
            continue
        for i, p in enumerate(f['paths'] or []):
            st = [s for s in p['steps'] if s[0] in ('L', 'U', 'RL', 'RU')]
            if not st:
                continue
            neg = any(h.endswith(tuple('-%d' % k for k in range(1, 9))) for h in (p['held'] or []))
            if neg:
                imprecise.append('%s#%d' % (n, i))
                continue
            if p.get('held'):
                leaks.append({'entry': '%s#%d' % (n, i), 'held': p.get('held'), 'exit': p['exit']})
            k = json.dumps(st)
            if k in seen:
                continue
            seen[k] = n
            names.append('%s#%d' % (n, i))
            steps.append(st)
            clean.append(not p.get('held'))
    def tl(v):
        if isinstance(v, bool):
            return 'TRUE' if v else 'FALSE'
        if isinstance(v, str):
            return json.dumps(v)
        return '<<' + ', '.join(tl(x) for x in v) + '>>'
    with open(out, 'w') as fh:
        fh.write('---- MODULE LocksXData ----\n\\* generated from client/client.go by harness/lockx (vh lock-steps)\n')
        fh.write('XNames == %s\nXStepSeqs == %s\nXClean == %s\n====\n' % (tl(names), tl(steps), tl(clean)))
    return {'entries': names, 'imprecise': imprecise, 'leaks': leaks, 'lock_ops': r['lock_ops'], 'unknown': r['unknown'] or [],
            'mutexes': r['mutexes']}
