"""Check C17: concurrent transactions are serialisable and observed in one order."""
import json, os, time
from common import *
import findings

SRV_CFG = 'SPECIFICATION Spec\nCONSTANTS Clients <- MCClients\n Kind <- MCKind\n Variant = "%s"\nINVARIANTS NoLostIncrement OneWinner NotifiedInCommitOrder\nCHECK_DEADLOCK FALSE\n'
FILES = ["Values.tla", "Schema.tla", "Cond.tla", "Mutate.tla", "Refs.tla", "Txn.tla", "Diff.tla", "Monitor.tla", "TraceSerial.tla"]


def model_check():
    with Scratch("mcsrv") as sc:
        copy_spec(sc.dir, ["Server.tla", "MC_Server.tla"])
        open(sc.path("MC.cfg"), "w").write(SRV_CFG % "intended")
        rc, out, wall = run_tlc(sc.dir, "MC_Server.tla", cfg="MC.cfg", workers=4, timeout=900)
        if "Model checking completed. No error has been found." not in out:
            raise Broken("MC_Server: the intended lock protocol violates C17 or TLC failed:\n" + out[-3000:])
        gen, dist = tlc_stats(out)
        for v in ("nolock", "commitAfterUnlock"):
            open(sc.path("MCv.cfg"), "w").write(SRV_CFG % v)
            rc, o2, w2 = run_tlc(sc.dir, "MC_Server.tla", cfg="MCv.cfg", workers=4, timeout=900)
            if "is violated" not in o2:
                raise Broken("MC_Server: variant %s is not refuted: the invariants are vacuous" % v)
        return {"mc_states": dist, "mc_transitions": gen, "variants_refuted": ["nolock", "commitAfterUnlock"]}


def validate(sc_dir, vh):
    rc, o, e = run([vh, "schema", "-schema", "small", "-o", os.path.join(sc_dir, "schema.abs.json")])
    if rc != 0:
        raise Broken("vh schema: " + e[-1000:])
    copy_spec(sc_dir, FILES)
    open(os.path.join(sc_dir, "T.cfg"), "w").write("SPECIFICATION Spec\nINVARIANTS FinalCounterOK FinalUnique\nCHECK_DEADLOCK FALSE\n")
    rc, out, wall = run_tlc(sc_dir, "TraceSerial.tla", cfg="T.cfg", workers=2, timeout=3000)
    if "Model checking completed. No error has been found." not in out and "is violated" not in out:
        raise Broken("TraceSerial did not complete:\n" + out[-3000:])
    return out


def one_job(vh, job):
    with Scratch("serial") as sc:
        rc, o, e = run([vh, "record-serial", "-seed", str(job["seed"]), "-n", str(job["n"]), "-clients", str(job["clients"]),
                        "-calls", str(job["calls"]), "-o", sc.path("trace.ndjson")], timeout=1800)
        if rc != 0:
            raise Broken("vh record-serial failed: " + e[-3000:])
        traces = [json.loads(l) for l in open(sc.path("trace.ndjson")) if l.strip()]
        out = validate(sc.dir, vh)
        accepted = {a for a in tlc_prints(out, "ACCEPTED")}
        gen, dist = tlc_stats(out)
        cases = []
        inv_violation = "is violated" in out
        for i, t in enumerate(traces):
            rpc = [c["rpcError"] for c in t["calls"] if c.get("rpcError")]
            if rpc:
                cases.append({"mismatch": {"prop": "C17", "what": "a transact call ended with an RPC error: the server executed the transaction and then failed to apply it",
                                           "detail": {"error": rpc[0][:300]}}, "trace": t})
                continue
            if t.get("stuck"):
                cases.append({"mismatch": {"prop": "C17", "what": "the server never answered a monitor request made while transactions were in flight",
                                           "detail": {"requests": t["stuck"][:3]}}, "trace": t})
                continue
            if (i + 1) not in accepted or inv_violation:
                what = "no serial order of the committed transactions explains the results, the notifications and the final contents"
                if inv_violation and (i + 1) in accepted:
                    continue
                cases.append({"mismatch": {"prop": "C17", "what": what, "detail": {"calls": len(t["calls"])}}, "trace": t})
        if inv_violation and not cases:
            cases.append({"mismatch": {"prop": "C17", "what": "an accepted order loses an increment or has two winners", "detail": {}}, "trace": traces[0]})
        overlap = sum(1 for t in traces for a in t["calls"] for b in t["calls"] if a is not b and a["inv"] < b["inv"] < a["ret"])
        return {"traces": len(traces), "calls": sum(len(t["calls"]) for t in traces), "states": dist, "transitions": gen,
                "overlapping_call_pairs": overlap, "cases": cases,
                "late_monitors": sum(1 for t in traces for m in t["mons"] if m.get("late")),
                "late_monitors_overlapping_a_call": sum(1 for t in traces for m in t["mons"] if m.get("late") and
                                                        any(c["inv"] < m["ret"] and m["inv"] < c["ret"] for c in t["calls"])),
                "sample": [{"c": c["c"], "inv": c["inv"], "ret": c["ret"], "ops": [o["op"] for o in c["ops"]], "committed": c["committed"]}
                           for c in traces[0]["calls"]]}


def confirm_fn(vh):
    def confirm(case):
        # the recorded execution is the evidence: it is re-judged in isolation
        with Scratch("cfser") as sc:
            with open(sc.path("trace.ndjson"), "w") as f:
                f.write(json.dumps(case["trace"]) + "\n")
            if any(c.get("rpcError") for c in case["trace"]["calls"]) or case["trace"].get("stuck"):
                return [case["mismatch"]], None
            out = validate(sc.dir, vh)
            if tlc_prints(out, "ACCEPTED") and "is violated" not in out:
                return [], None
            return [case["mismatch"]], None
    return confirm


def run_check(prop, tier):
    t0 = time.time()
    vh = build_vh()
    sd = seed()
    cov = model_check()
    jobs = []
    for i in range(NCPU if tier == "quick" else NCPU * 4):
        jobs.append({"seed": sd * 100 + i, "n": 6 if tier == "quick" else 25, "clients": 2 + i % 3, "calls": 2 + (i // 3) % 2})
    res = pmap(lambda j: one_job(vh, j), jobs, workers=8)
    cases = [c for r in res for c in r["cases"]]
    verdict = findings.adjudicate(prop, cases, confirm_fn(vh))
    cov.update({"states": cov["mc_states"] + sum(r["states"] for r in res), "transitions": cov["mc_transitions"] + sum(r["transitions"] for r in res),
                "traces_validated_against_impl": sum(r["traces"] for r in res), "calls": sum(r["calls"] for r in res),
                "overlapping_call_pairs": sum(r["overlapping_call_pairs"] for r in res),
                "late_monitors": sum(r["late_monitors"] for r in res),
                "late_monitors_overlapping_a_call": sum(r["late_monitors_overlapping_a_call"] for r in res),
                "samples": [res[0]["sample"]], "known_findings_seen": verdict["known"],
                "rule": "2-4 concurrent raw clients each issue 2-3 transactions (blind increments, optimistic read-modify-write with wait, insert-if-absent "
                        "on a unique index, reference moves with garbage collection, deletes) against one real server with a v1 and a v2 monitoring peer; TLC "
                        "searches for a serial order respecting real time in which Txn.tla reproduces every result, each monitor's message sequence is the "
                        "sequence of differences in that order, and the final contents match; one or two further monitors are established while the "
                        "clients run (every other run behind a peer that is slow to acknowledge, which keeps transactions in flight): each must join the "
                        "order at one point between its request and its reply, its initial contents being the database there"})
    write_evidence(prop, tier, "model_checking", cov, time.time() - t0, violations=len(verdict["violations"]),
                   assumptions=["a failed call is placed without effect (its rejection is not judged here)"])
    return verdict
