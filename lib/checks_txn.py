"""Checks C02 C03 C04 C06 C07 C15: the transaction family."""
import json, os, re, random, time
from common import *
import txnfam, findings

# which MISMATCH tags count for which property check
TAGS = {
    "C02": {"C02"},
    "C03": {"C03"},
    "C04": {"C04"},
    "C06": {"C06"},
    "C07": {"C07"},
    "C15": {"C02", "C03", "C04", "C06"},   # restricted to events that use named uuids
}

MC_CFG = """SPECIFICATION Spec
CONSTANTS MaxDepth = %d
 MaxOps = %d
 Emit = %s
%s
VIEW View
CHECK_DEADLOCK FALSE
"""


def uses_names(ev):
    for o in ev.get("ops", []):
        if o.get("uuidName"):
            return True
        if "@" in json.dumps([o.get("where"), o.get("row"), o.get("rows"), o.get("mutations")]):
            return True
    return False


def model_check(tier, prop):
    """Design level: the invariants on every reachable state of MC_Txn."""
    depth, maxops = (3, 2) if tier == "quick" else (4, 2)
    with Scratch("mctxn") as sc:
        copy_spec(sc.dir)
        run_vh_schema(sc, "small")
        with open(sc.path("MC.cfg"), "w") as f:
            f.write(MC_CFG % (depth, maxops, "FALSE",
                              "INVARIANTS InvRefs InvUnique InvFixpoint\nPROPERTY Atomic"))
        rc, out, wall = run_tlc(sc.dir, "MC_Txn.tla", cfg="MC.cfg", workers=NCPU, timeout=3000)
        if "Model checking completed. No error has been found." not in out:
            raise Broken("MC_Txn: the specification itself violates a property or TLC failed:\n" + out[-3000:])
        gen, dist = tlc_stats(out)
        return {"mc_states": dist, "mc_transitions": gen, "mc_depth": depth, "mc_maxops": maxops, "mc_wall": round(wall, 1)}


def monitor_laws(tier):
    """C07, design level: MonitorGen.tla constructs the notification every transition of MC_Txn owes each of three
    monitor requests in both encodings; TLC checks that Monitor.tla's acceptor accepts it, rejects it with a row or a
    changed column dropped or an unchanged column added, and that applying it mirrors the database; a variant claiming
    the opposite must be refuted (non-vacuity)."""
    depth = 2 if tier == "quick" else 3
    cfg = "SPECIFICATION Spec\nCONSTANTS MaxDepth = %d\n MaxOps = 2\n Emit = FALSE\nVIEW View\nPROPERTY %s\nCHECK_DEADLOCK FALSE\n"
    with Scratch("mcmon") as sc:
        copy_spec(sc.dir)
        run_vh_schema(sc, "small")
        open(sc.path("MG.cfg"), "w").write(cfg % (depth, "NotifyProp"))
        rc, out, wall = run_tlc(sc.dir, "MC_MonitorGen.tla", cfg="MG.cfg", workers=NCPU, timeout=3000)
        if "Model checking completed. No error has been found." not in out:
            raise Broken("MC_MonitorGen: the acceptor of C07 and the constructed notifications disagree, or TLC failed:\n" + out[-3000:])
        gen, dist = tlc_stats(out)
        open(sc.path("MGv.cfg"), "w").write(cfg % (2, "Vacuous"))
        rc, o2, w2 = run_tlc(sc.dir, "MC_MonitorGen.tla", cfg="MGv.cfg", workers=4, timeout=900)
        if "Action property Vacuous is violated" not in o2:
            raise Broken("MC_MonitorGen: the vacuity variant is not refuted")
        return {"monitor_laws_states": dist, "monitor_laws_transitions": gen, "monitor_laws_depth": depth}


_vh = None


def run_vh_schema(sc, name, seed_=1):
    rc, o, e = run([_vh, "schema", "-schema", name, "-seed", str(seed_), "-o", sc.path("schema.abs.json")])
    if rc != 0:
        raise Broken("vh schema: " + e[-1000:])


def enumerate_cases(tier, sd):
    """TLC enumerates every transition (state, transaction) of MC_Txn; returns
    (pool, cases). Quick tier samples the cases by seed."""
    depth, maxops = (2, 2) if tier == "quick" else (3, 2)
    with Scratch("mcemit") as sc:
        copy_spec(sc.dir)
        run_vh_schema(sc, "small")
        with open(sc.path("MC.cfg"), "w") as f:
            f.write(MC_CFG % (depth, maxops, "TRUE", ""))
        rc, out, wall = run_tlc(sc.dir, "MC_Txn.tla", cfg="MC.cfg", workers=1, timeout=3000)
        if "Model checking completed" not in out:
            raise Broken("MC_Txn emission failed:\n" + out[-3000:])
        pool = tlc_prints(out, "POOL")[0]
        cases = tlc_prints(out, "CASE")
        schema = json.load(open(sc.path("schema.abs.json")))
    total = len(cases)
    if tier == "quick":
        rnd = random.Random(sd)
        rnd.shuffle(cases)
        cases = cases[:2400]
    return pool, cases, schema, total


def replay_cases(pool, cases, schema, mode="direct", monitors=False):
    """Shards the cases, replays them on the real engine, validates each shard."""
    nsh = min(NCPU, max(1, len(cases) // 100))
    shards = [cases[i::nsh] for i in range(nsh)]

    def one(sh):
        with Scratch("rc") as sc:
            json.dump(schema, open(sc.path("schema.abs.json"), "w"))
            json.dump(pool, open(sc.path("pool.json"), "w"))
            with open(sc.path("cases.ndjson"), "w") as f:
                for c in sh:
                    f.write(json.dumps(c) + "\n")
            rc, o, e = run([_vh, "replay-cases", "-schema-file", sc.path("schema.abs.json"), "-pool", sc.path("pool.json"),
                            "-cases", sc.path("cases.ndjson"), "-o", sc.path("trace.ndjson"), "-mode", mode]
                           + (["-monitors"] if monitors else []), timeout=1800)
            if rc != 0:
                raise Broken("vh replay-cases failed: " + e[-3000:])
            res = txnfam.validate_trace(sc.dir, timeout=3000)
            trace = txnfam.read_trace(sc.path("trace.ndjson"))
            res["trace_events"] = len(trace)
            res["cases"] = []
            for m in res["mismatches"]:
                res["cases"].append({"mismatch": m, "schema": schema, "mode": mode,
                                     "events": txnfam.episode_prefix(trace, m.get("line", 0))})
            res["sample"] = None
            return res
    return pmap(one, shards)


def jobs_for(prop, tier, sd):
    jobs = []
    server = prop in ("C07", "C02")
    n = 250 if tier == "quick" else 1500
    reps = 1 if tier == "quick" else 3
    if prop == "C07":
        for r in range(reps):
            s = sd * 1000 + r
            jobs.append(dict(schema="small", schema_seed=1, seed=s + 50, mode="server", n=n, profile=prop))
            jobs.append(dict(schema="kitchen", schema_seed=1, seed=s + 51, mode="server", n=n, profile=prop))
            for k in range(4 if tier == "quick" else 10):
                jobs.append(dict(schema="random", schema_seed=s * 17 + k, seed=s + 52 + k, mode="server", n=n // 2, profile=prop))
        return jobs
    for r in range(reps):
        s = sd * 1000 + r
        jobs.append(dict(schema="small", schema_seed=1, seed=s, mode="direct", n=n, profile=prop, reload=0.1 if prop == "C04" else 0.0))
        jobs.append(dict(schema="kitchen", schema_seed=1, seed=s + 1, mode="direct", n=n, profile=prop, reload=0.1 if prop == "C04" else 0.0))
        for k in range(4 if tier == "quick" else 10):
            jobs.append(dict(schema="random", schema_seed=s * 31 + k, seed=s + 10 + k, mode="direct", n=n // 2, profile=prop,
                             reload=0.05 if prop == "C04" else 0.0))
        if server:
            jobs.append(dict(schema="small", schema_seed=1, seed=s + 50, mode="server", n=n // 2, profile=prop))
            jobs.append(dict(schema="kitchen", schema_seed=1, seed=s + 51, mode="server", n=n // 2, profile=prop))
            jobs.append(dict(schema="random", schema_seed=s * 17 + 3, seed=s + 52, mode="server", n=n // 2, profile=prop))
    return jobs


def run_check(prop, tier):
    global _vh
    t0 = time.time()
    sd = seed()
    _vh = build_vh()
    cov = {}
    cov.update(model_check(tier, prop))
    if prop == "C07":
        cov.update(monitor_laws(tier))

    results = []
    pool, cases, schema, total = enumerate_cases(tier, sd)
    if prop in ("C07", "C02"):
        # through the real server, with a v1 and a v2 monitor attached
        results += replay_cases(pool, cases, schema, mode="server", monitors=True)
    else:
        results += replay_cases(pool, cases, schema)
    cov["enumerated_transitions"] = total
    cov["replayed_transitions"] = len(cases)
    jobs = jobs_for(prop, tier, sd)
    results += pmap(lambda j: txnfam.record_and_validate(_vh, j), jobs)

    tags = TAGS[prop]
    cases_to_confirm = []
    other = 0
    events = sum(r.get("events", 0) for r in results)
    txns = sum(r.get("txns", 0) for r in results)
    over = sum(len(r["notes"]) for r in results)
    for r in results:
        for c in r["cases"]:
            m = c["mismatch"]
            ev = c["events"][-1] if c["events"] else {}
            relevant = m.get("prop") in tags
            if prop == "C15":
                relevant = relevant and uses_names(ev)
            if relevant:
                cases_to_confirm.append(c)
            else:
                other += 1

    api_cov = None
    if prop in ("C03", "C15"):
        # operations built through the client's model API (Api.tla)
        import checks_apiops
        api_cases, api_cov = checks_apiops.run_for(prop, tier, _vh)
        cases_to_confirm += api_cases
    verdict = findings.adjudicate(prop, cases_to_confirm,
                                  lambda c: checks_apiops.confirm_fn(_vh)(c) if ("api_case" in c or "api_random" in c) else txnfam.confirm(_vh, c))
    # vacuity guard: a scripted scenario that never fired checks nothing
    scen = {}
    for r in results:
        for k, v in (r.get("scenarios") or {}).items():
            scen[k] = scen.get(k, 0) + v
    cov["scenarios_fired"] = scen
    need = {"C06": ["swap", "delete-insert", "same-value", "takeover", "second-index", "mutate-onto-index-value"], "C04": ["weak-prune-two-passes"], "C15": ["named-map-key-delete", "named-forward-condition"], "C02": ["drop-reference-then-fail", "drop-reference-then-fail-at-commit"],
            "C03": ["wait-duplicate-row", "wait-all-rows"]}.get(prop, [])
    dead = [k for k in need if scen.get(k, 0) == 0]
    if dead:
        raise Broken("scripted scenarios never produced in this run (dead driver): %s" % ", ".join(dead))

    sample = next((r["sample"] for r in results if r.get("sample")), None)
    samples = []
    if sample:
        samples.append({"ops": [{k: v for k, v in o.items() if v not in ("", [], {}, False, 0)} for o in sample["ops"]],
                        "results": [r["kind"] for r in sample["results"]]})
    cov.update({
        "states": cov["mc_states"] + sum(r.get("states", 0) for r in results),
        "transitions": cov["mc_transitions"] + sum(r.get("transitions", 0) for r in results),
        "traces_validated_against_impl": len(results),
        "trace_events_validated": events,
        "transactions_executed_on_impl": txns,
        "over_rejections_tolerated": over,
        "mismatches_for_other_properties": other,
        "known_findings_seen": verdict["known"],
        "model_api": api_cov or {},
        "samples": samples or [{"note": "no multi-operation committed transaction in this run"}],
        "schemas": sorted({"%s/%s" % (j["schema"], j["schema_seed"]) for j in jobs}),
        "rule": "MC_Txn explores every history of the operation pool up to the stated depth (invariants on every state); "
                "every enumerated transition and every random transaction is executed on the real engine and each event "
                "is judged by TLC against Txn.tla; distinct = distinct TLC states of the trace specification",
    })
    write_evidence(prop, tier, "model_checking", cov, time.time() - t0, violations=len(verdict["violations"]),
                   assumptions=["uuids are supplied by the harness or read back from the reply",
                                "integers within +-2^30 and dyadic reals so both sides compute exactly",
                                "wait only with timeout 0"])
    return verdict
