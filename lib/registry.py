"""Property id -> check function."""
import json
from common import *
import checks_txn, checks_cache, checks_pure, checks_sess, checks_gates, checks_serial, checks_reconn, txnfam, findings


def replay_txn(prop, path):
    case = json.load(open(path))["case"]
    vh = build_vh()
    if "api_case" in case or "api_random" in case:
        import checks_apiops
        got, trace = checks_apiops.confirm_fn(vh)(case)
    else:
        got, trace = txnfam.confirm(vh, case)
    if got:
        print("VIOLATION property=%s replay=%s" % (prop, path))
        print("  " + json.dumps(got[0])[:600])
        return 1
    print("replay: the recorded mismatch does not occur on this tree")
    return 0


CHECKS = {}
REPLAY = {}
for p in ("C02", "C03", "C04", "C06", "C07", "C15"):
    CHECKS[p] = checks_txn.run_check
    REPLAY[p] = replay_txn


def replay_generic(prop, path):
    r = json.load(open(path))
    vh = build_vh()
    fn = GENERIC_CONFIRM[prop](vh)
    got, _ = fn(r["case"])
    if got:
        print("VIOLATION property=%s replay=%s" % (prop, path))
        print("  " + json.dumps(got[0])[:600])
        return 1
    print("replay: the recorded mismatch does not occur on this tree")
    return 0


GENERIC_CONFIRM = {"C05": checks_cache.confirm_fn}
CHECKS["C05"] = checks_cache.run_check
REPLAY["C05"] = replay_generic

GENERIC_CONFIRM["C10"] = checks_pure.diff_confirm
GENERIC_CONFIRM["C11"] = checks_pure.merge_confirm
CHECKS["C10"] = checks_pure.run_c10
CHECKS["C11"] = checks_pure.run_c11
REPLAY["C10"] = replay_generic
REPLAY["C11"] = replay_generic


def replay_c01(prop, path):
    r = json.load(open(path))
    vh = build_vh()
    case = r["case"]
    fn = checks_gates.confirm_schedule(vh) if "schedule" in case else checks_sess.confirm_session(vh)
    got, _ = fn(case)
    if got:
        print("VIOLATION property=%s replay=%s" % (prop, path))
        print("  " + json.dumps(got[0])[:600])
        return 1
    print("replay: the recorded mismatch does not occur on this tree")
    return 0


CHECKS["C01"] = checks_sess.run_c01
REPLAY["C01"] = replay_c01

CHECKS["C08"] = checks_pure.run_c08


def replay_c08(prop, path):
    import checks_api
    r = json.load(open(path))
    vh = build_vh()
    case = r["case"]
    import checks_apiops
    fn = (checks_apiops.confirm_fn(vh) if ("api_case" in case or "api_random" in case) else
          checks_api.cond_api_confirm(vh) if case["key"].get("via", "").startswith("api") else checks_pure.cond_confirm(vh))
    got, _ = fn(case)
    if got:
        print("VIOLATION property=%s replay=%s" % (prop, path))
        print("  " + json.dumps(got[0])[:600])
        return 1
    print("replay: the recorded mismatch does not occur on this tree")
    return 0


REPLAY["C08"] = replay_c08

GENERIC_CONFIRM["C17"] = checks_serial.confirm_fn
CHECKS["C17"] = checks_serial.run_check
REPLAY["C17"] = replay_generic

GENERIC_CONFIRM["C13"] = checks_pure.iso_confirm
CHECKS["C13"] = checks_pure.run_c13
REPLAY["C13"] = replay_generic

CHECKS["C14"] = checks_sess.run_c14
REPLAY["C14"] = replay_c01

GENERIC_CONFIRM["C16"] = checks_reconn.confirm_fn
CHECKS["C16"] = checks_reconn.run_check
REPLAY["C16"] = replay_generic


def replay_c18(prop, path):
    import checks_locks
    r = json.load(open(path))
    case = r["case"]
    if case.get("static"):
        vh = build_vh()
        _, mism = checks_locks.extracted_check(vh)
        got = [m for m in mism if m["what"] == r["mismatch"]["what"]]
    elif case.get("case"):
        got = checks_locks.run_cases(build_vh(), [case["case"]])["mismatches"]
    else:
        got = checks_locks.run_cases(build_vh(race=True), [], stress_ms=5000, race=True)["mismatches"]
    if got:
        print("VIOLATION property=%s replay=%s" % (prop, path))
        print("  " + json.dumps(got[0])[:600])
        return 1
    print("replay: the recorded mismatch does not occur on this tree")
    return 0


import checks_locks
CHECKS["C18"] = checks_locks.run_check
REPLAY["C18"] = replay_c18


def replay_wire(prop, path):
    import checks_wire
    r = json.load(open(path))
    vh = build_vh()
    got, _ = checks_wire.confirm_fn(vh)(r["case"])
    if got:
        print("VIOLATION property=%s replay=%s" % (prop, path))
        print("  " + json.dumps(got[0])[:600])
        return 1
    print("replay: the recorded mismatch does not occur on this tree")
    return 0


import checks_wire
CHECKS["C12"] = checks_wire.run_c12
CHECKS["C19"] = checks_wire.run_c19
REPLAY["C12"] = replay_wire
REPLAY["C19"] = replay_wire


def replay_c09(prop, path):
    import checks_wire
    r = json.load(open(path))
    got, _ = checks_wire.confirm_fn(build_vh(), "TraceMapper.tla")(r["case"])
    if got:
        print("VIOLATION property=%s replay=%s" % (prop, path))
        print("  " + json.dumps(got[0])[:600])
        return 1
    print("replay: the recorded mismatch does not occur on this tree")
    return 0


CHECKS["C09"] = checks_wire.run_c09
REPLAY["C09"] = replay_c09


def replay_c20(prop, path):
    import checks_wire
    r = json.load(open(path))
    got, _ = checks_wire.confirm_fn(build_vh(), "TraceGen.tla")(r["case"])
    if got:
        print("VIOLATION property=%s replay=%s" % (prop, path))
        print("  " + json.dumps(got[0])[:600])
        return 1
    print("replay: the recorded mismatch does not occur on this tree")
    return 0


CHECKS["C20"] = checks_wire.run_c20
REPLAY["C20"] = replay_c20
