"""Schedules of Session.tla forced on real goroutines with the verif pause points."""
import json, os, random, time
from common import *
import txnfam

SESS_CFG = """SPECIFICATION Spec
CONSTANTS Rows <- MCRows
 TableOf <- MCTableOf
 Monitors <- MCMonitors
 MaxTxns = %d
 ClientVariant = "%s"
 ServerVariant = "%s"
%s
CHECK_DEADLOCK FALSE
"""
FILES = ["Session.tla", "MC_Session.tla"]


def model_check(maxtxns):
    """The intended design satisfies C01 in every interleaving; each pinned variant must be refuted."""
    with Scratch("mcsess") as sc:
        copy_spec(sc.dir, FILES)
        open(sc.path("MC.cfg"), "w").write(SESS_CFG % (maxtxns, "intended", "intended", "INVARIANTS CacheMirrors NoInconsistency\nVIEW View"))
        rc, out, wall = run_tlc(sc.dir, "MC_Session.tla", cfg="MC.cfg", workers=NCPU, timeout=3000)
        if "Model checking completed. No error has been found." not in out:
            raise Broken("MC_Session: the intended design violates C01 or TLC failed:\n" + out[-3000:])
        gen, dist = tlc_stats(out)
        refuted = {}
        for cv, sv in (("pinned", "intended"), ("intended", "pinned")):
            open(sc.path("MCv.cfg"), "w").write(SESS_CFG % (2, cv, sv, "INVARIANTS CacheMirrors NoInconsistency\nVIEW View"))
            rc, o2, w2 = run_tlc(sc.dir, "MC_Session.tla", cfg="MCv.cfg", workers=4, timeout=900)
            if "is violated" not in o2:
                raise Broken("MC_Session: variant client=%s server=%s is not refuted: the invariants are vacuous" % (cv, sv))
            refuted["client=%s,server=%s" % (cv, sv)] = True
        return {"mc_states": dist, "mc_transitions": gen, "mc_wall": round(wall, 1), "mc_maxtxns": maxtxns, "variants_refuted": refuted}


def emit_schedules(maxtxns, server="pinned"):
    """Environment-complete behaviours: the permissive server variant enables every order a server
    without the registration lock can show; the intended variant those of the current server."""
    with Scratch("sesemit") as sc:
        copy_spec(sc.dir, FILES)
        open(sc.path("MC.cfg"), "w").write(SESS_CFG % (maxtxns, "intended", server, "INVARIANTS EmitSchedules"))
        rc, out, wall = run_tlc(sc.dir, "MC_Session.tla", cfg="MC.cfg", workers=1, timeout=3000)
        if "Model checking completed" not in out:
            raise Broken("MC_Session emission failed:\n" + out[-3000:])
        return tlc_prints(out, "CASE")


def run_shards(vh, scheds, all_methods=False):
    nsh = min(NCPU, max(1, len(scheds) // 40))
    shards = [scheds[i::nsh] for i in range(nsh)]

    def one(sh):
        with Scratch("sched") as sc:
            with open(sc.path("cases.ndjson"), "w") as f:
                for c in sh:
                    f.write(json.dumps(c) + "\n")
            cmd = [vh, "sched-cases", "-cases", sc.path("cases.ndjson"), "-o", sc.path("trace.ndjson"), "-stats", sc.path("stats.ndjson"),
                   "-schema-out", sc.path("schema.abs.json")] + (["-all-methods"] if all_methods else [])
            rc, o, e = run(cmd, timeout=3000)
            if rc != 0:
                raise Broken("vh sched-cases failed: " + e[-3000:])
            res = txnfam.validate_trace(sc.dir, timeout=3000)
            trace = txnfam.read_trace(sc.path("trace.ndjson"))
            stats = [json.loads(l) for l in open(sc.path("stats.ndjson")) if l.strip()]
            # map a mismatch line back to its schedule: count reset events
            resets = [i for i, ev in enumerate(trace) if ev["ev"] == "reset"]
            res["cases"] = []
            for m in res["mismatches"]:
                k = max(j for j, pos in enumerate(resets) if pos < m["line"])
                st = stats[k]
                res["cases"].append({"mismatch": m, "schedule": sh[st["index"]]["steps"], "combo": st["combo"]})
            res["runs"] = len(stats)
            res["followed"] = sum(1 for s in stats if s["followed"])
            res["sample"] = {"schedule": [s[:2] for s in sh[0]["steps"]], "realised": stats[0]["realised"]} if stats else None
            return res
    return pmap(one, shards)


def confirm_schedule(vh):
    def confirm(case):
        sched = {"steps": case["schedule"], "combo": case["combo"]}
        res = run_shards(vh, [sched])
        want = case["mismatch"]
        got = [c["mismatch"] for r in res for c in r["cases"] if c["mismatch"]["what"] == want["what"]]
        return got, None
    return confirm


def run_c01_schedules(vh, tier, sd):
    cov = model_check(2 if tier == "quick" else 3)
    strict = emit_schedules(2, "intended")
    keys = {json.dumps(s) for s in strict}
    loose = [s for s in emit_schedules(2, "pinned") if json.dumps(s) not in keys]
    total = len(strict) + len(loose)
    rnd = random.Random(sd)
    rnd.shuffle(strict)
    rnd.shuffle(loose)
    sel = strict[:450] + loose[:250] if tier == "quick" else strict + loose
    cases = [{"steps": s, "combo": (i + sd) % 9} for i, s in enumerate(sel)]

    # transactions that span the tables of both monitors, with both monitors on monitor_cond_since behind the proxy's
    # since mode: the two notifications of such a transaction carry one transaction id
    def wide(s):
        return any(st[0] == "TBegin" and len({"T2" if c[0] == "r3" else "T1" for c in st[1]}) > 1 for st in s)
    ws = [s for s in strict if wide(s)]
    cases += [{"steps": s, "combo": 8} for s in (ws[:150] if tier == "quick" else ws[:1500])]
    res = run_shards(vh, cases, all_methods=False)
    out = {"cases": [c for r in res for c in r["cases"] if c["mismatch"].get("prop") == "C01"],
           "states": cov["mc_states"] + sum(r["states"] for r in res), "transitions": cov["mc_transitions"] + sum(r["transitions"] for r in res),
           "traces": len(res), "samples": [r["sample"] for r in res if r.get("sample")],
           "coverage": dict(cov, schedules_enumerated=total, schedules_run=sum(r["runs"] for r in res),
                            schedules_followed_exactly=sum(r["followed"] for r in res))}
    return out
