"""Shared plumbing for the property checks: building the harness from /repo's
working tree, running TLC, scratch directories, evidence files, verdicts."""
import json, os, re, shutil, subprocess, sys, tempfile, time, hashlib, glob
from concurrent.futures import ThreadPoolExecutor

VERIF = os.path.dirname(os.path.dirname(os.path.abspath(__file__)))
REPO = os.environ.get("VERIF_REPO", "/repo")
SPEC = os.path.join(VERIF, "spec")
WORK = os.path.join(VERIF, "work")
REPLAYS = os.path.join(VERIF, "replays")
EVIDENCE = os.path.join(VERIF, "evidence")
NCPU = os.cpu_count() or 4

GOENV = dict(os.environ, GOFLAGS="-mod=mod", GOPROXY="off", GOSUMDB="off", GOTOOLCHAIN="local",
             GOCACHE=os.environ.get("GOCACHE", os.path.join(WORK, "gocache")))


GENMODEL_FROM_REPO = True


class Broken(Exception):
    """The check itself could not run (exit 2): never reported as a violation."""


def log(*a):
    print(*a, file=sys.stderr, flush=True)


def seed():
    try:
        return int(os.environ.get("VERIF_SEED", "1"))
    except ValueError:
        return 1


def build_vh(race=False):
    """Builds the harness against /repo's current working tree with the hooks on."""
    os.makedirs(os.path.join(WORK, "bin"), exist_ok=True)
    h = os.path.join(VERIF, "harness")
    shutil.copyfile(os.path.join(REPO, "go.sum"), os.path.join(h, "go.sum"))
    # the generated model family (C13, C20) comes from /repo's own generator; if the
    # generator is broken the committed copy keeps the other checks working
    gen = os.path.join(h, "genmodel")
    os.makedirs(gen, exist_ok=True)
    p = subprocess.run(["go", "run", "./cmd/modelgen", "-extended", "-p", "genmodel", "-o", gen,
                        os.path.join(VERIF, "schemas", "iso.ovsschema")], cwd=REPO, env=GOENV, capture_output=True, text=True)
    ok = p.returncode == 0 and os.path.exists(os.path.join(gen, "d.go"))
    if ok:
        p2 = subprocess.run(["go", "build", "./genmodel/"], cwd=h, env=GOENV, capture_output=True, text=True)
        ok = p2.returncode == 0
    if not ok:
        fb = os.path.join(h, "genmodel.fallback")
        for f in os.listdir(fb):
            shutil.copyfile(os.path.join(fb, f), os.path.join(gen, f[:-4]))
    global GENMODEL_FROM_REPO
    GENMODEL_FROM_REPO = ok
    out = os.path.join(WORK, "bin", "vh-race" if race else "vh")
    cmd = ["go", "build", "-tags", "verif", "-o", out]
    if race:
        cmd.append("-race")
    cmd.append("./cmd/vh")
    p = subprocess.run(cmd, cwd=h, env=GOENV, capture_output=True, text=True)
    if p.returncode != 0:
        raise Broken("harness does not build against /repo:\n" + p.stdout + p.stderr)
    return out


class Scratch:
    def __init__(self, tag):
        self.dir = tempfile.mkdtemp(prefix="verif-%s-" % tag)

    def path(self, *a):
        return os.path.join(self.dir, *a)

    def close(self):
        shutil.rmtree(self.dir, ignore_errors=True)

    def __enter__(self):
        return self

    def __exit__(self, *a):
        self.close()


def copy_spec(dst, names=None):
    for f in glob.glob(os.path.join(SPEC, "*.tla")) + glob.glob(os.path.join(SPEC, "*.cfg")):
        if names is None or os.path.basename(f) in names:
            shutil.copy(f, dst)


TLC_STATS = re.compile(r"(\d+) states generated, (\d+) distinct states found")


def run_tlc(cwd, module, cfg=None, workers=1, timeout=600, extra=(), heap=None, deadlock=True):
    """Runs TLC; returns (returncode, stdout). TLC's own failures raise Broken
    unless the caller asks to inspect them."""
    md = tempfile.mkdtemp(prefix="tlcmd-", dir=cwd)
    cmd = ["tlc", "-workers", str(workers), "-metadir", md]
    if cfg:
        cmd += ["-config", cfg]
    cmd += list(extra) + [module]
    env = dict(os.environ)
    # the JVM's default maximum heap is a quarter of the machine's memory: sixteen validations side by side
    # were killed by the kernel. Cap every TLC run (trace validations need well under a gigabyte).
    opts = env.get("JAVA_TOOL_OPTIONS", "")
    if "-Xmx" not in opts:
        env["JAVA_TOOL_OPTIONS"] = (opts + " -Xmx%s" % (heap or ("3g" if workers <= 2 else "8g"))).strip()
    t0 = time.time()
    try:
        p = subprocess.run(cmd, cwd=cwd, capture_output=True, text=True, timeout=timeout, env=env)
    except subprocess.TimeoutExpired:
        subprocess.run(["pkill", "-f", "tlc2.TL[C].*" + re.escape(md)], capture_output=True)
        raise Broken("TLC timed out after %ds on %s" % (timeout, module))
    finally:
        shutil.rmtree(md, ignore_errors=True)
    return p.returncode, p.stdout + p.stderr, time.time() - t0


def tlc_stats(out):
    m = None
    for m in TLC_STATS.finditer(out):
        pass
    if not m:
        return 0, 0
    return int(m.group(1)), int(m.group(2))


def tlc_prints(out, tag):
    """Extracts <<"TAG", "json">> lines printed by PrintT."""
    res = []
    pat = re.compile(r'^<<"%s", (.*)>>$' % re.escape(tag))
    for line in out.splitlines():
        m = pat.match(line.strip())
        if not m:
            continue
        body = m.group(1)
        try:
            if body.startswith('"'):
                s = json.loads(body)          # the TLA+ string literal
                res.append(json.loads(s))     # its JSON content
            else:
                res.append(json.loads(body))
        except Exception:
            res.append({"raw": body})
    return res


def write_evidence(prop, tier, level, coverage, wall, violations=0, assumptions=()):
    os.makedirs(EVIDENCE, exist_ok=True)
    ev = {"property_id": prop, "tier": tier, "seed": seed(), "level": level, "coverage": coverage,
          "assumptions": list(assumptions), "wall_s": round(wall, 2), "violations": violations}
    with open(os.path.join(EVIDENCE, prop + ".json"), "w") as f:
        json.dump(ev, f, indent=1, sort_keys=True)
        f.write("\n")


def save_replay(prop, obj):
    os.makedirs(REPLAYS, exist_ok=True)
    body = json.dumps(obj, sort_keys=True)
    h = hashlib.sha1(body.encode()).hexdigest()[:12]
    p = os.path.join(REPLAYS, "%s-%s.json" % (prop, h))
    with open(p, "w") as f:
        f.write(body)
    return p


def load_known():
    p = os.path.join(VERIF, "known_findings.json")
    if not os.path.exists(p):
        return []
    with open(p) as f:
        return json.load(f).get("findings", [])


def pmap(fn, items, workers=None):
    workers = workers or max(1, min(NCPU, len(items)))
    with ThreadPoolExecutor(max_workers=workers) as ex:
        return list(ex.map(fn, items))


def run(cmd, cwd=None, timeout=600, env=None):
    try:
        p = subprocess.run(cmd, cwd=cwd, capture_output=True, text=True, timeout=timeout, env=env)
    except subprocess.TimeoutExpired:
        raise Broken("timeout running %s" % " ".join(cmd[:4]))
    return p.returncode, p.stdout, p.stderr
