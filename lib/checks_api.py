"""The client API on a synchronised client: conditional API part of C08."""
import json, os, random, shutil
from common import *
import checks_pure


def _run(vh, cases, group):
    with Scratch("capi") as sc:
        shutil.copy(os.path.join(VERIF, "schemas", "cond.abs.json"), sc.path("schema.abs.json"))
        with open(sc.path("cases.ndjson"), "w") as f:
            for c in cases:
                f.write(json.dumps(c) + "\n")
        rc, o, e = run([vh, "cond-cases", "-cases", sc.path("cases.ndjson"), "-api", group, "-o", sc.path("trace.ndjson")], timeout=3000)
        if rc != 0:
            raise Broken("vh cond-cases -api failed: " + e[-3000:])
        trace = [json.loads(l) for l in open(sc.path("trace.ndjson")) if l.strip()]
        copy_spec(sc.dir, checks_pure.COND_FILES)
        open(sc.path("T.cfg"), "w").write("SPECIFICATION Spec\nCHECK_DEADLOCK FALSE\n")
        rc, out, wall = run_tlc(sc.dir, "TraceCond.tla", cfg="T.cfg", workers=1, timeout=3000)
        done = tlc_prints(out, "TRACE-COMPLETE")
        if rc != 0 or not done:
            raise Broken("TraceCond validation (API) did not complete:\n" + out[-3000:])
        mm = tlc_prints(out, "MISMATCH")
        gen, dist = tlc_stats(out)
        return {"events": len(trace), "states": dist, "transitions": gen,
                "cases": [{"mismatch": m, "key": checks_pure.cond_key(trace[m["line"] - 1])} for m in mm]}


def cond_api(vh, tier):
    # the same enumeration as part A; pairs and singles through the API
    with Scratch("cemit2") as sc:
        copy_spec(sc.dir, checks_pure.COND_FILES)
        shutil.copy(os.path.join(VERIF, "schemas", "cond.abs.json"), sc.path("schema.abs.json"))
        open(sc.path("MC.cfg"), "w").write("SPECIFICATION Spec\nCHECK_DEADLOCK FALSE\n")
        rc, out, wall = run_tlc(sc.dir, "MC_Cond.tla", cfg="MC.cfg", workers=1, timeout=1800)
    cases = [c for c in tlc_prints(out, "CASE") if c["t"] in ("single", "pair")]
    rnd = random.Random(seed())
    rnd.shuffle(cases)
    n = 240 if tier == "quick" else len(cases)
    jobs = [(cases[i:n:3], g) for i, g in enumerate(["int", "str", "uuid"])]
    res = pmap(lambda j: _run(vh, j[0], j[1]), jobs)
    return {"events": sum(r["events"] for r in res), "states": sum(r["states"] for r in res),
            "transitions": sum(r["transitions"] for r in res), "traces": len(res),
            "cases": [c for r in res for c in r["cases"]]}


def cond_api_confirm(vh):
    def confirm(case):
        k = case["key"]
        rows = [dict(present=True, **k["rows"]["u%d" % (i + 1)]) for i in range(len(k["rows"]))]
        r = _run(vh, [{"t": "replay", "rows": rows, "conds": k["caseConds"]}], k["group"])
        got = [c["mismatch"] for c in r["cases"] if c["key"] == k and c["mismatch"]["what"] == case["mismatch"]["what"]]
        return got, None
    return confirm
