"""Checks C10 (difference laws) and C11 (aggregation of updates): TLC checks the
laws / the case analysis on the specification, enumerates the cases, the harness
runs them through the real updates package, TLC judges the recorded outcomes."""
import json, os, random, time
from common import *
import findings


def _emit(module, cfg_text, files, workers=1, timeout=1800):
    with Scratch("emit") as sc:
        copy_spec(sc.dir, files)
        open(sc.path("MC.cfg"), "w").write(cfg_text)
        rc, out, wall = run_tlc(sc.dir, module, cfg="MC.cfg", workers=workers, timeout=timeout)
        if "Model checking completed. No error has been found." not in out:
            raise Broken("%s: the specification violates its own laws or TLC failed:\n%s" % (module, out[-3000:]))
        return out, wall


def _validate(vh, subcmd, cases, trace_module, files, extra_args=(), corrupt=None, key_of=None):
    """Shards cases, runs `vh subcmd`, validates with TLC. corrupt(ev) -> corrupted copy
    appended to each shard: the trace spec must flag exactly that line (binding self-test)."""
    nsh = min(NCPU, max(1, len(cases) // 300))
    shards = [cases[i::nsh] for i in range(nsh)]

    def one(arg):
        idx, sh = arg
        with Scratch("pure") as sc:
            with open(sc.path("cases.ndjson"), "w") as f:
                for c in sh:
                    f.write(json.dumps(c) + "\n")
            rc, o, e = run([vh, subcmd, "-cases", sc.path("cases.ndjson"), "-o", sc.path("trace.ndjson")] + list(extra_args(idx) if callable(extra_args) else extra_args), timeout=3000)
            if rc != 0:
                raise Broken("vh %s failed: %s" % (subcmd, e[-3000:]))
            trace = [json.loads(l) for l in open(sc.path("trace.ndjson")) if l.strip()]
            selfline = 0
            if corrupt is not None:
                bad = corrupt(trace)
                if bad is not None:
                    trace.append(bad)
                    selfline = len(trace)
                    with open(sc.path("trace.ndjson"), "a") as f:
                        f.write(json.dumps(bad) + "\n")
            copy_spec(sc.dir, files)
            open(sc.path("T.cfg"), "w").write("SPECIFICATION Spec\nCHECK_DEADLOCK FALSE\n")
            rc, out, wall = run_tlc(sc.dir, trace_module, cfg="T.cfg", workers=1, timeout=3000)
            done = tlc_prints(out, "TRACE-COMPLETE")
            if rc != 0 or not done:
                raise Broken("%s validation did not complete:\n%s" % (trace_module, out[-3000:]))
            mm = tlc_prints(out, "MISMATCH")
            if selfline:
                if not any(m["line"] == selfline for m in mm):
                    raise Broken("%s accepted a deliberately corrupted event: the trace specification does not bind" % trace_module)
                mm = [m for m in mm if m["line"] != selfline]
            gen, dist = tlc_stats(out)
            cases_ = [{"mismatch": m, "key": key_of(trace[m["line"] - 1])} for m in mm]
            sample = trace[len(trace) // 2] if trace else None
            return {"events": len(trace) - (1 if selfline else 0), "states": dist, "transitions": gen, "cases": cases_,
                    "selftest": bool(selfline), "sample": sample}
    return pmap(one, list(enumerate(shards)))


# ------------------------------------------------------------------ C10
DIFF_FILES = ["Values.tla", "Diff.tla", "MC_Diff.tla", "TraceDiff.tla"]


def diff_key(ev):
    if ev["ev"] == "diff":
        return {"t": "diff", "via": ev.get("via", "update"), "kind": ev["kind"], "a": ev["a"], "b": ev["b"], "col": ev["col"], "oa": ev["oa"], "ob": ev["ob"]}
    return {"t": "peer", "kind": ev["kind"], "a": ev["a"], "b": ev["d"], "col": ev["col"]}


def diff_corrupt(trace):
    for ev in trace:
        if ev["ev"] == "diff" and ev["hasModify"] and ev["kind"] == "set" and ev["err"] == "":
            bad = dict(ev)
            bad["applied"] = list(ev["a"])          # claims applying gave back a
            return bad
    return None


def diff_confirm(vh):
    def confirm(case):
        k = case["key"]
        res = _validate(vh, "diff-cases", [{"t": "diff", "kind": k["kind"], "a": k["a"], "b": k["b"]}], "TraceDiff.tla", DIFF_FILES, key_of=diff_key)
        got = [c["mismatch"] for r in res for c in r["cases"] if c["mismatch"]["what"] == case["mismatch"]["what"] and c["key"] == k]
        return got, None
    return confirm


def run_c10(prop, tier):
    t0 = time.time()
    vh = build_vh()
    out, wall = _emit("MC_Diff.tla", "SPECIFICATION Spec\nCHECK_DEADLOCK FALSE\n", DIFF_FILES)
    cases = tlc_prints(out, "CASE")
    nrand = 1500 if tier == "quick" else 20000
    sd = seed()
    res = _validate(vh, "diff-cases", cases, "TraceDiff.tla", DIFF_FILES,
                    extra_args=lambda i: ["-random", str(nrand // 8), "-seed", str(sd * 100 + i)],
                    corrupt=diff_corrupt, key_of=diff_key)
    allcases = [c for r in res for c in r["cases"]]
    verdict = findings.adjudicate(prop, allcases, diff_confirm(vh))
    cov = {"states": sum(r["states"] for r in res), "transitions": sum(r["transitions"] for r in res),
           "traces_validated_against_impl": len(res), "pairs_enumerated": len(cases), "exhaustive": True,
           "executions_validated": sum(r["events"] for r in res), "random_pairs": nrand // 8 * len(res),
           "laws_checked_by_tlc": ["LawChanged", "LawApply", "LawMerge", "ToggleTwice"], "tlc_law_wall_s": round(wall, 1),
           "binding_selftest_rejected": all(r["selftest"] for r in res),
           "samples": [r["sample"] for r in res[:2] if r["sample"]], "known_findings_seen": verdict["known"],
           "rule": "all pairs of subsets of a 4-element universe, all pairs of maps over 3 keys x 2 values, optionals, atoms (TLC enumerates, "
                   "TLC checks the laws on the spec); each pair through AddOperation(update) -> Modify -> JSON -> AddRowUpdate2 on a fresh "
                   "model, for integer/string/real/uuid columns and 5 element orders; sets and maps also through one mutate operation "
                   "(delete what goes, insert what comes, a mutation without effect first or last); plus seeded random larger values"}
    write_evidence(prop, tier, "model_checking", cov, time.time() - t0, violations=len(verdict["violations"]),
                   assumptions=["column values instantiated from an integer universe per column type"])
    return verdict


# ------------------------------------------------------------------ C11
MERGE_FILES = ["Values.tla", "Diff.tla", "Merge.tla", "MC_Merge.tla", "TraceMerge.tla"]
MERGE_CFG = "SPECIFICATION Spec\nCONSTANTS MaxLen = %d\n Emit = %s\nINVARIANTS NetInvariant Supported\nCHECK_DEADLOCK FALSE\n"


def merge_key(ev):
    return {"orig": ev["orig"], "ops": ev["ops"], "group": ev["group"]}


def merge_corrupt(trace):
    for ev in trace:
        if ev["k"] == "modify" and ev["err"] == "":
            bad = json.loads(json.dumps(ev))
            bad["new"]["a"] = bad["new"]["a"] + 1
            return bad
    return None


def merge_confirm(vh):
    def confirm(case):
        k = case["key"]
        res = _validate(vh, "merge-cases", [{"orig": k["orig"], "ops": k["ops"]}], "TraceMerge.tla", MERGE_FILES, key_of=merge_key)
        got = [c["mismatch"] for r in res for c in r["cases"] if c["mismatch"]["what"] == case["mismatch"]["what"] and c["key"] == k]
        return got, None
    return confirm


def run_c11(prop, tier):
    t0 = time.time()
    vh = build_vh()
    # design: the case analysis of merge.go equals the net update, all sequences up to 4
    out, wall = _emit("MC_Merge.tla", MERGE_CFG % (4, "FALSE"), MERGE_FILES, workers=NCPU)
    gen, dist = tlc_stats(out)
    out2, _ = _emit("MC_Merge.tla", MERGE_CFG % (3 if tier == "quick" else 4, "TRUE"), MERGE_FILES, workers=1, timeout=3000)
    cases = tlc_prints(out2, "CASE")
    total = len(cases)
    rnd = random.Random(seed())
    rnd.shuffle(cases)
    if tier == "quick":
        cases = cases[:6000]
    else:
        cases = cases[:120000]
    res = _validate(vh, "merge-cases", cases, "TraceMerge.tla", MERGE_FILES, corrupt=merge_corrupt, key_of=merge_key)
    allcases = [c for r in res for c in r["cases"]]
    verdict = findings.adjudicate(prop, allcases, merge_confirm(vh))
    cov = {"states": dist + sum(r["states"] for r in res), "transitions": gen + sum(r["transitions"] for r in res),
           "mc_states": dist, "mc_wall_s": round(wall, 1),
           "traces_validated_against_impl": len(res), "sequences_enumerated": total, "sequences_replayed": len(cases),
           "executions_validated": sum(r["events"] for r in res),
           "binding_selftest_rejected": all(r["selftest"] for r in res),
           "samples": [r["sample"] for r in res[:2] if r["sample"]], "known_findings_seen": verdict["known"],
           "rule": "TLC explores every sequence (length <= 4) of 23 insert/update/mutate/delete operations on one row from 4 starting rows and "
                   "checks that merge.go's case analysis equals the net update; sequences (length 2..3 quick, ..4 thorough) are executed through "
                   "AddOperation + Merge exactly as a transaction does, on integer, string, uuid and real columns"}
    write_evidence(prop, tier, "model_checking", cov, time.time() - t0, violations=len(verdict["violations"]),
                   assumptions=["delete followed by re-insert of the same row is outside the model (the implementation rejects it)"])
    return verdict


# ------------------------------------------------------------------ C08 (part A: cache and select)
COND_FILES = ["Values.tla", "Schema.tla", "Cond.tla", "MC_Cond.tla", "TraceCond.tla"]


def cond_key(ev):
    return {"rows": ev["rows"], "conds": ev["conds"], "caseConds": ev.get("caseConds", ev["conds"]), "group": ev["group"],
            "idxcfg": ev["idxcfg"], "via": ev["via"], "mode": ev["mode"]}


def cond_corrupt(trace):
    for ev in trace:
        if ev["err"] == "" and len(ev["uuids"]) >= 1:
            bad = json.loads(json.dumps(ev))
            bad["uuids"] = bad["uuids"][1:]
            return bad
    return None


def _cond_validate(vh, cases, corrupt=None):
    import shutil
    nsh = min(NCPU, max(1, len(cases) // 60))
    shards = [cases[i::nsh] for i in range(nsh)]

    def one(sh):
        with Scratch("cond") as sc:
            shutil.copy(os.path.join(VERIF, "schemas", "cond.abs.json"), sc.path("schema.abs.json"))
            with open(sc.path("cases.ndjson"), "w") as f:
                for c in sh:
                    f.write(json.dumps(c) + "\n")
            rc, o, e = run([vh, "cond-cases", "-cases", sc.path("cases.ndjson"), "-o", sc.path("trace.ndjson")], timeout=3000)
            if rc != 0:
                raise Broken("vh cond-cases failed: " + e[-3000:])
            trace = [json.loads(l) for l in open(sc.path("trace.ndjson")) if l.strip()]
            selfline = 0
            if corrupt is not None:
                bad = corrupt(trace)
                if bad is not None:
                    trace.append(bad)
                    selfline = len(trace)
                    with open(sc.path("trace.ndjson"), "a") as f:
                        f.write(json.dumps(bad) + "\n")
            copy_spec(sc.dir, COND_FILES)
            open(sc.path("T.cfg"), "w").write("SPECIFICATION Spec\nCHECK_DEADLOCK FALSE\n")
            rc, out, wall = run_tlc(sc.dir, "TraceCond.tla", cfg="T.cfg", workers=1, timeout=3000)
            done = tlc_prints(out, "TRACE-COMPLETE")
            if rc != 0 or not done:
                raise Broken("TraceCond validation did not complete:\n" + out[-3000:])
            mm = tlc_prints(out, "MISMATCH")
            if selfline:
                if not any(m["line"] == selfline for m in mm):
                    raise Broken("TraceCond accepted a deliberately corrupted event: the trace specification does not bind")
                mm = [m for m in mm if m["line"] != selfline]
            gen, dist = tlc_stats(out)
            return {"events": len(trace) - (1 if selfline else 0), "states": dist, "transitions": gen, "selftest": bool(selfline),
                    "cases": [{"mismatch": m, "key": cond_key(trace[m["line"] - 1])} for m in mm],
                    "sample": trace[len(trace) // 3] if trace else None}
    return pmap(one, shards)


def cond_confirm(vh):
    def confirm(case):
        k = case["key"]
        rows = [dict(present=True, **k["rows"]["u%d" % (i + 1)]) for i in range(len(k["rows"]))]
        res = _cond_validate(vh, [{"t": "replay", "rows": rows, "conds": k["caseConds"]}])
        got = [c["mismatch"] for r in res for c in r["cases"] if c["key"] == k and c["mismatch"]["what"] == case["mismatch"]["what"]]
        return got, None
    return confirm


def run_c08(prop, tier):
    import shutil
    t0 = time.time()
    vh = build_vh()
    with Scratch("cemit") as sc:
        copy_spec(sc.dir, COND_FILES)
        shutil.copy(os.path.join(VERIF, "schemas", "cond.abs.json"), sc.path("schema.abs.json"))
        open(sc.path("MC.cfg"), "w").write("SPECIFICATION Spec\nCHECK_DEADLOCK FALSE\n")
        rc, out, wall = run_tlc(sc.dir, "MC_Cond.tla", cfg="MC.cfg", workers=1, timeout=1800)
        if "Model checking completed. No error has been found." not in out:
            raise Broken("MC_Cond failed:\n" + out[-3000:])
    cases = tlc_prints(out, "CASE")
    total = len(cases)
    if tier == "quick":
        rnd = random.Random(seed())
        single = [c for c in cases if c["t"] == "single"]
        rest = [c for c in cases if c["t"] != "single"]
        rnd.shuffle(rest)
        cases = single + rest[:500]
    res = _cond_validate(vh, cases, corrupt=cond_corrupt)
    import checks_api
    api = checks_api.cond_api(vh, tier)
    import checks_apiops
    ops_cases, ops_cov = checks_apiops.run_for(prop, tier, vh)
    allcases = [c for r in res for c in r["cases"]] + api["cases"] + ops_cases
    verdict = findings.adjudicate(prop, allcases, lambda c: (checks_apiops.confirm_fn(vh)(c) if ("api_case" in c or "api_random" in c) else
                                                             checks_api.cond_api_confirm(vh)(c) if c["key"].get("via", "").startswith("api") else cond_confirm(vh)(c)))
    cov = {"states": sum(r["states"] for r in res) + api["states"], "transitions": sum(r["transitions"] for r in res) + api["transitions"],
           "traces_validated_against_impl": len(res) + api["traces"], "cases_enumerated": total, "cases_replayed": len(cases),
           "selections_validated": sum(r["events"] for r in res), "api_selections_validated": api["events"],
           "binding_selftest_rejected": all(r["selftest"] for r in res),
           "samples": [r["sample"] for r in res[:2] if r["sample"]], "known_findings_seen": verdict["known"], "model_api": ops_cov,
           "rule": "TLC enumerates, per column kind, every (function, argument) with a table holding one row per value of the kind, all "
                   "ordered pairs of a 32-condition pool and 800 triples over a 4-row table; each case is evaluated by RowsByCondition under 7 "
                   "index configurations and by select in a transaction, for integer/string/uuid/real columns; TLC compares with Cond!Select; "
                   "the conditional API (Where/WhereAll/WhereAny List and the operations they generate) is validated on a synchronised client; "
                   "the calls of MC_Api (Where(models) by uuid, by first / second index, with unset fields; WhereAll / WhereAny) list exactly the rows "
                   "Api!Meant gives"}
    write_evidence(prop, tier, "model_checking", cov, time.time() - t0, violations=len(verdict["violations"]),
                   assumptions=["column values instantiated from an integer universe per column type"])
    return verdict


# ------------------------------------------------------------------ C13
ISO_FILES = ["Iso.tla", "MC_Iso.tla", "TraceIso.tla"]
ISO_CFG = 'SPECIFICATION Spec\nCONSTANTS Variant = "%s"\n WritePaths <- MCWritePaths\n ReadPaths <- MCReadPaths\nINVARIANT Isolated\nCHECK_DEADLOCK FALSE\n'


def iso_key(ev):
    return {k: ev.get(k, "") for k in ("ev", "t", "family", "write", "read", "field", "mutation", "shape")}


def _iso_run(vh, cases):
    with Scratch("iso") as sc:
        with open(sc.path("cases.ndjson"), "w") as f:
            for c in cases:
                f.write(json.dumps(c) + "\n")
        rc, o, e = run([vh, "iso-cases", "-cases", sc.path("cases.ndjson"), "-ovs-schema", os.path.join(VERIF, "schemas", "iso.ovsschema"),
                        "-o", sc.path("trace.ndjson")], timeout=1800)
        if rc != 0:
            raise Broken("vh iso-cases failed: " + e[-3000:])
        trace = [json.loads(l) for l in open(sc.path("trace.ndjson")) if l.strip()]
        # binding self-test: one event claiming the cached row changed must be rejected
        bad = json.loads(json.dumps(next(x for x in trace if x["ev"] == "iso")))
        bad["unchanged"] = False
        with open(sc.path("trace.ndjson"), "a") as f:
            f.write(json.dumps(bad) + "\n")
        copy_spec(sc.dir, ISO_FILES)
        open(sc.path("T.cfg"), "w").write("SPECIFICATION Spec\nCHECK_DEADLOCK FALSE\n")
        rc, out, wall = run_tlc(sc.dir, "TraceIso.tla", cfg="T.cfg", workers=1, timeout=1800)
        if rc != 0 or not tlc_prints(out, "TRACE-COMPLETE"):
            raise Broken("TraceIso validation did not complete:\n" + out[-3000:])
        mm = tlc_prints(out, "MISMATCH")
        if not any(m["line"] == len(trace) + 1 for m in mm):
            raise Broken("TraceIso accepted a deliberately corrupted event")
        mm = [m for m in mm if m["line"] <= len(trace)]
        gen, dist = tlc_stats(out)
        return {"events": len(trace), "states": dist, "transitions": gen, "trace": trace,
                "cases": [{"mismatch": m, "key": iso_key(trace[m["line"] - 1])} for m in mm]}


def iso_confirm(vh):
    def confirm(case):
        k = case["key"]
        c = {"t": k["t"], "family": k["family"], "write": k["write"], "read": k["read"], "field": k["field"], "mutation": k["mutation"], "shape": k.get("shape", "")}
        if k["ev"] == "law":
            c["t"] = "law"
        r = _iso_run(vh, [c, {"t": "in", "family": "runtime", "write": "create", "read": "", "field": "scalar", "mutation": "overwrite"}])
        got = [x["mismatch"] for x in r["cases"] if x["key"] == k and x["mismatch"]["what"] == case["mismatch"]["what"]]
        return got, None
    return confirm


def run_c13(prop, tier):
    import common
    t0 = time.time()
    vh = build_vh()
    with Scratch("mciso") as sc:
        copy_spec(sc.dir, ISO_FILES)
        open(sc.path("MC.cfg"), "w").write(ISO_CFG % "copy")
        rc, out, wall = run_tlc(sc.dir, "MC_Iso.tla", cfg="MC.cfg", workers=4, timeout=900)
        if "Model checking completed. No error has been found." not in out:
            raise Broken("MC_Iso: the intended design violates isolation or TLC failed:\n" + out[-3000:])
        gen, dist = tlc_stats(out)
        cases = tlc_prints(out, "CASE")
        for v in ("aliasIn", "aliasOut"):
            open(sc.path("MCv.cfg"), "w").write(ISO_CFG % v)
            rc, o2, w2 = run_tlc(sc.dir, "MC_Iso.tla", cfg="MCv.cfg", workers=4, timeout=900)
            if "Invariant Isolated is violated" not in o2:
                raise Broken("MC_Iso: variant %s is not refuted" % v)
    res = _iso_run(vh, cases)
    verdict = findings.adjudicate(prop, res["cases"], iso_confirm(vh))
    cov = {"states": dist + res["states"], "transitions": gen + res["transitions"], "traces_validated_against_impl": 1,
           "cases_enumerated": len(cases), "cases_executed": res["events"], "exhaustive": True,
           "generated_family_from_repo_generator": common.GENMODEL_FROM_REPO,
           "variants_refuted": ["aliasIn", "aliasOut"],
           "samples": [res["trace"][0], res["trace"][-1]], "known_findings_seen": verdict["known"],
           "rule": "TLC checks the heap model (Iso.tla) and enumerates (family x write path x mutation of the handed-in model), (family x read path x "
                   "field x mutation of the returned model) and Clone/Equal law cases for run-time structs, a hand-written struct (JSON clone) and a "
                   "generated struct (own deep copy); each is executed on the real RowCache/TableCache, a synchronised client (Get, List, Where, WhereAll, "
                   "WhereCache) and event handlers, and a fresh read is compared with what was written"}
    write_evidence(prop, tier, "model_checking", cov, time.time() - t0, violations=len(verdict["violations"]),
                   assumptions=["RowsShallow is exempt as documented", "the generated family is generated by /repo's modelgen at check time"])
    return verdict
