"""Adjudication of mismatches: confirm in isolation, match against the
committed known-findings file, print KNOWN-FINDING / VIOLATION lines."""
import json, os, re
from common import *


CONFIRM_ATTEMPTS = 12


def _get(obj, path, default=None):
    cur = obj
    for p in path.split("."):
        if isinstance(cur, dict):
            cur = cur.get(p, default)
        else:
            return default
    return cur


def matches(finding, prop, mismatch, case):
    """A known finding matches when the property, the symptom signature and the
    declarative predicate over the failing case all agree."""
    if finding.get("status") != "open" or finding.get("property") != prop:
        return False
    sig = finding.get("symptom", {})
    if "what" in sig and sig["what"] != mismatch.get("what"):
        return False
    if "detail_regex" in sig and not re.search(sig["detail_regex"], json.dumps(mismatch.get("detail", {}), sort_keys=True)):
        return False
    pred = finding.get("case_regex")
    if pred:
        body = json.dumps(case.get("key", case.get("events", [{}])[-1] if case.get("events") else case), sort_keys=True)
        if not re.search(pred, body):
            return False
    return True


def adjudicate(prop, cases, confirm_fn, limit=12):
    """cases: [{mismatch, ...}]. confirm_fn(case) -> (reproduced_mismatches, trace).
    Returns {"violations": [...], "known": {id: count}, "unconfirmed": n}."""
    known = load_known()
    out = {"violations": [], "known": {}, "unconfirmed": 0}
    seen_sig = set()
    unconf_by_what = {}
    for c in cases:
        m = c["mismatch"]
        f = next((k for k in known if matches(k, prop, m, c)), None)
        if f is not None:
            out["known"][f["id"]] = out["known"].get(f["id"], 0) + 1
            continue
        sig = (m.get("what"), json.dumps(m.get("detail", {}), sort_keys=True)[:80])
        if sig in seen_sig and len(out["violations"]) > 0:
            continue
        if len(out["violations"]) >= limit:
            continue
        # bound the work on mismatches that do not show again in isolation: two per kind, ten in all (the
        # verdict is already "inconclusive" or "violation" by then; the rest of the same kind adds nothing)
        if unconf_by_what.get(m.get("what"), 0) >= 2 or out["unconfirmed"] >= 10:
            out["skipped"] = out.get("skipped", 0) + 1
            continue
        seen_sig.add(sig)
        # the implementation iterates Go maps: an order dependent defect needs
        # several attempts to show again
        got = None
        for attempt in range(CONFIRM_ATTEMPTS):
            got, _ = confirm_fn(c)
            if got:
                break
        if not got:
            out["unconfirmed"] += 1
            unconf_by_what[m.get("what")] = unconf_by_what.get(m.get("what"), 0) + 1
            p = save_replay("unconfirmed-" + prop, {"property": prop, "mismatch": m, "case": c})
            log("mismatch did not reproduce in isolation (%d attempts, kept as %s): %s" % (CONFIRM_ATTEMPTS, p, json.dumps(m)[:300]))
            continue
        path = save_replay(prop, {"property": prop, "mismatch": m, "case": c})
        out["violations"].append({"mismatch": m, "replay": path})
    return out


def report(prop, verdict):
    """Prints the verdict lines and returns the exit code."""
    known = {k["id"]: k for k in load_known()}
    for fid, n in sorted(verdict["known"].items()):
        print("KNOWN-FINDING: property=%s %s (%s; seen %d times)" % (prop, fid, known.get(fid, {}).get("what", ""), n))
    for v in verdict["violations"]:
        m = v["mismatch"]
        print("VIOLATION property=%s replay=%s" % (prop, v["replay"]))
        print("  %s: %s" % (m.get("what"), json.dumps(m.get("detail"))[:400]))
    if verdict["violations"]:
        return 1
    if verdict["unconfirmed"]:
        print("INCONCLUSIVE property=%s: %d mismatches did not reproduce in isolation" % (prop, verdict["unconfirmed"]))
        return 2
    return 0
