"""Check C18: the client and its cache are safe and live under concurrent use.

  1. TLC checks the documented lock protocol (Locks.tla / MC_Locks.tla): no interleaving of the calls deadlocks
     and nothing keeps a lock; the three protocols of the pinned commit are each refuted.
  2. The protocol the code has is extracted from client/client.go (harness/lockx), turned into LocksXData.tla and
     checked by TLC for every multiset of three entry points (MC_LocksX.tla): deadlock, lock kept on a return path,
     acquisition against the declared order.
  3. TLC enumerates call sequences (every API call failing in each way it can, followed by further calls) and three
     gated races; each runs on a real client with a deadline per call; TraceCalls.tla judges the recorded outcomes.
  4. Readers on every cache read path, a writer, monitor set-up and connection churn run under the race detector;
     rows carry one version number in all fields.
"""
import json, os, random, re, time
from common import *
import findings, locksx

FILES = ["Locks.tla", "MC_Locks.tla", "MC_LocksX.tla", "TraceCalls.tla"]
CFG = 'SPECIFICATION Spec\nCONSTANTS\n  Variant = "%s"\n  StepsOf <- MCSteps\n  ProcSets <- MCProcSets\nINVARIANT NoLeak\n'
CFGX = 'SPECIFICATION Spec\nCONSTANTS\n  StepsOf <- XSteps\n  ProcSets <- XProcSets\nINVARIANT NoLeak\n'
GATED = ["GatedDisconnectRace", "GatedReconnectMonitor", "GatedCancelMonitor"]


def model_check():
    with Scratch("mclocks") as sc:
        copy_spec(sc.dir, FILES)
        open(sc.path("MC_Locks.tla"), "a").write("")
        src = open(sc.path("MC_Locks.tla")).read().replace("=============================================================================",
                                                           "ASSUME Emit\nASSUME OrderOK\n=============================================================================")
        open(sc.path("MC_Locks.tla"), "w").write(src)
        open(sc.path("MC.cfg"), "w").write(CFG % "intended")
        rc, out, wall = run_tlc(sc.dir, "MC_Locks.tla", cfg="MC.cfg", workers=8, timeout=900)
        if "Model checking completed. No error has been found." not in out:
            raise Broken("MC_Locks: the documented lock protocol deadlocks, keeps a lock or breaks its order, or TLC failed:\n" + out[-3000:])
        g, d = tlc_stats(out)
        cases = tlc_prints(out, "CASE")
        refuted = []
        for v in ("leak", "handler", "monitor"):
            open(sc.path("MCv.cfg"), "w").write(CFG % v)
            src2 = src.replace("ASSUME OrderOK\n", "")
            open(sc.path("MC_Locks.tla"), "w").write(src2)
            rc, o2, w2 = run_tlc(sc.dir, "MC_Locks.tla", cfg="MCv.cfg", workers=4, timeout=900)
            if "Deadlock reached" not in o2 and "Invariant NoLeak is violated" not in o2:
                raise Broken("MC_Locks: the pinned protocol '%s' is not refuted:\n%s" % (v, o2[-2000:]))
            refuted.append(v)
        return {"mc_states": d, "mc_transitions": g, "variants_refuted": refuted}, cases


def deadlock_summary(out):
    """The last state of TLC's counterexample: who runs what and where it stands."""
    procs = re.findall(r"procs = (\[.*?\])", out)
    pcs = re.findall(r"/\\ pc = (\[.*?\])", out)
    writers = re.findall(r"writer = (\[.*?\])", out)
    readers = re.findall(r"readers = (\[.*?\])", out)
    return {"procs": procs[-1] if procs else "", "pc": pcs[-1] if pcs else "", "writer": writers[-1] if writers else "",
            "readers": readers[-1] if readers else "", "steps_in_counterexample": len(pcs)}


def extracted_check(vh):
    """Returns (coverage, mismatches)."""
    with Scratch("lockx") as sc:
        copy_spec(sc.dir, FILES)
        rc, o, e = run([vh, "lock-steps", "-src", os.path.join(REPO, "client", "client.go"), "-o", sc.path("locks.json")])
        if rc != 0:
            raise Broken("vh lock-steps failed: " + e[-2000:])
        info = locksx.build(sc.path("locks.json"), sc.path("LocksXData.tla"))
        if info["unknown"] or info["lock_ops"] < 40 or len(info["entries"]) < 8:
            raise Broken("the lock extractor does not understand client.go any more: %s" % json.dumps(info)[:1500])
        src = open(sc.path("MC_LocksX.tla")).read().replace("=============================================================================",
                                                            'ASSUME PrintT(<<"XBAD", ToJson([bad |-> XBad])>>)\n=============================================================================')
        src = src.replace("EXTENDS Locks, LocksXData", "EXTENDS Locks, LocksXData, Json")
        open(sc.path("MC_LocksX.tla"), "w").write(src)
        open(sc.path("MCX.cfg"), "w").write(CFGX)
        rc, out, wall = run_tlc(sc.dir, "MC_LocksX.tla", cfg="MCX.cfg", workers=NCPU, timeout=1800)
        g, d = tlc_stats(out)
        mism = []
        bad = tlc_prints(out, "XBAD")
        if bad and bad[0].get("bad"):
            mism.append({"prop": "C18", "what": "client.go acquires a mutex against the declared lock order (rpc < monitors < cache < model < shutdown)",
                         "detail": {"entries": bad[0]["bad"]}})
        if "Deadlock reached" in out:
            mism.append({"prop": "C18", "what": "the lock protocol extracted from client.go deadlocks", "detail": deadlock_summary(out)})
        elif "Invariant NoLeak is violated" in out:
            mism.append({"prop": "C18", "what": "a return path of client.go keeps a mutex locked", "detail": dict(deadlock_summary(out), leaks=info["leaks"][:6])})
        elif "Model checking completed. No error has been found." not in out:
            raise Broken("MC_LocksX failed:\n" + out[-3000:])
        if info["leaks"] and not mism:
            mism.append({"prop": "C18", "what": "a return path of client.go keeps a mutex locked", "detail": {"leaks": info["leaks"][:6]}})
        cov = {"x_states": d, "x_transitions": g, "entries": info["entries"], "imprecise_paths_left_out": info["imprecise"],
               "mutex_operations_in_source": info["lock_ops"]}
        return cov, mism


def run_cases(vh, cases, stress_ms=0, race=False, sd=1):
    """Runs call cases (and optionally the stress run) and validates the trace with TraceCalls.tla."""
    with Scratch("calls") as sc:
        copy_spec(sc.dir, FILES)
        with open(sc.path("cases.ndjson"), "w") as f:
            for c in cases:
                f.write(json.dumps(c) + "\n")
        env = dict(os.environ, GORACE="halt_on_error=0 exitcode=0")
        cmd = [vh, "calls-cases", "-cases", sc.path("cases.ndjson") if cases else "", "-o", sc.path("trace.ndjson"), "-seed", str(sd)]
        if stress_ms:
            cmd += ["-stress", str(stress_ms)]
        rc, o, e = run(cmd, timeout=3000, env=env)
        crashed = None
        if rc != 0:
            # the Go runtime ends the process when it catches unsynchronised map access ("fatal error: concurrent
            # map ..."), and memory shared with readers that write to their copies can crash the library: under the
            # stress run that is the data race itself, not a failure of the harness
            m = re.search(r"(fatal error: concurrent map[^\n]*|WARNING: DATA RACE)", e)
            if stress_ms and m:
                k = e.find(m.group(1))
                crashed = e[max(0, k - 200):k + 2800]
            else:
                raise Broken("vh calls-cases failed: " + e[-3000:])
        trace = []
        if os.path.exists(sc.path("trace.ndjson")):
            for l in open(sc.path("trace.ndjson")):
                try:
                    trace.append(json.loads(l))
                except ValueError:
                    pass
        if crashed is not None:
            trace.append({"ev": "stress", "reads": 0, "mixed": 0, "calls": 0, "stuck": 0, "disconnects": 0, "monitors_added": 0,
                          "monitors_cancelled": 0, "races": 1, "report": "the process was ended by the Go runtime: " + crashed, "dump": ""})
        if race:
            reports = [r for r in e.split("==================") if "WARNING: DATA RACE" in r]
            ours = [r for r in reports if "libovsdb/client." in r or "libovsdb/cache." in r]
            for ev in trace:
                if ev["ev"] == "stress" and crashed is None:
                    ev["races"] = len(ours)
                    ev["report"] = ours[0][:3000] if ours else ""
        for ev in trace:
            ev.pop("dump", None) if not ev.get("stuck") else None
        with open(sc.path("trace.ndjson"), "w") as f:
            for ev in trace:
                f.write(json.dumps(ev) + "\n")
        open(sc.path("T.cfg"), "w").write("SPECIFICATION Spec\nCHECK_DEADLOCK FALSE\n")
        rc, out, wall = run_tlc(sc.dir, "TraceCalls.tla", cfg="T.cfg", workers=1, timeout=900)
        complete = tlc_prints(out, "TRACE-COMPLETE")
        if rc != 0 or not complete:
            raise Broken("TraceCalls did not complete:\n" + out[-3000:])
        g, d = tlc_stats(out)
        res = {"mismatches": tlc_prints(out, "MISMATCH"), "notes": tlc_prints(out, "NOTE"), "states": d, "transitions": g, "trace": trace, "cases": []}
        for m in res["mismatches"]:
            ev = trace[m["line"] - 1]
            res["cases"].append({"mismatch": m, "event": {k: v for k, v in ev.items() if k != "dump"}, "dump": ev.get("dump", "")[:4000],
                                 "case": {"first": ev.get("first"), "then": ev.get("then"), "reconnect": ev.get("reconnect", False)} if ev["ev"] == "calls" else None})
        return res


def run_check(prop, tier):
    t0 = time.time()
    vh = build_vh()
    vhr = build_vh(race=True)
    sd = seed()
    cov, cases = model_check()
    xcov, xmism = extracted_check(vh)
    cov.update(xcov)
    total = len(cases)
    rnd = random.Random(sd)
    rnd.shuffle(cases)
    gated = [c for c in cases if c["first"] in GATED]
    plain = [c for c in cases if c["first"] not in GATED]
    # every first call at least once in the quick tier, every gated race with one follow-up
    sel = []
    if tier == "quick":
        seen = set()
        for c in plain:
            if c["first"] not in seen or len(sel) < 40:
                seen.add(c["first"])
                sel.append(c)
        seen = set()
        for c in gated:
            if c["first"] not in seen:
                seen.add(c["first"])
                sel.append(c)
    else:
        sel = plain + gated + [dict(c, reconnect=True) for c in plain]
    nsh = min(NCPU, max(1, len(sel) // 6))
    shards = [sel[i::nsh] for i in range(nsh)]
    res = pmap(lambda sh: run_cases(vh, sh), shards)
    stress_ms = 2500 if tier == "quick" else 12000
    sres = [run_cases(vhr, [], stress_ms=stress_ms, race=True, sd=sd + i) for i in range(1 if tier == "quick" else 3)]

    def confirm(case):
        if case.get("static"):
            return [case["mismatch"]], None     # decided by TLC on the protocol extracted from the source
        if case.get("case"):
            r = run_cases(vh, [case["case"]])
        else:
            r = run_cases(vhr, [], stress_ms=stress_ms, race=True, sd=sd)
        return [m for m in r["mismatches"] if m["what"] == case["mismatch"]["what"]], None
    allc = [c for r in res + sres for c in r["cases"]] + [{"mismatch": m, "static": True} for m in xmism]
    verdict = findings.adjudicate(prop, allc, confirm)
    st = [ev for r in sres for ev in r["trace"] if ev["ev"] == "stress"]
    notes = [n for r in res for n in r["notes"]]
    cov.update({"states": cov["mc_states"] + cov["x_states"] + sum(r["states"] for r in res + sres),
                "transitions": cov["mc_transitions"] + cov["x_transitions"] + sum(r["transitions"] for r in res + sres),
                "traces_validated_against_impl": len(res) + len(sres), "call_sequences_enumerated": total, "call_sequences_run": len(sel),
                "gated_races_run": sum(1 for c in sel if c["first"] in GATED),
                "calls_made": sum(len(ev["results"]) for r in res for ev in r["trace"] if ev["ev"] == "calls"),
                "stress": {"runs": len(st), "rows_read": sum(e["reads"] for e in st), "api_calls": sum(e["calls"] for e in st),
                           "disconnects": sum(e["disconnects"] for e in st), "monitors_added": sum(e["monitors_added"] for e in st),
                           "race_reports": sum(e["races"] for e in st), "mixed_rows": sum(e["mixed"] for e in st)},
                "outcome_notes": len(notes), "outcome_note_sample": notes[:2],
                "samples": [{k: v for k, v in r["trace"][0].items() if k != "dump"} for r in res[:2] if r["trace"]],
                "known_findings_seen": verdict["known"],
                "rule": "TLC: the documented lock protocol neither deadlocks nor keeps a lock for 8 process sets, the 3 pinned protocols do; the protocol "
                        "extracted from client.go (every mutex operation, per function and return path, callees inlined) is checked for every multiset "
                        "of 3 entry points and against the declared order; call sequences enumerated by TLC (each API call failing in each way, then "
                        "further calls; 3 gated races parking one goroutine at a pause point) run on a real client, every call must return within 10 s; "
                        "readers on all cache read paths, List/Get/Echo/Monitor calls, a writer and connection churn run under the race detector"})
    write_evidence(prop, tier, "model_checking", cov, time.time() - t0, violations=len(verdict["violations"]),
                   assumptions=["a call that has not returned 10 s after its 2 s context expired is taken to be blocked for good",
                                "Transact's wait-for-reconnect loop is beyond the extractor (left out of the extracted model, exercised by the call sequences)",
                                "race reports are counted when a stack touches libovsdb/client or libovsdb/cache"])
    return verdict
