"""Check C05: cache indexes agree with cache contents, in every application order."""
import json, os, random, time
from common import *
import findings

MC_CFG = """SPECIFICATION %s
CONSTANTS UUIDs = {%s}
 F1Vals = {"","p","z"}
 F2Vals = {"nil","p"}
 Variant = "%s"
%s
CHECK_DEADLOCK FALSE
"""
INVS = "INVARIANTS IndexesAgree RowsReachTarget NoEmptyEntry ClientIndexesAlwaysAgree"
SPEC_FILES = ["Cache.tla", "MC_Cache.tla", "TraceCache.tla"]


def uu(n):
    return ",".join('"u%d"' % i for i in range(1, n + 1))


def model_check(tier):
    n = 3
    with Scratch("mccache") as sc:
        copy_spec(sc.dir, SPEC_FILES)
        open(sc.path("MC.cfg"), "w").write(MC_CFG % ("Spec", uu(n), "intended", INVS))
        rc, out, wall = run_tlc(sc.dir, "MC_Cache.tla", cfg="MC.cfg", workers=NCPU, timeout=3000)
        if "Model checking completed. No error has been found." not in out:
            raise Broken("MC_Cache: the intended design violates C05 or TLC failed:\n" + out[-3000:])
        gen, dist = tlc_stats(out)
        res = {"mc_states": dist, "mc_transitions": gen, "mc_uuids": n, "mc_wall": round(wall, 1)}
        # non-vacuity: the algorithm of the pinned tree must be refuted by the same invariants
        open(sc.path("MCp.cfg"), "w").write(MC_CFG % ("Spec", uu(2), "pinned2022", INVS))
        rc, out, wall = run_tlc(sc.dir, "MC_Cache.tla", cfg="MCp.cfg", workers=4, timeout=600)
        if "Invariant IndexesAgree is violated" not in out:
            raise Broken("MC_Cache: the pinned variant is not refuted, the invariant is vacuous:\n" + out[-2000:])
        res["pinned_variant_refuted"] = True
        return res


def emit_cases(n):
    with Scratch("cemit") as sc:
        copy_spec(sc.dir, SPEC_FILES)
        open(sc.path("MC.cfg"), "w").write(MC_CFG % ("SpecEmit", uu(n), "intended", ""))
        rc, out, wall = run_tlc(sc.dir, "MC_Cache.tla", cfg="MC.cfg", workers=1, timeout=3000)
        if "Model checking completed" not in out:
            raise Broken("MC_Cache emission failed:\n" + out[-3000:])
        return tlc_prints(out, "CASE")


def replay(vh, cases):
    nsh = min(NCPU, max(1, len(cases) // 200))
    shards = [cases[i::nsh] for i in range(nsh)]

    def one(sh):
        with Scratch("cc") as sc:
            with open(sc.path("cases.ndjson"), "w") as f:
                for c in sh:
                    f.write(json.dumps(c) + "\n")
            rc, o, e = run([vh, "cache-cases", "-cases", sc.path("cases.ndjson"), "-o", sc.path("trace.ndjson")], timeout=3000)
            if rc != 0:
                raise Broken("vh cache-cases failed: " + e[-3000:])
            copy_spec(sc.dir, SPEC_FILES)
            open(sc.path("T.cfg"), "w").write("SPECIFICATION Spec\nCHECK_DEADLOCK FALSE\n")
            rc, out, wall = run_tlc(sc.dir, "TraceCache.tla", cfg="T.cfg", workers=1, timeout=3000)
            done = tlc_prints(out, "TRACE-COMPLETE")
            if rc != 0 or not done:
                raise Broken("TraceCache validation did not complete:\n" + out[-3000:])
            mm = tlc_prints(out, "MISMATCH")
            trace = []
            if mm:
                trace = [json.loads(l) for l in open(sc.path("trace.ndjson"))]
            gen, dist = tlc_stats(out)
            cases_ = []
            for m in mm:
                ev = trace[m["line"] - 1]
                cases_.append({"mismatch": m, "key": {"cfg": ev["cfg"], "pre": ev["pre"], "post": ev["post"],
                                                       "order": ev["order"], "path": ev["path"]}})
            return {"events": done[0], "states": dist, "transitions": gen, "cases": cases_}
    return pmap(one, shards)


def confirm_fn(vh):
    def confirm(case):
        k = case["key"]
        c = {"cfg": k["cfg"], "pre": k["pre"], "post": k["post"]}
        res = replay(vh, [c])
        want = case["mismatch"]
        got = [x["mismatch"] for r in res for x in r["cases"]
               if x["mismatch"]["what"] == want["what"] and x["key"]["path"] == k["path"]
               and (k["path"] == "populate2" or x["key"]["order"] == k["order"])]
        return got, None
    return confirm


def run_check(prop, tier):
    t0 = time.time()
    vh = build_vh()
    cov = model_check(tier)
    cases2 = emit_cases(2)
    cases3 = emit_cases(3)
    rnd = random.Random(seed())
    rnd.shuffle(cases3)
    rnd.shuffle(cases2)
    if tier == "quick":
        sel = cases2[:1500] + cases3[:2500]
    else:
        sel = cases2 + cases3[:40000]
    results = replay(vh, sel)
    cases = [c for r in results for c in r["cases"]]
    verdict = findings.adjudicate(prop, cases, confirm_fn(vh))
    events = sum(r["events"] for r in results)
    cov.update({
        "states": cov["mc_states"] + sum(r["states"] for r in results),
        "transitions": cov["mc_transitions"] + sum(r["transitions"] for r in results),
        "traces_validated_against_impl": len(results),
        "batches_enumerated": len(cases2) + len(cases3),
        "batches_replayed": len(sel),
        "executions_validated": events,
        "exhaustive": False,
        "samples": [sel[0], sel[-1]],
        "known_findings_seen": verdict["known"],
        "rule": "TLC enumerates every (index configuration, state before, state after) over 2 and 3 uuids; the harness applies each "
                "batch in every row order through ApplyCacheUpdate and direct Create/Update/Delete and twice through Populate2, then "
                "every index, RowByModel, RowsByModels and RowsByCondition answer is compared by TLC with a full scan",
    })
    write_evidence(prop, tier, "model_checking", cov, time.time() - t0, violations=len(verdict["violations"]),
                   assumptions=["states a batch starts from and ends in satisfy the schema's unique indexes",
                                "rows abstracted to the two fields the indexes are built from"])
    return verdict
