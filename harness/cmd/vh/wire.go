package main

import (
	"bufio"
	"encoding/json"
	"flag"
	"os"
	"sort"
	"strconv"
	"strings"

	"vh/recgen"
	"vh/recmap"
	"vh/rectxn"
	"vh/recwire"
)

func init() {
	register("wire-cases", "wire-format cases of Wire.tla on the real codecs: round trips and decoding of corrupted trees (C12, C19)", cmdWireCases)
}

func cmdWireCases(args []string) error {
	fs := flag.NewFlagSet("wire-cases", flag.ExitOnError)
	casesFile := fs.String("cases", "cases.ndjson", "one case per line")
	out := fs.String("o", "trace.ndjson", "output trace")
	first := fs.Int("first-id", 0, "id of the first case")
	repo := fs.String("repo", "/repo", "the library the generated code is built against")
	skip := fs.Int("skip", 0, "transaction cases with an id below this are skipped (resuming after a crash)")
	_ = fs.Parse(args)
	cf, err := os.Open(*casesFile)
	if err != nil {
		return err
	}
	defer cf.Close()
	f, err := os.Create(*out)
	if err != nil {
		return err
	}
	defer f.Close()
	w := bufio.NewWriter(f)
	defer w.Flush()
	rec := rectxn.NewRecorder(w)
	sc := bufio.NewScanner(cf)
	sc.Buffer(make([]byte, 1<<20), 1<<26)
	id := *first
	var runner *recwire.TxnRunner
	var names []string
	for n := range recwire.Types {
		names = append(names, n)
	}
	sort.Strings(names)
	for sc.Scan() {
		if len(sc.Bytes()) == 0 {
			continue
		}
		var c recwire.Case
		if err := json.Unmarshal(sc.Bytes(), &c); err != nil {
			return err
		}
		var ev map[string]interface{}
		if c.Mode == "mtype" || c.Mode == "map" {
			var mc recmap.Case
			if err := json.Unmarshal(sc.Bytes(), &mc); err != nil {
				return err
			}
			if c.Mode == "mtype" {
				ev = recmap.TypeCase(mc)
			} else {
				ev = recmap.MapCase(mc)
			}
		}
		if c.Mode == "gen" {
			var gc struct {
				recgen.Case
				Extended  bool `json:"extended"`
				EnumTypes bool `json:"enumTypes"`
			}
			if err := json.Unmarshal(sc.Bytes(), &gc); err != nil {
				return err
			}
			ev = recgen.Run(gc.Case, gc.Extended, gc.EnumTypes, *repo)
			ev["schema"] = gc.Case.ID
		}
		switch c.Mode {
		case "mtype", "map", "gen":
		case "rt":
			ev = recwire.RoundTrip(c)
		case "dec":
			ev = recwire.Decode(c)
			delete(ev, "tree")
		case "small":
			panics := []interface{}{}
			msg := ""
			for _, n := range names {
				d := recwire.Decode(recwire.Case{T: n, Tree: c.Tree})
				if d["outcome"] == "panic" {
					panics = append(panics, n)
					if msg == "" {
						msg = d["msg"].(string)
					}
				}
			}
			ev = map[string]interface{}{"ev": "small", "panics": panics, "msg": msg}
		case "err":
			ev = recwire.ErrorRoundTrip(c)
		case "txn-direct", "txn-server", "mon-monitor", "mon-monitor_cond", "mon-monitor_cond_since", "notif-update", "notif-update2", "notif-update3", "reply-monitor", "reply-monitor_cond", "reply-monitor_cond_since":
			if runner == nil {
				dir, err := os.MkdirTemp("", "vh-sock")
				if err != nil {
					return err
				}
				defer os.RemoveAll(dir)
				if runner, err = recwire.NewTxnRunner(dir); err != nil {
					return err
				}
				defer runner.Close()
			}
			if id < *skip {
				id++
				continue
			}
			if c.Mode == "txn-direct" {
				ev = runner.Direct(c.Tree)
			} else if strings.HasPrefix(c.Mode, "reply-") {
				w.Flush()
				_ = os.WriteFile(*out+".current", []byte(strconv.Itoa(id)), 0o644)
				ev = runner.Reply(c.Tree, strings.TrimPrefix(c.Mode, "reply-"))
				w.Flush()
			} else if strings.HasPrefix(c.Mode, "notif-") {
				// a panic in the client's notification handler ends this process: say which case is running
				w.Flush()
				_ = os.WriteFile(*out+".current", []byte(strconv.Itoa(id)), 0o644)
				ev = runner.Notif(c.Tree, strings.TrimPrefix(c.Mode, "notif-"))
				w.Flush()
			} else if strings.HasPrefix(c.Mode, "mon-") {
				w.Flush()
				_ = os.WriteFile(*out+".current", []byte(strconv.Itoa(id)), 0o644)
				ev = runner.Monitor(c.Tree, strings.TrimPrefix(c.Mode, "mon-"))
				w.Flush()
			} else {
				// a panic in the server's connection goroutine ends this process: say which case is running
				w.Flush()
				_ = os.WriteFile(*out+".current", []byte(strconv.Itoa(id)), 0o644)
				ev = runner.Server(c.Tree)
			}
		default:
			continue
		}
		ev["id"] = id
		id++
		if err := rec.Emit(ev); err != nil {
			return err
		}
		if c.Mode == "txn-server" || strings.HasPrefix(c.Mode, "mon-") || strings.HasPrefix(c.Mode, "notif-") || strings.HasPrefix(c.Mode, "reply-") {
			w.Flush()
		}
	}
	return sc.Err()
}
