package main

import (
	"bufio"
	"encoding/json"
	"flag"
	"fmt"
	"math/rand"
	"os"

	"vh/abs"
	"vh/rectxn"
)

func init() {
	register("schema", "write the abstract schema JSON (and the OVSDB schema)", cmdSchema)
	register("record-txn", "run random transactions on the real engine and record a trace", cmdRecordTxn)
}

func cmdSchema(args []string) error {
	fs := flag.NewFlagSet("schema", flag.ExitOnError)
	name := fs.String("schema", "small", "small|kitchen|random")
	seed := fs.Int64("seed", 1, "seed for random schemas")
	out := fs.String("o", "schema.abs.json", "output file")
	ovs := fs.String("ovs", "", "also write the OVSDB schema here")
	_ = fs.Parse(args)
	s, err := abs.NamedSchema(*name, *seed)
	if err != nil {
		return err
	}
	if _, err := abs.Build(s, true); err != nil {
		return err
	}
	if err := os.WriteFile(*out, s.JSON(), 0o644); err != nil {
		return err
	}
	if *ovs != "" {
		return os.WriteFile(*ovs, s.OVSDBSchemaJSON(), 0o644)
	}
	return nil
}

func cmdRecordTxn(args []string) error {
	fs := flag.NewFlagSet("record-txn", flag.ExitOnError)
	name := fs.String("schema", "small", "small|kitchen|random")
	sseed := fs.Int64("schema-seed", 1, "seed for random schemas")
	seed := fs.Int64("seed", 1, "seed")
	n := fs.Int("n", 200, "number of transactions")
	episode := fs.Int("episode", 40, "transactions per database instance")
	mode := fs.String("mode", "direct", "direct|server")
	profile := fs.String("profile", "", "property id biasing the generator")
	out := fs.String("o", "trace.ndjson", "output trace")
	reload := fs.Float64("reload", 0.0, "probability of a history-independence check per transaction")
	nmon := fs.Int("monitors", 2, "monitors per episode (server mode)")
	_ = fs.Parse(args)

	s, err := abs.NamedSchema(*name, *sseed)
	if err != nil {
		return err
	}
	b, err := abs.Build(s, false)
	if err != nil {
		return err
	}
	f, err := os.Create(*out)
	if err != nil {
		return err
	}
	defer f.Close()
	w := bufio.NewWriter(f)
	defer w.Flush()
	rec := rectxn.NewRecorder(w)
	dir, err := os.MkdirTemp("", "vh-sock")
	if err != nil {
		return err
	}
	defer os.RemoveAll(dir)

	rnd := rand.New(rand.NewSource(*seed))
	tok := abs.NewTokens()
	g := abs.NewGen(s, *seed, abs.ProfileFor(*profile))
	done := 0
	for done < *n {
		in, err := rectxn.NewInst(0, b, tok, *mode == "server", dir)
		if err != nil {
			return err
		}
		if err := rec.Emit(map[string]interface{}{"ev": "reset", "db": 0}); err != nil {
			return err
		}
		g.SetState(map[string]interface{}{})
		last := map[string]interface{}{}
		for t := range s.Tables {
			last[t] = map[string]interface{}{}
		}
		monsAdded := 0
		for k := 0; k < *episode && done < *n; k++ {
			if *mode == "server" && monsAdded < *nmon && (k == 0 || rnd.Intn(6) == 0) {
				monsAdded++
				method := []string{"monitor", "monitor_cond", "monitor_cond_since"}[rnd.Intn(3)]
				req := rectxn.RandomMonitorReq(s, rnd, rnd.Intn(2) == 0)
				id := fmt.Sprintf("\"m%d\"", monsAdded)
				m, initial, err := in.AddMonitor(id, method, req)
				if err != nil {
					return fmt.Errorf("monitor: %v", err)
				}
				if err := rec.Emit(map[string]interface{}{"ev": "monitor", "db": 0, "mon": m.ID, "enc": m.Enc,
					"method": method, "req": req, "initial": initial}); err != nil {
					return err
				}
			}
			ops := g.Txn()
			if *reload > 0 && rnd.Float64() < *reload {
				in2, err := rectxn.NewInst(1, b, tok, false, dir)
				if err != nil {
					return err
				}
				if err := rec.Emit(map[string]interface{}{"ev": "reset", "db": 1}); err != nil {
					return err
				}
				if err := in2.LoadFrom(rec, 0, last); err != nil {
					in2.Close()
					return err
				}
				ops2 := make([]abs.AOp, len(ops))
				copy(ops2, ops)
				if _, err := in2.RunTxn(rec, ops2); err != nil {
					in2.Close()
					return err
				}
				in2.Close()
			}
			dump, err := in.RunTxn(rec, ops)
			if err != nil {
				return err
			}
			done++
			last = dump
			g.SetState(dump)
		}
		in.Close()
	}
	if st, err := json.Marshal(g.Stats); err == nil {
		fmt.Fprintf(os.Stderr, "STATS %s\n", st)
	}
	return nil
}

func init() {
	register("replay-txn", "re-execute the events of a recorded trace on fresh instances and record again", cmdReplayTxn)
}

// cmdReplayTxn re-runs the recorded operations (not the generator), so a
// mismatch can be confirmed in isolation from its replay file.
func cmdReplayTxn(args []string) error {
	fs := flag.NewFlagSet("replay-txn", flag.ExitOnError)
	schemaFile := fs.String("schema-file", "schema.abs.json", "abstract schema")
	in := fs.String("i", "events.ndjson", "recorded events")
	out := fs.String("o", "trace.ndjson", "output trace")
	mode := fs.String("mode", "direct", "direct|server")
	_ = fs.Parse(args)
	s, err := abs.LoadSchema(*schemaFile)
	if err != nil {
		return err
	}
	b, err := abs.Build(s, false)
	if err != nil {
		return err
	}
	evs, err := readEvents(*in)
	if err != nil {
		return err
	}
	f, err := os.Create(*out)
	if err != nil {
		return err
	}
	defer f.Close()
	w := bufio.NewWriter(f)
	defer w.Flush()
	rec := rectxn.NewRecorder(w)
	dir, err := os.MkdirTemp("", "vh-sock")
	if err != nil {
		return err
	}
	defer os.RemoveAll(dir)
	tok := abs.NewTokens()
	insts := map[int]*rectxn.Inst{}
	last := map[int]map[string]interface{}{}
	defer func() {
		for _, i := range insts {
			i.Close()
		}
	}()
	for _, e := range evs {
		id := int(e["db"].(float64))
		switch e["ev"] {
		case "reset":
			if old := insts[id]; old != nil {
				old.Close()
			}
			inst, err := rectxn.NewInst(id, b, tok, *mode == "server" && id == 0, dir)
			if err != nil {
				return err
			}
			insts[id] = inst
			last[id] = map[string]interface{}{}
			for t := range s.Tables {
				last[id][t] = map[string]interface{}{}
			}
			if err := rec.Emit(map[string]interface{}{"ev": "reset", "db": id}); err != nil {
				return err
			}
		case "load":
			from := int(e["from"].(float64))
			if err := insts[id].LoadFrom(rec, from, last[from]); err != nil {
				return err
			}
		case "monitor":
			if *mode != "server" {
				continue
			}
			req := e["req"].(map[string]interface{})
			m, initial, err := insts[id].AddMonitor(e["mon"].(string), e["method"].(string), req)
			if err != nil {
				return err
			}
			if err := rec.Emit(map[string]interface{}{"ev": "monitor", "db": id, "mon": m.ID, "enc": m.Enc,
				"method": e["method"], "req": req, "initial": initial}); err != nil {
				return err
			}
		case "txn":
			ops, err := decodeOps(e["ops"])
			if err != nil {
				return err
			}
			dump, err := insts[id].RunTxn(rec, ops)
			if err != nil {
				return err
			}
			last[id] = dump
		}
	}
	return nil
}

func readEvents(path string) ([]map[string]interface{}, error) {
	f, err := os.Open(path)
	if err != nil {
		return nil, err
	}
	defer f.Close()
	var out []map[string]interface{}
	dec := json.NewDecoder(f)
	for dec.More() {
		var m map[string]interface{}
		if err := dec.Decode(&m); err != nil {
			return nil, err
		}
		out = append(out, m)
	}
	return out, nil
}

func decodeOps(v interface{}) ([]abs.AOp, error) {
	// TLC serialises an empty record as [] : turn empty arrays in record
	// positions back into objects
	if l, ok := v.([]interface{}); ok {
		for _, o := range l {
			if m, ok := o.(map[string]interface{}); ok {
				if a, ok := m["row"].([]interface{}); ok && len(a) == 0 {
					m["row"] = map[string]interface{}{}
				}
				if rows, ok := m["rows"].([]interface{}); ok {
					for i, r := range rows {
						if a, ok := r.([]interface{}); ok && len(a) == 0 {
							rows[i] = map[string]interface{}{}
						}
					}
				}
			}
		}
	}
	b, err := json.Marshal(v)
	if err != nil {
		return nil, err
	}
	var ops []abs.AOp
	if err := json.Unmarshal(b, &ops); err != nil {
		return nil, err
	}
	for i := range ops {
		ops[i].Normalize()
	}
	return ops, nil
}

func init() {
	register("replay-cases", "replay TLC-enumerated transaction histories (MC_Txn CASE lines) on the real engine", cmdReplayCases)
}

// cmdReplayCases: every case is a history (sequence of transactions, each a
// sequence of indexes into the operation pool); it is executed on a fresh
// database and recorded as a trace for TraceTxn.tla.
func cmdReplayCases(args []string) error {
	fs := flag.NewFlagSet("replay-cases", flag.ExitOnError)
	schemaFile := fs.String("schema-file", "schema.abs.json", "abstract schema")
	poolFile := fs.String("pool", "pool.json", "operation pool (JSON array of abstract operations)")
	casesFile := fs.String("cases", "cases.ndjson", "one history per line")
	out := fs.String("o", "trace.ndjson", "output trace")
	mode := fs.String("mode", "direct", "direct|server")
	withMons := fs.Bool("monitors", false, "server mode: register a v1 and a v2 monitor over everything")
	_ = fs.Parse(args)
	s, err := abs.LoadSchema(*schemaFile)
	if err != nil {
		return err
	}
	b, err := abs.Build(s, false)
	if err != nil {
		return err
	}
	pb, err := os.ReadFile(*poolFile)
	if err != nil {
		return err
	}
	var poolRaw []interface{}
	if err := json.Unmarshal(pb, &poolRaw); err != nil {
		return err
	}
	pool, err := decodeOps(poolRaw)
	if err != nil {
		return err
	}
	cf, err := os.Open(*casesFile)
	if err != nil {
		return err
	}
	defer cf.Close()
	f, err := os.Create(*out)
	if err != nil {
		return err
	}
	defer f.Close()
	w := bufio.NewWriter(f)
	defer w.Flush()
	rec := rectxn.NewRecorder(w)
	dir, err := os.MkdirTemp("", "vh-sock")
	if err != nil {
		return err
	}
	defer os.RemoveAll(dir)
	tok := abs.NewTokens()
	dec := json.NewDecoder(cf)
	for dec.More() {
		var hist [][]int
		if err := dec.Decode(&hist); err != nil {
			return err
		}
		in, err := rectxn.NewInst(0, b, tok, *mode == "server", dir)
		if err != nil {
			return err
		}
		if err := rec.Emit(map[string]interface{}{"ev": "reset", "db": 0}); err != nil {
			return err
		}
		if *mode == "server" && *withMons {
			// one monitor per encoding over every table and column
			for k, method := range []string{"monitor", "monitor_cond"} {
				req := map[string]interface{}{}
				for _, t := range s.TableNames() {
					cols := []interface{}{}
					for _, c := range s.Tables[t].ColNames() {
						cols = append(cols, c)
					}
					req[t] = map[string]interface{}{"columns": cols, "initial": true, "insert": true, "delete": true, "modify": true}
				}
				m, initial, err := in.AddMonitor(fmt.Sprintf("\"c%d\"", k), method, req)
				if err != nil {
					in.Close()
					return err
				}
				if err := rec.Emit(map[string]interface{}{"ev": "monitor", "db": 0, "mon": m.ID, "enc": m.Enc,
					"method": method, "req": req, "initial": initial}); err != nil {
					in.Close()
					return err
				}
			}
		}
		for _, tx := range hist {
			var ops []abs.AOp
			for _, i := range tx {
				if i < 1 || i > len(pool) {
					return fmt.Errorf("pool index %d out of range", i)
				}
				o := pool[i-1]
				// deep copy the mutable members
				bb, _ := json.Marshal(o)
				var c abs.AOp
				_ = json.Unmarshal(bb, &c)
				c.Normalize()
				ops = append(ops, c)
			}
			if _, err := in.RunTxn(rec, ops); err != nil {
				in.Close()
				return err
			}
		}
		in.Close()
	}
	return nil
}

func init() {
	register("record-serial", "concurrent clients against one server: record calls, monitor message sequences and the final state", cmdRecordSerial)
}

func cmdRecordSerial(args []string) error {
	fs := flag.NewFlagSet("record-serial", flag.ExitOnError)
	seed := fs.Int64("seed", 1, "seed")
	n := fs.Int("n", 20, "number of traces")
	nclients := fs.Int("clients", 3, "concurrent clients")
	ncalls := fs.Int("calls", 3, "transactions per client")
	out := fs.String("o", "trace.ndjson", "output: one trace per line")
	_ = fs.Parse(args)
	s := abs.SmallSchema()
	b, err := abs.Build(s, false)
	if err != nil {
		return err
	}
	f, err := os.Create(*out)
	if err != nil {
		return err
	}
	defer f.Close()
	w := bufio.NewWriter(f)
	defer w.Flush()
	enc := json.NewEncoder(w)
	dir, err := os.MkdirTemp("", "vh-sock")
	if err != nil {
		return err
	}
	defer os.RemoveAll(dir)
	for i := 0; i < *n; i++ {
		tr, err := rectxn.RunSerial(b, dir, *seed*10000+int64(i), *nclients, *ncalls)
		if err != nil {
			return err
		}
		if err := enc.Encode(tr); err != nil {
			return err
		}
	}
	return nil
}
