package main

import (
	"bufio"
	"flag"
	"fmt"
	"math/rand"
	"os"

	"vh/abs"
	"vh/rectxn"
)

func init() {
	register("schema", "write the abstract schema JSON (and the OVSDB schema)", cmdSchema)
	register("record-txn", "run random transactions on the real engine and record a trace", cmdRecordTxn)
}

func cmdSchema(args []string) error {
	fs := flag.NewFlagSet("schema", flag.ExitOnError)
	name := fs.String("schema", "small", "small|kitchen|random")
	seed := fs.Int64("seed", 1, "seed for random schemas")
	out := fs.String("o", "schema.abs.json", "output file")
	ovs := fs.String("ovs", "", "also write the OVSDB schema here")
	_ = fs.Parse(args)
	s, err := abs.NamedSchema(*name, *seed)
	if err != nil {
		return err
	}
	if _, err := abs.Build(s, true); err != nil {
		return err
	}
	if err := os.WriteFile(*out, s.JSON(), 0o644); err != nil {
		return err
	}
	if *ovs != "" {
		return os.WriteFile(*ovs, s.OVSDBSchemaJSON(), 0o644)
	}
	return nil
}

func cmdRecordTxn(args []string) error {
	fs := flag.NewFlagSet("record-txn", flag.ExitOnError)
	name := fs.String("schema", "small", "small|kitchen|random")
	sseed := fs.Int64("schema-seed", 1, "seed for random schemas")
	seed := fs.Int64("seed", 1, "seed")
	n := fs.Int("n", 200, "number of transactions")
	episode := fs.Int("episode", 40, "transactions per database instance")
	mode := fs.String("mode", "direct", "direct|server")
	profile := fs.String("profile", "", "property id biasing the generator")
	out := fs.String("o", "trace.ndjson", "output trace")
	reload := fs.Float64("reload", 0.0, "probability of a history-independence check per transaction")
	nmon := fs.Int("monitors", 2, "monitors per episode (server mode)")
	_ = fs.Parse(args)

	s, err := abs.NamedSchema(*name, *sseed)
	if err != nil {
		return err
	}
	b, err := abs.Build(s, false)
	if err != nil {
		return err
	}
	f, err := os.Create(*out)
	if err != nil {
		return err
	}
	defer f.Close()
	w := bufio.NewWriter(f)
	defer w.Flush()
	rec := rectxn.NewRecorder(w)
	dir, err := os.MkdirTemp("", "vh-sock")
	if err != nil {
		return err
	}
	defer os.RemoveAll(dir)

	rnd := rand.New(rand.NewSource(*seed))
	tok := abs.NewTokens()
	g := abs.NewGen(s, *seed, abs.ProfileFor(*profile))
	done := 0
	for done < *n {
		in, err := rectxn.NewInst(0, b, tok, *mode == "server", dir)
		if err != nil {
			return err
		}
		if err := rec.Emit(map[string]interface{}{"ev": "reset", "db": 0}); err != nil {
			return err
		}
		g.SetState(map[string]interface{}{})
		last := map[string]interface{}{}
		for t := range s.Tables {
			last[t] = map[string]interface{}{}
		}
		monsAdded := 0
		for k := 0; k < *episode && done < *n; k++ {
			if *mode == "server" && monsAdded < *nmon && (k == 0 || rnd.Intn(6) == 0) {
				monsAdded++
				method := []string{"monitor", "monitor_cond", "monitor_cond_since"}[rnd.Intn(3)]
				req := rectxn.RandomMonitorReq(s, rnd, rnd.Intn(2) == 0)
				id := fmt.Sprintf("\"m%d\"", monsAdded)
				m, initial, err := in.AddMonitor(id, method, req)
				if err != nil {
					return fmt.Errorf("monitor: %v", err)
				}
				if err := rec.Emit(map[string]interface{}{"ev": "monitor", "db": 0, "mon": m.ID, "enc": m.Enc,
					"method": method, "req": req, "initial": initial}); err != nil {
					return err
				}
			}
			ops := g.Txn()
			if *reload > 0 && rnd.Float64() < *reload {
				in2, err := rectxn.NewInst(1, b, tok, false, dir)
				if err != nil {
					return err
				}
				if err := rec.Emit(map[string]interface{}{"ev": "reset", "db": 1}); err != nil {
					return err
				}
				if err := in2.LoadFrom(rec, 0, last); err != nil {
					in2.Close()
					return err
				}
				ops2 := make([]abs.AOp, len(ops))
				copy(ops2, ops)
				if _, err := in2.RunTxn(rec, ops2); err != nil {
					in2.Close()
					return err
				}
				in2.Close()
			}
			dump, err := in.RunTxn(rec, ops)
			if err != nil {
				return err
			}
			done++
			last = dump
			g.SetState(dump)
		}
		in.Close()
	}
	return nil
}
