package main

import (
	"bufio"
	"encoding/json"
	"flag"
	"os"

	"vh/recdiff"
)

func init() {
	register("merge-cases", "run MC_Merge CASE lines (operation sequences on one row) through the updates package", cmdMergeCases)
}

func cmdMergeCases(args []string) error {
	fs := flag.NewFlagSet("merge-cases", flag.ExitOnError)
	casesFile := fs.String("cases", "cases.ndjson", "one case per line")
	out := fs.String("o", "trace.ndjson", "output trace")
	_ = fs.Parse(args)
	cf, err := os.Open(*casesFile)
	if err != nil {
		return err
	}
	defer cf.Close()
	f, err := os.Create(*out)
	if err != nil {
		return err
	}
	defer f.Close()
	w := bufio.NewWriter(f)
	defer w.Flush()
	enc := json.NewEncoder(w)
	env, err := recdiff.NewEnv()
	if err != nil {
		return err
	}
	dec := json.NewDecoder(cf)
	for dec.More() {
		var c recdiff.MCase
		if err := dec.Decode(&c); err != nil {
			return err
		}
		if err := env.RunMerge(c, func(ev map[string]interface{}) error { return enc.Encode(ev) }); err != nil {
			return err
		}
	}
	return nil
}
