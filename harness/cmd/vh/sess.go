package main

import (
	"bufio"
	"encoding/json"
	"flag"
	"fmt"
	"math/rand"
	"os"
	"sort"
	"strings"
	"time"

	"vh/abs"
	"vh/recsess"
	"vh/rectxn"
)

func init() {
	register("record-session", "real clients with monitors against the real server: record transactions and client caches", cmdRecordSession)
}

func cmdRecordSession(args []string) error {
	fs := flag.NewFlagSet("record-session", flag.ExitOnError)
	name := fs.String("schema", "small", "small|kitchen|random")
	sseed := fs.Int64("schema-seed", 1, "seed for random schemas")
	seed := fs.Int64("seed", 1, "seed")
	n := fs.Int("n", 100, "number of transactions")
	episode := fs.Int("episode", 25, "transactions per server instance")
	nclients := fs.Int("clients", 2, "clients per episode")
	profile := fs.String("profile", "C01", "generator profile")
	out := fs.String("o", "trace.ndjson", "output trace")
	nhandlers := fs.Int("handlers", 0, "event handlers registered on every client's cache before the history starts")
	_ = fs.Parse(args)

	s, err := abs.NamedSchema(*name, *sseed)
	if err != nil {
		return err
	}
	b, err := abs.Build(s, false)
	if err != nil {
		return err
	}
	f, err := os.Create(*out)
	if err != nil {
		return err
	}
	defer f.Close()
	w := bufio.NewWriter(f)
	defer w.Flush()
	rec := rectxn.NewRecorder(w)
	dir, err := os.MkdirTemp("", "vh-sock")
	if err != nil {
		return err
	}
	defer os.RemoveAll(dir)
	rnd := rand.New(rand.NewSource(*seed))
	tok := abs.NewTokens()
	p := abs.ProfileFor(*profile)
	p.NoUUIDs = 0.05
	g := abs.NewGen(s, *seed, p)
	methods := []string{"monitor", "monitor_cond", "monitor_cond_since"}
	done := 0
	markerN := 0
	for done < *n {
		in, err := rectxn.NewInst(0, b, tok, true, dir)
		if err != nil {
			return err
		}
		if err := rec.Emit(map[string]interface{}{"ev": "reset", "db": 0}); err != nil {
			return err
		}
		g.SetState(map[string]interface{}{})
		var clients []*recsess.Client
		closeAll := func() {
			for _, c := range clients {
				c.C.Close()
			}
			in.Close()
		}
		// raw monitoring peers see what the server puts on the wire (C07 on the same history)
		for k, method := range []string{"monitor", "monitor_cond"} {
			req := map[string]interface{}{}
			for _, t := range s.TableNames() {
				cols := []interface{}{}
				for _, c := range s.Tables[t].ColNames() {
					cols = append(cols, c)
				}
				req[t] = map[string]interface{}{"columns": cols, "initial": true, "insert": true, "delete": true, "modify": true}
			}
			m, initial, err := in.AddMonitor(fmt.Sprintf("\"raw%d\"", k), method, req)
			if err != nil {
				in.Close()
				return err
			}
			if err := rec.Emit(map[string]interface{}{"ev": "monitor", "db": 0, "mon": m.ID, "enc": m.Enc,
				"method": method, "req": req, "initial": initial}); err != nil {
				in.Close()
				return err
			}
		}
		for i := 0; i < *nclients; i++ {
			c, err := recsess.NewClient(i+1, in.Ctx, in.Sock, false)
			if err != nil {
				closeAll()
				return fmt.Errorf("client %d: %v", i+1, err)
			}
			if *nhandlers > 0 {
				c.AddHandlers(*nhandlers)
			}
			clients = append(clients, c)
		}
		// flush: a marker row per client makes sure every earlier event has been delivered
		flush := func() error {
			if *nhandlers == 0 {
				return nil
			}
			for _, c := range clients {
				barrier, landed := false, false
				var tables []string
				for t := range c.Monitored {
					tables = append(tables, t)
				}
				sort.Strings(tables)
				for _, t := range tables {
					markerN++
					u := fmt.Sprintf("u%d", 9000+markerN)
					saved := g.P
					g.P.Index, g.P.Refs = 0, 0
					row := g.MarkerRow(t, fmt.Sprintf("mk%d", markerN), markerN)
					g.P = saved
					o := abs.AOp{Op: "insert", Table: t, UUID: u, Row: row}
					o.Normalize()
					dump, err := in.RunTxn(rec, []abs.AOp{o})
					if err != nil {
						return err
					}
					g.SetState(dump)
					if _, ok := dump[t].(map[string]interface{})[u]; !ok {
						continue // the marker was rejected or garbage collected: try another table
					}
					barrier = c.WaitMarker(u, 5*time.Second)
					landed = true
					break
				}
				if !landed {
					continue // no marker row could be inserted: nothing to synchronise on this time
				}
				ev, err := c.EventsEvent(0, barrier)
				if err != nil {
					return err
				}
				if err := rec.Emit(ev); err != nil {
					return err
				}
			}
			return nil
		}
		for k := 0; k < *episode && done < *n; k++ {
			// now and then a client establishes a (further) monitor
			for _, c := range clients {
				first := len(c.Monitored) == 0
				if (first && rnd.Intn(3) == 0) || (!first && rnd.Intn(8) == 0) {
					tables := c.RandomMonitorTables(rnd, rnd.Intn(3) == 0)
					if tables == nil {
						continue
					}
					method := methods[rnd.Intn(len(methods))]
					id, err := c.Monitor(method, tables)
					if err != nil {
						closeAll()
						return fmt.Errorf("client %d monitor: %v", c.ID, err)
					}
					tj := map[string]interface{}{}
					for t, cols := range tables {
						ci := []interface{}{}
						for _, x := range cols {
							ci = append(ci, x)
						}
						tj[t] = ci
					}
					if err := rec.Emit(map[string]interface{}{"ev": "cmonitor", "db": 0, "cli": c.ID, "mon": id, "method": method, "tables": tj}); err != nil {
						closeAll()
						return err
					}
					if err := c.EmitCache(rec, 0, "monitor-returned"); err != nil {
						closeAll()
						return err
					}
				}
			}
			var dump map[string]interface{}
			if rnd.Intn(4) == 0 {
				// a client's own transaction: its effects must be in its cache when Transact returns
				c := clients[rnd.Intn(len(clients))]
				saved := g.P.Fail
				g.P.Fail = 0
				ops := g.Txn()
				g.P.Fail = saved
				ok := true
				for _, o := range ops {
					if o.Bad {
						ok = false
					}
				}
				if !ok {
					continue
				}
				dump, err = c.Transact(in, rec, ops)
			} else {
				dump, err = in.RunTxn(rec, g.Txn())
			}
			if err != nil {
				closeAll()
				return err
			}
			done++
			g.SetState(dump)
			for _, c := range clients {
				if err := c.EmitCache(rec, 0, "after-transaction"); err != nil {
					closeAll()
					return err
				}
			}
			if k%8 == 7 {
				if err := flush(); err != nil {
					closeAll()
					return err
				}
			}
		}
		if err := flush(); err != nil {
			closeAll()
			return err
		}
		closeAll()
	}
	return nil
}

func init() {
	register("replay-session", "re-execute a recorded session (monitors, transactions, cache snapshots) and record again", cmdReplaySession)
}

func cmdReplaySession(args []string) error {
	fs := flag.NewFlagSet("replay-session", flag.ExitOnError)
	schemaFile := fs.String("schema-file", "schema.abs.json", "abstract schema")
	inFile := fs.String("i", "events.ndjson", "recorded events")
	out := fs.String("o", "trace.ndjson", "output trace")
	_ = fs.Parse(args)
	s, err := abs.LoadSchema(*schemaFile)
	if err != nil {
		return err
	}
	b, err := abs.Build(s, false)
	if err != nil {
		return err
	}
	evs, err := readEvents(*inFile)
	if err != nil {
		return err
	}
	f, err := os.Create(*out)
	if err != nil {
		return err
	}
	defer f.Close()
	w := bufio.NewWriter(f)
	defer w.Flush()
	rec := rectxn.NewRecorder(w)
	dir, err := os.MkdirTemp("", "vh-sock")
	if err != nil {
		return err
	}
	defer os.RemoveAll(dir)
	tok := abs.NewTokens()
	var in *rectxn.Inst
	clients := map[int]*recsess.Client{}
	closeAll := func() {
		for _, c := range clients {
			c.C.Close()
		}
		clients = map[int]*recsess.Client{}
		if in != nil {
			in.Close()
			in = nil
		}
	}
	defer closeAll()
	// recording handlers as in the recorded run (an "events" event lists one callback log per handler)
	handlersOf := map[int]int{}
	for _, e := range evs {
		if e["ev"] == "events" {
			if hs, ok := e["handlers"].([]interface{}); ok {
				handlersOf[int(e["cli"].(float64))] = len(hs)
			}
		}
	}
	client := func(id int) (*recsess.Client, error) {
		if c, ok := clients[id]; ok {
			return c, nil
		}
		c, err := recsess.NewClient(id, in.Ctx, in.Sock, false)
		if err != nil {
			return nil, err
		}
		if n := handlersOf[id]; n > 0 {
			c.AddHandlers(n)
		}
		clients[id] = c
		return c, nil
	}
	for i := 0; i < len(evs); i++ {
		e := evs[i]
		switch e["ev"] {
		case "events":
			c, err := client(int(e["cli"].(float64)))
			if err != nil {
				return err
			}
			// the marker row is the single insert of the nearest transaction before
			barrier := false
			for j := i - 1; j >= 0; j-- {
				if evs[j]["ev"] != "txn" {
					continue
				}
				ops, err := decodeOps(evs[j]["ops"])
				if err != nil {
					return err
				}
				if len(ops) == 1 && ops[0].Op == "insert" && strings.HasPrefix(ops[0].UUID, "u9") {
					barrier = c.WaitMarker(ops[0].UUID, 5*time.Second)
				}
				break
			}
			ev, err := c.EventsEvent(0, barrier)
			if err != nil {
				return err
			}
			if err := rec.Emit(ev); err != nil {
				return err
			}
		case "reset":
			closeAll()
			in, err = rectxn.NewInst(0, b, tok, true, dir)
			if err != nil {
				return err
			}
			if err := rec.Emit(map[string]interface{}{"ev": "reset", "db": 0}); err != nil {
				return err
			}
		case "monitor":
			req := e["req"].(map[string]interface{})
			m, initial, err := in.AddMonitor(e["mon"].(string), e["method"].(string), req)
			if err != nil {
				return err
			}
			if err := rec.Emit(map[string]interface{}{"ev": "monitor", "db": 0, "mon": m.ID, "enc": m.Enc,
				"method": e["method"], "req": req, "initial": initial}); err != nil {
				return err
			}
		case "cmonitor":
			c, err := client(int(e["cli"].(float64)))
			if err != nil {
				return err
			}
			tables := map[string][]string{}
			for t, cols := range e["tables"].(map[string]interface{}) {
				for _, x := range cols.([]interface{}) {
					tables[t] = append(tables[t], x.(string))
				}
			}
			id, err := c.Monitor(e["method"].(string), tables)
			if err != nil {
				return err
			}
			if err := rec.Emit(map[string]interface{}{"ev": "cmonitor", "db": 0, "cli": c.ID, "mon": id, "method": e["method"], "tables": e["tables"]}); err != nil {
				return err
			}
		case "cache":
			if e["when"] == "transact-returned" {
				continue // emitted by the client transaction itself
			}
			c, err := client(int(e["cli"].(float64)))
			if err != nil {
				return err
			}
			if err := c.EmitCache(rec, 0, e["when"].(string)); err != nil {
				return err
			}
		case "txn":
			ops, err := decodeOps(e["ops"])
			if err != nil {
				return err
			}
			if i+1 < len(evs) && evs[i+1]["ev"] == "cache" && evs[i+1]["when"] == "transact-returned" {
				c, err := client(int(evs[i+1]["cli"].(float64)))
				if err != nil {
					return err
				}
				if _, err := c.Transact(in, rec, ops); err != nil {
					return err
				}
			} else if _, err := in.RunTxn(rec, ops); err != nil {
				return err
			}
		}
	}
	return nil
}

func init() {
	register("leader-cases", "leader-only client with two endpoints through leadership histories (C16)", cmdLeaderCases)
	register("reconn-cases", "connection loss scenarios (proxy cuts, black hole, cuts while reconnecting) on a real client with reconnect", cmdReconnCases)
}

func cmdReconnCases(args []string) error {
	fs := flag.NewFlagSet("reconn-cases", flag.ExitOnError)
	casesFile := fs.String("cases", "cases.ndjson", "one case per line")
	out := fs.String("o", "trace.ndjson", "output trace")
	stats := fs.String("stats", "", "per-case statistics")
	schemaOut := fs.String("schema-out", "", "write the abstract schema here")
	_ = fs.Parse(args)
	s := recsess.ReconnSchema()
	b, err := abs.Build(s, false)
	if err != nil {
		return err
	}
	if *schemaOut != "" {
		if err := os.WriteFile(*schemaOut, s.JSON(), 0o644); err != nil {
			return err
		}
	}
	cf, err := os.Open(*casesFile)
	if err != nil {
		return err
	}
	defer cf.Close()
	f, err := os.Create(*out)
	if err != nil {
		return err
	}
	defer f.Close()
	w := bufio.NewWriter(f)
	defer w.Flush()
	rec := rectxn.NewRecorder(w)
	dir, err := os.MkdirTemp("", "vh-sock")
	if err != nil {
		return err
	}
	defer os.RemoveAll(dir)
	var sw *json.Encoder
	if *stats != "" {
		sf, err := os.Create(*stats)
		if err != nil {
			return err
		}
		defer sf.Close()
		sw = json.NewEncoder(sf)
	}
	tok := abs.NewTokens()
	dec := json.NewDecoder(cf)
	for dec.More() {
		var c recsess.ReconnCase
		if err := dec.Decode(&c); err != nil {
			return err
		}
		st, err := recsess.RunReconn(b, tok, dir, c, rec)
		if err != nil {
			return err
		}
		if sw != nil {
			_ = sw.Encode(st)
		}
	}
	return nil
}

func init() {
	register("events-direct", "random notifications (also rejected ones) applied to a TableCache with recording handlers", cmdEventsDirect)
}

func cmdEventsDirect(args []string) error {
	fs := flag.NewFlagSet("events-direct", flag.ExitOnError)
	name := fs.String("schema", "small", "small|kitchen|random")
	sseed := fs.Int64("schema-seed", 1, "seed for random schemas")
	seed := fs.Int64("seed", 1, "seed")
	n := fs.Int("n", 20, "number of caches")
	steps := fs.Int("steps", 60, "notifications per cache")
	out := fs.String("o", "trace.ndjson", "output trace")
	_ = fs.Parse(args)
	s, err := abs.NamedSchema(*name, *sseed)
	if err != nil {
		return err
	}
	b, err := abs.Build(s, true)
	if err != nil {
		return err
	}
	f, err := os.Create(*out)
	if err != nil {
		return err
	}
	defer f.Close()
	w := bufio.NewWriter(f)
	defer w.Flush()
	rec := rectxn.NewRecorder(w)
	for i := 0; i < *n; i++ {
		if err := recsess.EventsDirect(b, *seed*1000+int64(i), *steps, 1+i%3, rec); err != nil {
			return err
		}
	}
	return nil
}

func cmdLeaderCases(args []string) error {
	fs := flag.NewFlagSet("leader-cases", flag.ExitOnError)
	casesFile := fs.String("cases", "cases.ndjson", "one case per line")
	out := fs.String("o", "trace.ndjson", "output trace")
	_ = fs.Parse(args)
	b, err := abs.Build(recsess.ReconnSchema(), false)
	if err != nil {
		return err
	}
	cf, err := os.Open(*casesFile)
	if err != nil {
		return err
	}
	defer cf.Close()
	f, err := os.Create(*out)
	if err != nil {
		return err
	}
	defer f.Close()
	w := bufio.NewWriter(f)
	defer w.Flush()
	rec := rectxn.NewRecorder(w)
	dir, err := os.MkdirTemp("", "vh-sock")
	if err != nil {
		return err
	}
	defer os.RemoveAll(dir)
	dec := json.NewDecoder(cf)
	id := 0
	for dec.More() {
		var c recsess.LeaderCase
		if err := dec.Decode(&c); err != nil {
			return err
		}
		if err := recsess.RunLeader(b, dir, id, c, rec); err != nil {
			return err
		}
		id++
	}
	return nil
}
