//go:build verif

package main

import (
	"bufio"
	"encoding/json"
	"flag"
	"os"
	"time"

	"vh/abs"
	"vh/recsess"
	"vh/rectxn"
)

func init() {
	register("calls-cases", "API call sequences and gated races on a real client: every call must return (C18)", cmdCallsCases)
}

func cmdCallsCases(args []string) error {
	fs := flag.NewFlagSet("calls-cases", flag.ExitOnError)
	casesFile := fs.String("cases", "cases.ndjson", "one case per line")
	out := fs.String("o", "trace.ndjson", "output trace")
	stress := fs.Int("stress", 0, "milliseconds of reader/writer/disconnect stress appended to the trace")
	seed := fs.Int64("seed", 1, "seed")
	_ = fs.Parse(args)
	s := recsess.ReconnSchema()
	b, err := abs.Build(s, false)
	if err != nil {
		return err
	}
	f, err := os.Create(*out)
	if err != nil {
		return err
	}
	defer f.Close()
	w := bufio.NewWriter(f)
	defer w.Flush()
	rec := rectxn.NewRecorder(w)
	dir, err := os.MkdirTemp("", "vh-sock")
	if err != nil {
		return err
	}
	defer os.RemoveAll(dir)
	if *casesFile != "" {
		cf, err := os.Open(*casesFile)
		if err != nil {
			return err
		}
		defer cf.Close()
		dec := json.NewDecoder(cf)
		for dec.More() {
			var c recsess.CallsCase
			if err := dec.Decode(&c); err != nil {
				return err
			}
			if err := recsess.RunCalls(b, dir, c, rec); err != nil {
				return err
			}
			w.Flush()
		}
	}
	if *stress > 0 {
		sb, err := abs.Build(recsess.StressSchema(), false)
		if err != nil {
			return err
		}
		if err := recsess.RunStress(sb, dir, *seed, time.Duration(*stress)*time.Millisecond, rec); err != nil {
			return err
		}
	}
	return nil
}
