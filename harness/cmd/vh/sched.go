//go:build verif

package main

import (
	"bufio"
	"encoding/json"
	"flag"
	"os"
	"time"

	"vh/abs"
	"vh/recsess"
	"vh/rectxn"
)

func init() {
	register("sched-cases", "force Session.tla schedules on a real client, server and writer with the verif pause points", cmdSchedCases)
}

func cmdSchedCases(args []string) error {
	fs := flag.NewFlagSet("sched-cases", flag.ExitOnError)
	casesFile := fs.String("cases", "cases.ndjson", "one schedule per line")
	out := fs.String("o", "trace.ndjson", "output trace")
	stats := fs.String("stats", "", "write per-schedule statistics here")
	allMethods := fs.Bool("all-methods", false, "run every schedule with all nine method assignments")
	waitMs := fs.Int("wait-ms", 40, "how long to wait for an expected arrival before moving on")
	schemaOut := fs.String("schema-out", "", "write the abstract schema here")
	_ = fs.Parse(args)
	s := recsess.SessSchema()
	b, err := abs.Build(s, false)
	if err != nil {
		return err
	}
	if *schemaOut != "" {
		if err := os.WriteFile(*schemaOut, s.JSON(), 0o644); err != nil {
			return err
		}
	}
	cf, err := os.Open(*casesFile)
	if err != nil {
		return err
	}
	defer cf.Close()
	f, err := os.Create(*out)
	if err != nil {
		return err
	}
	defer f.Close()
	w := bufio.NewWriter(f)
	defer w.Flush()
	rec := rectxn.NewRecorder(w)
	dir, err := os.MkdirTemp("", "vh-sock")
	if err != nil {
		return err
	}
	defer os.RemoveAll(dir)
	var sw *json.Encoder
	if *stats != "" {
		sf, err := os.Create(*stats)
		if err != nil {
			return err
		}
		defer sf.Close()
		sw = json.NewEncoder(sf)
	}
	methods := []string{"monitor", "monitor_cond", "monitor_cond_since"}
	tok := abs.NewTokens()
	dec := json.NewDecoder(cf)
	n := 0
	for dec.More() {
		var rawc struct {
			Steps []recsess.Step `json:"steps"`
			Combo int            `json:"combo"`
		}
		if err := dec.Decode(&rawc); err != nil {
			return err
		}
		combos := []int{rawc.Combo % 9}
		if *allMethods {
			combos = []int{0, 1, 2, 3, 4, 5, 6, 7, 8}
		}
		for _, k := range combos {
			ms := map[string]string{"m1": methods[k%3], "m2": methods[k/3]}
			st, err := recsess.RunSchedule(b, tok, dir, rawc.Steps, ms, rec, time.Duration(*waitMs)*time.Millisecond)
			if err != nil {
				return err
			}
			if sw != nil {
				st["combo"] = k
				st["index"] = n
				_ = sw.Encode(st)
			}
		}
		n++
	}
	return nil
}
