package main

import (
	"bufio"
	"encoding/json"
	"flag"
	"fmt"
	"os"

	"vh/abs"
	"vh/recsess"
	"vh/rectxn"
)

func init() {
	register("api-cases", "make the model API calls of MC_Api CASE lines on a synchronised client and record what they do (TraceApi.tla)", cmdAPICases)
}

func cmdAPICases(args []string) error {
	fs := flag.NewFlagSet("api-cases", flag.ExitOnError)
	casesFile := fs.String("cases", "cases.ndjson", "one case per line")
	out := fs.String("o", "trace.ndjson", "output trace")
	_ = fs.Parse(args)
	cf, err := os.Open(*casesFile)
	if err != nil {
		return err
	}
	defer cf.Close()
	f, err := os.Create(*out)
	if err != nil {
		return err
	}
	defer f.Close()
	w := bufio.NewWriter(f)
	defer w.Flush()
	rec := rectxn.NewRecorder(w)
	dir, err := os.MkdirTemp("", "vh-sock")
	if err != nil {
		return err
	}
	defer os.RemoveAll(dir)
	a, err := recsess.NewAPIRunner(dir, abs.APISchema())
	if err != nil {
		return err
	}
	defer a.Close()
	sc := bufio.NewScanner(cf)
	sc.Buffer(make([]byte, 1<<20), 1<<26)
	for sc.Scan() {
		line := sc.Bytes()
		if len(line) == 0 {
			continue
		}
		var c recsess.APICase
		if err := json.Unmarshal(line, &c); err != nil {
			return err
		}
		var raw struct {
			Call interface{} `json:"call"`
		}
		if err := json.Unmarshal(line, &raw); err != nil {
			return err
		}
		if err := a.Load(rec, map[string]recsess.RowsJ{"A": c.DB}); err != nil {
			return err
		}
		if err := a.Run(rec, c.Call, raw.Call); err != nil {
			return err
		}
	}
	return sc.Err()
}

func init() {
	register("api-random", "random calls of the client's model API on a synchronised client over a schema, the database evolving (TraceApi.tla)", cmdAPIRandom)
}

func cmdAPIRandom(args []string) error {
	fs := flag.NewFlagSet("api-random", flag.ExitOnError)
	schema := fs.String("schema", "kitchen", "small|kitchen|random|api")
	schemaSeed := fs.Int64("schema-seed", 1, "seed of a random schema")
	seed := fs.Int64("seed", 1, "seed of the calls")
	n := fs.Int("n", 100, "number of calls")
	episode := fs.Int("episode", 40, "calls per database (then the database is emptied)")
	out := fs.String("o", "trace.ndjson", "output trace")
	replay := fs.String("replay", "", "a file {db, call}: load the database, make the one call")
	_ = fs.Parse(args)
	s, err := abs.NamedSchema(*schema, *schemaSeed)
	if err != nil {
		return err
	}
	f, err := os.Create(*out)
	if err != nil {
		return err
	}
	defer f.Close()
	w := bufio.NewWriter(f)
	defer w.Flush()
	rec := rectxn.NewRecorder(w)
	dir, err := os.MkdirTemp("", "vh-sock")
	if err != nil {
		return err
	}
	defer os.RemoveAll(dir)
	a, err := recsess.NewAPIRunner(dir, s)
	if err != nil {
		return err
	}
	defer a.Close()
	if *replay != "" {
		b, err := os.ReadFile(*replay)
		if err != nil {
			return err
		}
		var c struct {
			DB   map[string]recsess.RowsJ `json:"db"`
			Call recsess.APICall          `json:"call"`
		}
		if err := json.Unmarshal(b, &c); err != nil {
			return err
		}
		var raw struct {
			Call interface{} `json:"call"`
		}
		if err := json.Unmarshal(b, &raw); err != nil {
			return err
		}
		if err := a.Load(rec, c.DB); err != nil {
			return err
		}
		return a.Run(rec, c.Call, raw.Call)
	}
	p := abs.DefaultProfile()
	g := abs.NewGen(s, *seed, p)
	for i := 0; i < *n; i++ {
		if i%*episode == 0 {
			if err := a.Load(rec, map[string]recsess.RowsJ{}); err != nil {
				return err
			}
			g.SetState(map[string]interface{}{})
		}
		ca := g.APICall()
		b, err := json.Marshal(ca)
		if err != nil {
			return err
		}
		var call recsess.APICall
		if err := json.Unmarshal(b, &call); err != nil {
			return err
		}
		var raw interface{}
		if err := json.Unmarshal(b, &raw); err != nil {
			return err
		}
		if err := a.Run(rec, call, raw); err != nil {
			return fmt.Errorf("call %d (%s): %v", i, string(b), err)
		}
		dump, _, err := a.In.Observe()
		if err != nil {
			return err
		}
		g.SetState(dump)
	}
	return nil
}
