package main

import (
	"bufio"
	"encoding/json"
	"flag"
	"os"

	"vh/abs"
	"vh/recsess"
	"vh/rectxn"
)

func init() {
	register("api-cases", "make the model API calls of MC_Api CASE lines on a synchronised client and record what they do (TraceApi.tla)", cmdAPICases)
}

func cmdAPICases(args []string) error {
	fs := flag.NewFlagSet("api-cases", flag.ExitOnError)
	casesFile := fs.String("cases", "cases.ndjson", "one case per line")
	out := fs.String("o", "trace.ndjson", "output trace")
	_ = fs.Parse(args)
	cf, err := os.Open(*casesFile)
	if err != nil {
		return err
	}
	defer cf.Close()
	f, err := os.Create(*out)
	if err != nil {
		return err
	}
	defer f.Close()
	w := bufio.NewWriter(f)
	defer w.Flush()
	rec := rectxn.NewRecorder(w)
	dir, err := os.MkdirTemp("", "vh-sock")
	if err != nil {
		return err
	}
	defer os.RemoveAll(dir)
	a, err := recsess.NewAPIRunner(dir, abs.APISchema())
	if err != nil {
		return err
	}
	defer a.Close()
	sc := bufio.NewScanner(cf)
	sc.Buffer(make([]byte, 1<<20), 1<<26)
	for sc.Scan() {
		line := sc.Bytes()
		if len(line) == 0 {
			continue
		}
		var c recsess.APICase
		if err := json.Unmarshal(line, &c); err != nil {
			return err
		}
		var raw struct {
			Call interface{} `json:"call"`
		}
		if err := json.Unmarshal(line, &raw); err != nil {
			return err
		}
		if err := a.Load(rec, map[string]recsess.RowsJ{"A": c.DB}); err != nil {
			return err
		}
		if err := a.Run(rec, c.Call, raw.Call); err != nil {
			return err
		}
	}
	return sc.Err()
}
