package main

import (
	"bufio"
	"encoding/json"
	"flag"
	"math/rand"
	"os"

	"vh/recdiff"
)

func init() {
	register("diff-cases", "run MC_Diff CASE lines through the updates package for every column type and element order", cmdDiffCases)
}

func cmdDiffCases(args []string) error {
	fs := flag.NewFlagSet("diff-cases", flag.ExitOnError)
	casesFile := fs.String("cases", "cases.ndjson", "one case per line")
	out := fs.String("o", "trace.ndjson", "output trace")
	nrand := fs.Int("random", 0, "additional random cases over a larger universe")
	seed := fs.Int64("seed", 1, "seed for the random cases")
	_ = fs.Parse(args)
	cf, err := os.Open(*casesFile)
	if err != nil {
		return err
	}
	defer cf.Close()
	f, err := os.Create(*out)
	if err != nil {
		return err
	}
	defer f.Close()
	w := bufio.NewWriter(f)
	defer w.Flush()
	enc := json.NewEncoder(w)
	env, err := recdiff.NewEnv()
	if err != nil {
		return err
	}
	emit := func(ev map[string]interface{}) error { return enc.Encode(ev) }
	dec := json.NewDecoder(cf)
	for dec.More() {
		var c recdiff.Case
		if err := dec.Decode(&c); err != nil {
			return err
		}
		if err := env.Run(c, emit); err != nil {
			return err
		}
		if err := env.RunPeer(c, emit); err != nil {
			return err
		}
	}
	rnd := rand.New(rand.NewSource(*seed))
	for i := 0; i < *nrand; i++ {
		kind := []string{"set", "map", "opt", "atom"}[rnd.Intn(4)]
		c := recdiff.Case{T: "diff", Kind: kind, A: randVal(rnd, kind), B: randVal(rnd, kind)}
		if rnd.Intn(4) == 0 {
			c.B = c.A
		}
		if err := env.Run(c, emit); err != nil {
			return err
		}
		if err := env.RunPeer(c, emit); err != nil {
			return err
		}
	}
	return nil
}

func randVal(rnd *rand.Rand, kind string) interface{} {
	switch kind {
	case "atom":
		return rnd.Intn(40)
	case "opt":
		if rnd.Intn(3) == 0 {
			return []interface{}{}
		}
		return []interface{}{1 + rnd.Intn(40)}
	case "set":
		seen := map[int]bool{}
		out := []interface{}{}
		for n := rnd.Intn(12); n > 0; n-- {
			x := 1 + rnd.Intn(25)
			if !seen[x] {
				seen[x] = true
				out = append(out, x)
			}
		}
		return out
	default:
		seen := map[int]bool{}
		out := []interface{}{}
		for n := rnd.Intn(10); n > 0; n-- {
			k := 1 + rnd.Intn(15)
			if !seen[k] {
				seen[k] = true
				out = append(out, []interface{}{k, 1 + rnd.Intn(4)})
			}
		}
		return out
	}
}
