package main

import (
	"bufio"
	"encoding/json"
	"flag"
	"os"

	"vh/reccache"
)

func init() {
	register("cache-cases", "replay TLC-enumerated cache batches (MC_Cache CASE lines) on the real cache in every order", cmdCacheCases)
}

func cmdCacheCases(args []string) error {
	fs := flag.NewFlagSet("cache-cases", flag.ExitOnError)
	casesFile := fs.String("cases", "cases.ndjson", "one case per line")
	out := fs.String("o", "trace.ndjson", "output trace")
	_ = fs.Parse(args)
	cf, err := os.Open(*casesFile)
	if err != nil {
		return err
	}
	defer cf.Close()
	f, err := os.Create(*out)
	if err != nil {
		return err
	}
	defer f.Close()
	w := bufio.NewWriter(f)
	defer w.Flush()
	enc := json.NewEncoder(w)
	dec := json.NewDecoder(cf)
	for dec.More() {
		var c reccache.Case
		if err := dec.Decode(&c); err != nil {
			return err
		}
		if err := reccache.Run(c, func(ev map[string]interface{}) error { return enc.Encode(ev) }); err != nil {
			return err
		}
	}
	return nil
}
