package main

import (
	"fmt"
	"io"
	"log"
	"os"

	"github.com/go-logr/stdr"
)

type cmd struct {
	name string
	run  func(args []string) error
	help string
}

var cmds []cmd

func register(name, help string, run func(args []string) error) {
	cmds = append(cmds, cmd{name, run, help})
}

func main() {
	// the library logs every cache operation at verbosity 5 (set by the
	// server package's init); the harness observes through the API instead
	stdr.SetVerbosity(0)
	if os.Getenv("VH_LOG") == "" {
		log.SetOutput(io.Discard)
	}
	if len(os.Args) < 2 {
		usage()
		os.Exit(2)
	}
	for _, c := range cmds {
		if c.name == os.Args[1] {
			if err := c.run(os.Args[2:]); err != nil {
				fmt.Fprintf(os.Stderr, "vh %s: %v\n", c.name, err)
				os.Exit(2)
			}
			return
		}
	}
	usage()
	os.Exit(2)
}

func usage() {
	fmt.Fprintln(os.Stderr, "usage: vh <command> [flags]")
	for _, c := range cmds {
		fmt.Fprintf(os.Stderr, "  %-14s %s\n", c.name, c.help)
	}
}
