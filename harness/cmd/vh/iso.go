package main

import (
	"bufio"
	"encoding/json"
	"flag"
	"os"

	"vh/reciso"
)

func init() {
	register("iso-cases", "replay MC_Iso CASE lines (isolation of cached models, Clone/Equal laws) on the real cache and client", cmdIsoCases)
}

func cmdIsoCases(args []string) error {
	fs := flag.NewFlagSet("iso-cases", flag.ExitOnError)
	casesFile := fs.String("cases", "cases.ndjson", "one case per line")
	schemaFile := fs.String("ovs-schema", "iso.ovsschema", "OVSDB schema of the cases")
	out := fs.String("o", "trace.ndjson", "output trace")
	_ = fs.Parse(args)
	cf, err := os.Open(*casesFile)
	if err != nil {
		return err
	}
	defer cf.Close()
	f, err := os.Create(*out)
	if err != nil {
		return err
	}
	defer f.Close()
	w := bufio.NewWriter(f)
	defer w.Flush()
	enc := json.NewEncoder(w)
	env, err := reciso.NewEnv(*schemaFile)
	if err != nil {
		return err
	}
	defer env.Close()
	dec := json.NewDecoder(cf)
	for dec.More() {
		var raw json.RawMessage
		if err := dec.Decode(&raw); err != nil {
			return err
		}
		var c reciso.Case
		if err := json.Unmarshal(raw, &c); err != nil {
			return err
		}
		var ev map[string]interface{}
		if c.T == "law" {
			var lc reciso.LawCase
			if err := json.Unmarshal(raw, &lc); err != nil {
				return err
			}
			ev, err = env.RunLaw(lc)
		} else {
			ev, err = env.Run(c)
		}
		if err != nil {
			return err
		}
		if _, ok := ev["after"]; !ok {
			ev["after"] = map[string]interface{}{}
		}
		if err := enc.Encode(ev); err != nil {
			return err
		}
	}
	return nil
}
