package main

import (
	"encoding/json"
	"flag"
	"os"

	"vh/lockx"
)

func init() {
	register("lock-steps", "extract the lock protocol (mutex operations per function and return path) from client/client.go", cmdLockSteps)
}

func cmdLockSteps(args []string) error {
	fs := flag.NewFlagSet("lock-steps", flag.ExitOnError)
	src := fs.String("src", "/repo/client/client.go", "source file")
	out := fs.String("o", "locks.json", "output")
	_ = fs.Parse(args)
	b, err := os.ReadFile(*src)
	if err != nil {
		return err
	}
	r, err := lockx.Extract(*src, b)
	if err != nil {
		return err
	}
	j, err := json.MarshalIndent(r, "", " ")
	if err != nil {
		return err
	}
	return os.WriteFile(*out, j, 0o644)
}
