package main

import (
	"bufio"
	"encoding/json"
	"flag"
	"os"

	"vh/recdiff"
)

func init() {
	register("cond-cases", "evaluate MC_Cond CASE lines on the real cache / transaction engine under several index configurations", cmdCondCases)
}

func cmdCondCases(args []string) error {
	fs := flag.NewFlagSet("cond-cases", flag.ExitOnError)
	casesFile := fs.String("cases", "cases.ndjson", "one case per line")
	out := fs.String("o", "trace.ndjson", "output trace")
	_ = fs.Parse(args)
	cf, err := os.Open(*casesFile)
	if err != nil {
		return err
	}
	defer cf.Close()
	f, err := os.Create(*out)
	if err != nil {
		return err
	}
	defer f.Close()
	w := bufio.NewWriter(f)
	defer w.Flush()
	enc := json.NewEncoder(w)
	env, err := recdiff.NewEnv()
	if err != nil {
		return err
	}
	dec := json.NewDecoder(cf)
	for dec.More() {
		var c recdiff.CCase
		if err := dec.Decode(&c); err != nil {
			return err
		}
		if err := env.RunCond(c, func(ev map[string]interface{}) error { return enc.Encode(ev) }); err != nil {
			return err
		}
	}
	return nil
}
