package main

import (
	"bufio"
	"encoding/json"
	"flag"
	"os"

	"vh/recdiff"
	"vh/recsess"
)

func init() {
	register("cond-cases", "evaluate MC_Cond CASE lines on the real cache / transaction engine under several index configurations", cmdCondCases)
}

func cmdCondCases(args []string) error {
	fs := flag.NewFlagSet("cond-cases", flag.ExitOnError)
	casesFile := fs.String("cases", "cases.ndjson", "one case per line")
	out := fs.String("o", "trace.ndjson", "output trace")
	api := fs.String("api", "", "run the cases through the conditional API of a synchronised client, for this column group (int|str|uuid)")
	_ = fs.Parse(args)
	cf, err := os.Open(*casesFile)
	if err != nil {
		return err
	}
	defer cf.Close()
	f, err := os.Create(*out)
	if err != nil {
		return err
	}
	defer f.Close()
	w := bufio.NewWriter(f)
	defer w.Flush()
	enc := json.NewEncoder(w)
	env, err := recdiff.NewEnv()
	if err != nil {
		return err
	}
	dec := json.NewDecoder(cf)
	if *api != "" {
		dir, err := os.MkdirTemp("", "vh-sock")
		if err != nil {
			return err
		}
		defer os.RemoveAll(dir)
		a, err := recsess.NewAPICond(dir, *api)
		if err != nil {
			return err
		}
		defer a.Close()
		for dec.More() {
			var c recdiff.CCase
			if err := dec.Decode(&c); err != nil {
				return err
			}
			if err := a.Run(c, func(ev map[string]interface{}) error { return enc.Encode(ev) }); err != nil {
				return err
			}
		}
		return nil
	}
	for dec.More() {
		var c recdiff.CCase
		if err := dec.Decode(&c); err != nil {
			return err
		}
		if err := env.RunCond(c, func(ev map[string]interface{}) error { return enc.Encode(ev) }); err != nil {
			return err
		}
	}
	return nil
}
