// Package recgen runs the generator cases of MC_Gen.tla (C20): generate twice,
// build the package in a scratch module, load and probe it.
package recgen

import (
	"bytes"
	_ "embed"
	"encoding/json"
	"fmt"
	"os"
	"os/exec"
	"path/filepath"
	"sort"
	"strings"

	"github.com/ovn-org/libovsdb/modelgen"
	"github.com/ovn-org/libovsdb/ovsdb"

	"vh/recmap"
)

//go:embed main_go.txt
var mainGo string

type Case struct {
	ID     int                              `json:"id"`
	Tables map[string]map[string]recmap.Col `json:"tables"`
	Expect map[string]map[string]string     `json:"expect"`
}

func baseJSON(t string, enum bool) interface{} {
	if !enum {
		return t
	}
	var vals []interface{}
	switch t {
	case "string":
		vals = []interface{}{"red", "green", "blue"}
	case "integer":
		vals = []interface{}{1, 2, 3}
	case "real":
		vals = []interface{}{0.5, 1.5}
	case "boolean":
		vals = []interface{}{true}
	default:
		return t
	}
	return map[string]interface{}{"type": t, "enum": []interface{}{"set", vals}}
}

func (c Case) SchemaJSON() []byte {
	tables := map[string]interface{}{}
	for tn, cols := range c.Tables {
		cj := map[string]interface{}{}
		for cn, col := range cols {
			ty := map[string]interface{}{"key": baseJSON(col.Key, col.Enum), "min": col.Min}
			if col.Max == -1 {
				ty["max"] = "unlimited"
			} else {
				ty["max"] = col.Max
			}
			if col.Value != "" {
				ty["value"] = baseJSON(col.Value, false)
			}
			cj[cn] = map[string]interface{}{"type": ty}
		}
		tables[tn] = map[string]interface{}{"columns": cj, "isRoot": true}
	}
	b, _ := json.Marshal(map[string]interface{}{"name": "gdb", "version": "1.0.0", "tables": tables})
	return b
}

func generate(schema ovsdb.DatabaseSchema, dir string, extended, enumTypes bool) error {
	gen, err := modelgen.NewGenerator()
	if err != nil {
		return err
	}
	for name, table := range schema.Tables {
		table := table
		tmpl := modelgen.NewTableTemplate()
		args := modelgen.GetTableTemplateData("gen", name, &table)
		args.WithExtendedGen(extended)
		args.WithEnumTypes(enumTypes)
		if err := gen.Generate(filepath.Join(dir, modelgen.FileName(name)), tmpl, args); err != nil {
			return fmt.Errorf("table %s: %w", name, err)
		}
	}
	return gen.Generate(filepath.Join(dir, "model.go"), modelgen.NewDBTemplate(), modelgen.GetDBTemplateData("gen", schema))
}

func guard(f func() error) (err error) {
	defer func() {
		if r := recover(); r != nil {
			err = fmt.Errorf("panic: %v", r)
		}
	}()
	return f()
}

// Run: one (schema, extended, enum types) combination.
func Run(c Case, extended, enumTypes bool, repo string) map[string]interface{} {
	ev := map[string]interface{}{"ev": "gen", "id": c.ID, "extended": extended, "enumTypes": enumTypes, "expect": c.Expect,
		"genErr": "", "deterministic": false, "differs": "", "builds": false, "buildErr": "", "validates": false, "validateErrs": []string{},
		"fieldTypes": map[string]interface{}{}, "laws": map[string]interface{}{"copyEqual": false, "noSharing": false, "equalsAgree": false, "cloneAgree": false, "detail": "not run"}}
	root, err := os.MkdirTemp("", "vh-gen")
	if err != nil {
		ev["genErr"] = "harness: " + err.Error()
		return ev
	}
	defer os.RemoveAll(root)
	sj := c.SchemaJSON()
	var schema ovsdb.DatabaseSchema
	if err := json.Unmarshal(sj, &schema); err != nil {
		ev["genErr"] = "the schema does not decode: " + err.Error()
		return ev
	}
	dirA := filepath.Join(root, "gen")
	_ = os.MkdirAll(dirA, 0o755)
	if err := guard(func() error { return generate(schema, dirA, extended, enumTypes) }); err != nil {
		ev["genErr"] = err.Error()
		return ev
	}
	// identical from run to run: five more runs (an order taken from a Go map repeats by chance now and then)
	fa, _ := os.ReadDir(dirA)
	var names []string
	for _, f := range fa {
		names = append(names, f.Name())
	}
	sort.Strings(names)
	det := true
	for run := 0; run < 5 && det; run++ {
		dirB := filepath.Join(root, fmt.Sprintf("gen%d", run))
		_ = os.MkdirAll(dirB, 0o755)
		if err := guard(func() error { return generate(schema, dirB, extended, enumTypes) }); err != nil {
			ev["genErr"] = err.Error()
			return ev
		}
		for _, n := range names {
			a, _ := os.ReadFile(filepath.Join(dirA, n))
			b, err := os.ReadFile(filepath.Join(dirB, n))
			if err != nil || !bytes.Equal(a, b) {
				det = false
				ev["differs"] = n
			}
		}
		fb, _ := os.ReadDir(dirB)
		if len(fb) != len(fa) {
			det = false
			ev["differs"] = "different sets of files"
		}
		os.RemoveAll(dirB)
	}
	ev["deterministic"] = det
	// build in a scratch module
	gomod := "module gentest\n\ngo 1.18\n\nrequire github.com/ovn-org/libovsdb v0.0.0\n\nreplace github.com/ovn-org/libovsdb => " + repo + "\n"
	_ = os.WriteFile(filepath.Join(root, "go.mod"), []byte(gomod), 0o644)
	if sum, err := os.ReadFile(filepath.Join(repo, "go.sum")); err == nil {
		_ = os.WriteFile(filepath.Join(root, "go.sum"), sum, 0o644)
	}
	_ = os.WriteFile(filepath.Join(root, "main.go"), []byte(mainGo), 0o644)
	_ = os.WriteFile(filepath.Join(root, "schema.json"), sj, 0o644)
	env := append(os.Environ(), "GOFLAGS=-mod=mod", "GOPROXY=off", "GOSUMDB=off", "GOTOOLCHAIN=local")
	cmd := exec.Command("go", "build", "-o", "prog", ".")
	cmd.Dir = root
	cmd.Env = env
	if out, err := cmd.CombinedOutput(); err != nil {
		msg := string(out)
		if strings.Contains(msg, "gentest/gen") || strings.Contains(msg, "gen/") {
			ev["buildErr"] = trim(msg)
			return ev
		}
		ev["genErr"] = "harness: the scratch module does not build: " + trim(msg)
		return ev
	}
	ev["builds"] = true
	args := []string{"schema.json"}
	if extended {
		args = append(args, "extended")
	}
	run := exec.Command(filepath.Join(root, "prog"), args...)
	run.Dir = root
	out, err := run.Output()
	if err != nil {
		ev["validateErrs"] = []string{"the probe of the generated package failed: " + err.Error()}
		if ee, ok := err.(*exec.ExitError); ok {
			ev["validateErrs"] = []string{"the probe of the generated package failed: " + trim(string(ee.Stderr))}
		}
		return ev
	}
	var res struct {
		Validates    bool                         `json:"validates"`
		ValidateErrs []string                     `json:"validateErrs"`
		FieldTypes   map[string]map[string]string `json:"fieldTypes"`
		Laws         map[string]interface{}       `json:"laws"`
	}
	if err := json.Unmarshal(out, &res); err != nil {
		ev["validateErrs"] = []string{"probe output: " + err.Error()}
		return ev
	}
	ev["validates"] = res.Validates
	if res.ValidateErrs != nil {
		ev["validateErrs"] = res.ValidateErrs
	}
	ev["fieldTypes"] = res.FieldTypes
	ev["laws"] = res.Laws
	return ev
}

func trim(s string) string {
	if len(s) > 1500 {
		return s[:1500]
	}
	return s
}
