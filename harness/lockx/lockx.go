// Package lockx extracts the lock protocol of client/client.go: for every
// function the sequence of mutex operations along its main path and along
// every early-return path, with the functions and closures it calls inlined.
// The result feeds Locks.tla (Steps(call) is read from it), so that the model
// TLC checks is the protocol the code has, not a transcription of it.
package lockx

import (
	"fmt"
	"go/ast"
	"go/parser"
	"go/token"
	"sort"
	"strings"
)

type Step [2]string // op, mutex | "chk","" | "set","up"/"down"

type Path struct {
	Steps []Step   `json:"steps"`
	Held  []string `json:"held"` // locks still held when the path returns
	Exit  string   `json:"exit"` // "end" or the position of the return
}

type Func struct {
	Name  string `json:"name"`
	Paths []Path `json:"paths"` // Paths[0] is the main path
}

// Edge: mutex To is acquired (mode ToMode) while From is held (mode FromMode).
type Edge struct {
	From, FromMode, To, ToMode string
	Func                       string
}

// Edges of a path; exact only where the path's counts never go negative.
func Edges(fn string, p Path) (edges []Edge, clean bool) {
	clean = true
	type h struct{ m, mode string }
	var heldNow []h
	for _, st := range p.Steps {
		switch st[0] {
		case "L", "RL":
			mode := map[string]string{"L": "W", "RL": "R"}[st[0]]
			for _, x := range heldNow {
				edges = append(edges, Edge{x.m, x.mode, st[1], mode, fn})
			}
			heldNow = append(heldNow, h{st[1], mode})
		case "U", "RU":
			mode := map[string]string{"U": "W", "RU": "R"}[st[0]]
			found := false
			for i := len(heldNow) - 1; i >= 0; i-- {
				if heldNow[i].m == st[1] && heldNow[i].mode == mode {
					heldNow = append(heldNow[:i], heldNow[i+1:]...)
					found = true
					break
				}
			}
			if !found {
				clean = false
			}
		}
	}
	return edges, clean
}

type Result struct {
	Funcs   map[string]*Func `json:"funcs"`
	LockOps int              `json:"lock_ops"` // mutex operations found in the source
	Unknown []string         `json:"unknown"`  // things the extractor could not interpret
	Mutexes []string         `json:"mutexes"`
}

type extractor struct {
	fset    *token.FileSet
	decls   map[string]*ast.FuncDecl
	res     *Result
	mutexes map[string]bool
}

func mutexName(e ast.Expr) (string, bool) {
	sel, ok := e.(*ast.SelectorExpr)
	if !ok {
		return "", false
	}
	n := sel.Sel.Name
	if !strings.HasSuffix(n, "Mutex") && n != "mutex" {
		return "", false
	}
	return strings.TrimSuffix(n, "Mutex"), true
}

// lockCall recognises X.<name>Mutex.Lock() and friends.
func lockCall(c *ast.CallExpr) (Step, bool) {
	sel, ok := c.Fun.(*ast.SelectorExpr)
	if !ok {
		return Step{}, false
	}
	var op string
	switch sel.Sel.Name {
	case "Lock":
		op = "L"
	case "Unlock":
		op = "U"
	case "RLock":
		op = "RL"
	case "RUnlock":
		op = "RU"
	default:
		return Step{}, false
	}
	m, ok := mutexName(sel.X)
	if !ok {
		return Step{}, false
	}
	return Step{op, m}, true
}

// walker state for one path under construction
type state struct {
	steps    []Step
	deferred []Step
	closures map[string]*ast.FuncLit
	depth    int
	stack    []string
}

func (s *state) clone() *state {
	n := &state{steps: append([]Step{}, s.steps...), deferred: append([]Step{}, s.deferred...), closures: map[string]*ast.FuncLit{}, depth: s.depth,
		stack: append([]string{}, s.stack...)}
	for k, v := range s.closures {
		n.closures[k] = v
	}
	return n
}

type collector struct {
	x     *extractor
	paths []Path
}

func held(steps []Step) []string {
	h := map[string]int{}
	for _, s := range steps {
		switch s[0] {
		case "L":
			h["W:"+s[1]]++
		case "U":
			h["W:"+s[1]]--
		case "RL":
			h["R:"+s[1]]++
		case "RU":
			h["R:"+s[1]]--
		}
	}
	var out []string
	for k, v := range h {
		if v != 0 {
			out = append(out, fmt.Sprintf("%s:%d", k, v))
		}
	}
	sort.Strings(out)
	return out
}

func (c *collector) finish(s *state, exit string) {
	steps := append([]Step{}, s.steps...)
	for i := len(s.deferred) - 1; i >= 0; i-- {
		steps = append(steps, s.deferred[i])
	}
	c.paths = append(c.paths, Path{Steps: steps, Held: held(steps), Exit: exit})
}

func terminates(b *ast.BlockStmt) bool {
	if b == nil || len(b.List) == 0 {
		return false
	}
	switch l := b.List[len(b.List)-1].(type) {
	case *ast.ReturnStmt:
		return true
	case *ast.ExprStmt:
		if call, ok := l.X.(*ast.CallExpr); ok {
			if id, ok := call.Fun.(*ast.Ident); ok && id.Name == "panic" {
				return true
			}
		}
	case *ast.BranchStmt:
		return false
	}
	return false
}

func hasBreak(b *ast.BlockStmt) bool {
	found := false
	ast.Inspect(b, func(n ast.Node) bool {
		switch v := n.(type) {
		case *ast.FuncLit:
			return false
		case *ast.BranchStmt:
			if v.Tok == token.BREAK && v.Label != nil {
				found = true
			}
		}
		return true
	})
	return found
}

// isConnCheck recognises `o.rpcClient == nil`
func isConnCheck(e ast.Expr) bool {
	b, ok := e.(*ast.BinaryExpr)
	if !ok || b.Op != token.EQL {
		return false
	}
	sel, ok := b.X.(*ast.SelectorExpr)
	if !ok || sel.Sel.Name != "rpcClient" {
		return false
	}
	id, ok := b.Y.(*ast.Ident)
	return ok && id.Name == "nil"
}

func (c *collector) block(s *state, stmts []ast.Stmt) (returned bool) {
	for _, st := range stmts {
		if c.stmt(s, st) {
			return true
		}
	}
	return false
}

// branch walks a block that may return early: if it terminates, it becomes a
// path of its own and the main path continues without it.
func (c *collector) branch(s *state, b *ast.BlockStmt, pos token.Pos) {
	if b == nil {
		return
	}
	if terminates(b) {
		alt := s.clone()
		if !c.block(alt, b.List) {
			// a terminating block always returns
			c.finish(alt, c.x.fset.Position(pos).String())
		}
		return
	}
	// a block that does not end in return may still contain nested early returns
	c.block(s, b.List)
}

func (c *collector) stmt(s *state, st ast.Stmt) (returned bool) {
	switch n := st.(type) {
	case *ast.ExprStmt:
		c.expr(s, n.X)
	case *ast.AssignStmt:
		for i, r := range n.Rhs {
			if fl, ok := r.(*ast.FuncLit); ok && i < len(n.Lhs) {
				if id, ok := n.Lhs[i].(*ast.Ident); ok {
					s.closures[id.Name] = fl
					continue
				}
			}
			c.expr(s, r)
		}
		// o.rpcClient = nil  /  o.rpcClient = rpc2.New...
		for i, l := range n.Lhs {
			if sel, ok := l.(*ast.SelectorExpr); ok && sel.Sel.Name == "rpcClient" && i < len(n.Rhs) {
				if id, ok := n.Rhs[i].(*ast.Ident); ok && id.Name == "nil" {
					s.steps = append(s.steps, Step{"set", "down"})
				} else {
					s.steps = append(s.steps, Step{"set", "up"})
				}
			}
		}
	case *ast.DeclStmt:
	case *ast.DeferStmt:
		if ls, ok := lockCall(n.Call); ok {
			c.x.res.LockOps++
			s.deferred = append(s.deferred, ls)
		} else if fl, ok := n.Call.Fun.(*ast.FuncLit); ok {
			// defer func() { ... }(): lock operations inside run at exit
			sub := &state{closures: s.closures, depth: s.depth}
			cc := &collector{x: c.x}
			cc.block(sub, fl.Body.List)
			for i := len(sub.steps) - 1; i >= 0; i-- { // re-reversed by finish
				s.deferred = append(s.deferred, sub.steps[i])
			}
		}
	case *ast.GoStmt:
		// another goroutine: not part of this call, an entry of its own
		if fl, ok := n.Call.Fun.(*ast.FuncLit); ok && len(s.stack) == 1 {
			name := fmt.Sprintf("%s$go%d", s.stack[0], c.x.fset.Position(n.Pos()).Line)
			if _, done := c.x.res.Funcs[name]; !done {
				c.x.res.Funcs[name] = &Func{Name: name} // placeholder against re-entry
				gc := &collector{x: c.x}
				gs := &state{closures: s.closures, stack: []string{name}}
				if !gc.block(gs, fl.Body.List) {
					gc.finish(gs, "end")
				}
				c.x.res.Funcs[name].Paths = mainFirst(gc.paths)
			}
		}
	case *ast.ReturnStmt:
		for _, r := range n.Results {
			c.expr(s, r)
		}
		c.finish(s, c.x.fset.Position(n.Pos()).String())
		return true
	case *ast.IfStmt:
		if n.Init != nil {
			c.stmt(s, n.Init)
		}
		c.expr(s, n.Cond)
		if isConnCheck(n.Cond) && terminates(n.Body) {
			// the connection check: its early exit is taken exactly when the connection is down
			alt := s.clone()
			alt.steps = append(alt.steps, Step{"chkdown", ""})
			if !c.block(alt, n.Body.List) {
				c.finish(alt, c.x.fset.Position(n.Pos()).String())
			}
			s.steps = append(s.steps, Step{"chkup", ""})
		} else {
			c.branch(s, n.Body, n.Pos())
		}
		switch e := n.Else.(type) {
		case *ast.BlockStmt:
			c.branch(s, e, e.Pos())
		case *ast.IfStmt:
			return c.stmt(s, e)
		}
	case *ast.ForStmt:
		if n.Init != nil {
			c.stmt(s, n.Init)
		}
		c.block(s, n.Body.List)
		if n.Cond == nil && !hasBreak(n.Body) {
			// for { ... } without break: nothing after it is reached; one round of the loop is a path
			c.finish(s, "loop "+c.x.fset.Position(n.Pos()).String())
			return true
		}
	case *ast.RangeStmt:
		c.expr(s, n.X)
		c.block(s, n.Body.List)
	case *ast.BlockStmt:
		return c.block(s, n.List)
	case *ast.SwitchStmt:
		if n.Init != nil {
			c.stmt(s, n.Init)
		}
		for _, cl := range n.Body.List {
			cc := cl.(*ast.CaseClause)
			c.branch(s, &ast.BlockStmt{List: cc.Body}, cc.Pos())
		}
	case *ast.TypeSwitchStmt:
		for _, cl := range n.Body.List {
			cc := cl.(*ast.CaseClause)
			c.branch(s, &ast.BlockStmt{List: cc.Body}, cc.Pos())
		}
	case *ast.SelectStmt:
		for _, cl := range n.Body.List {
			cc := cl.(*ast.CommClause)
			c.branch(s, &ast.BlockStmt{List: cc.Body}, cc.Pos())
		}
	case *ast.LabeledStmt:
		return c.stmt(s, n.Stmt)
	case *ast.IncDecStmt, *ast.SendStmt, *ast.BranchStmt, *ast.EmptyStmt:
	default:
		c.x.res.Unknown = append(c.x.res.Unknown, fmt.Sprintf("%T at %s", st, c.x.fset.Position(st.Pos())))
	}
	return false
}

func (c *collector) expr(s *state, e ast.Expr) {
	ast.Inspect(e, func(n ast.Node) bool {
		switch v := n.(type) {
		case *ast.FuncLit:
			return false // defined, not run here
		case *ast.CallExpr:
			if ls, ok := lockCall(v); ok {
				c.x.res.LockOps++
				s.steps = append(s.steps, ls)
				return false
			}
			// arguments first (they are evaluated before the call)
			for _, a := range v.Args {
				if id, ok := a.(*ast.Ident); ok {
					if fl, ok := s.closures[id.Name]; ok {
						c.inlineLit(s, fl, id.Name) // a closure handed to a helper that runs it (backoff.Retry)
						continue
					}
				}
				c.expr(s, a)
			}
			switch f := v.Fun.(type) {
			case *ast.Ident:
				if fl, ok := s.closures[f.Name]; ok {
					c.inlineLit(s, fl, f.Name)
				} else if d, ok := c.x.decls[f.Name]; ok {
					c.inline(s, d)
				}
			case *ast.SelectorExpr:
				// only calls on the client or database receiver itself (o.f(), db.f()), never o.rpcClient.Close()
				if d, ok := c.x.decls[f.Sel.Name]; ok && d.Recv != nil {
					if id, isIdent := f.X.(*ast.Ident); isIdent && (id.Name == "o" || id.Name == "db" || id.Name == "ovs" || id.Name == "primaryDB") {
						c.inline(s, d)
					}
				}
			case *ast.FuncLit:
				c.inlineLit(s, f, "func")
			}
			return false
		}
		return true
	})
}

func (c *collector) inlineLit(s *state, fl *ast.FuncLit, name string) {
	if s.depth > 6 {
		return
	}
	c.inlineBody(s, fl.Body, "lit:"+name)
}

func (c *collector) inline(s *state, d *ast.FuncDecl) {
	if d.Body == nil || s.depth > 6 {
		return
	}
	for _, f := range s.stack {
		if f == d.Name.Name {
			return // recursion (monitor() falling back to another method): once is enough
		}
	}
	c.inlineBody(s, d.Body, d.Name.Name)
}

// inlineBody: the callee's main path is appended to the caller's path; the
// callee's early returns continue in the caller too (approximated by their
// lock effect being the same as the main path's when balanced; an unbalanced
// early return of a callee is reported as a path of the callee itself).
func (c *collector) inlineBody(s *state, body *ast.BlockStmt, name string) {
	sub := &state{closures: s.closures, depth: s.depth + 1, stack: append(append([]string{}, s.stack...), name)}
	cc := &collector{x: c.x}
	if !cc.block(sub, body.List) {
		cc.finish(sub, "end")
	}
	// the last finished path is the main path (the one that reaches the end or the final return)
	mi := mainIndex(cc.paths)
	main := cc.paths[mi]
	// an early return of the callee that leaves other locks held than its main path does becomes a path
	// of the caller (which is taken to return right after: if err != nil { return err })
	for i, alt := range cc.paths {
		if i != mi && strings.Join(alt.Held, ",") != strings.Join(main.Held, ",") && !strings.HasPrefix(alt.Exit, "loop") {
			f := s.clone()
			f.steps = append(f.steps, alt.Steps...)
			c.finish(f, "via "+name+" "+alt.Exit)
		}
	}
	s.steps = append(s.steps, main.Steps...)
}

// mainIndex: the path a caller continues on: the last one that returns (a
// round of an endless loop is a path, but nobody continues after it).
func mainIndex(paths []Path) int {
	for i := len(paths) - 1; i >= 0; i-- {
		if !strings.HasPrefix(paths[i].Exit, "loop") {
			return i
		}
	}
	return len(paths) - 1
}

func mainFirst(paths []Path) []Path {
	m := mainIndex(paths)
	out := []Path{paths[m]}
	out = append(out, paths[:m]...)
	return append(out, paths[m+1:]...)
}

// Extract parses src (the contents of client.go) and returns the lock paths of every function.
func Extract(filename string, src []byte) (*Result, error) {
	fset := token.NewFileSet()
	f, err := parser.ParseFile(fset, filename, src, 0)
	if err != nil {
		return nil, err
	}
	x := &extractor{fset: fset, decls: map[string]*ast.FuncDecl{}, res: &Result{Funcs: map[string]*Func{}}, mutexes: map[string]bool{}}
	for _, d := range f.Decls {
		if fd, ok := d.(*ast.FuncDecl); ok {
			x.decls[fd.Name.Name] = fd
		}
	}
	total := 0
	ast.Inspect(f, func(n ast.Node) bool {
		if c, ok := n.(*ast.CallExpr); ok {
			if ls, ok := lockCall(c); ok {
				total++
				x.mutexes[ls[1]] = true
			}
		}
		return true
	})
	for name, fd := range x.decls {
		if fd.Body == nil {
			continue
		}
		c := &collector{x: x}
		s := &state{closures: map[string]*ast.FuncLit{}, stack: []string{name}}
		if !c.block(s, fd.Body.List) {
			c.finish(s, "end")
		}
		// main path last -> first
		x.res.Funcs[name] = &Func{Name: name, Paths: mainFirst(c.paths)}
	}
	x.res.LockOps = total
	for m := range x.mutexes {
		x.res.Mutexes = append(x.res.Mutexes, m)
	}
	sort.Strings(x.res.Mutexes)
	return x.res, nil
}
