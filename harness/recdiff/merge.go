package recdiff

import (
	"fmt"

	"github.com/ovn-org/libovsdb/model"
	"github.com/ovn-org/libovsdb/ovsdb"
	"github.com/ovn-org/libovsdb/updates"

	"vh/abs"
)

// MRow is a row of the Merge model: one column per kind, integer universe.
type MRow struct {
	Present bool          `json:"present"`
	A       int           `json:"a"`
	O       []interface{} `json:"o"`
	S       []interface{} `json:"s"`
	M       []interface{} `json:"m"`
}

type MOp struct {
	Op       string      `json:"op"`
	Col      string      `json:"col"`
	Val      interface{} `json:"val"`
	MutRaw   interface{} `json:"mut"`   // a string, or a pair for "mutate2"
	ShapeRaw interface{} `json:"shape"` // likewise
	Mut      string      `json:"-"`
	Shape    string      `json:"-"`
}

func (o *MOp) fix() {
	if s, ok := o.MutRaw.(string); ok {
		o.Mut = s
	}
	if s, ok := o.ShapeRaw.(string); ok {
		o.Shape = s
	}
}

type MCase struct {
	Orig MRow  `json:"orig"`
	Ops  []MOp `json:"ops"`
}

// column groups: the same sequence is run on integer, string and uuid columns
var groups = map[string]map[string]string{
	"int":  {"a": "i", "o": "oi", "s": "si", "m": "mis"},
	"str":  {"a": "s", "o": "os", "s": "ss", "m": "msi"},
	"uuid": {"a": "u", "o": "ou", "s": "su", "m": "mus"},
	"real": {"a": "r", "o": "or", "s": "sr", "m": "msr"},
	// the set column has a bound (1 < max < unlimited)
	"bint": {"a": "i", "o": "oi", "s": "bi", "m": "mis"},
	"bstr": {"a": "s", "o": "os", "s": "bs", "m": "msi"},
}

func normList(x interface{}) []interface{} {
	if a, ok := x.([]interface{}); ok {
		return a
	}
	return []interface{}{}
}

func (e *Env) mrowAbs(g map[string]string, r MRow) map[string]interface{} {
	t := e.Ctx.Abs.Tables["D"]
	return map[string]interface{}{
		g["a"]: typed(t.Cols[g["a"]], r.A, 0),
		g["o"]: typed(t.Cols[g["o"]], interface{}(normList(r.O)), 0),
		g["s"]: typed(t.Cols[g["s"]], interface{}(normList(r.S)), 1),
		g["m"]: typed(t.Cols[g["m"]], interface{}(normList(r.M)), 0),
	}
}

func (e *Env) mrowBack(g map[string]string, m model.Model) (MRow, error) {
	if m == nil {
		return MRow{O: []interface{}{}, S: []interface{}{}, M: []interface{}{}}, nil
	}
	_, row, err := e.Ctx.ModelToAbs("D", m)
	if err != nil {
		return MRow{}, err
	}
	return e.mrowFromAbs(g, row, true)
}

func (e *Env) mrowFromAbs(g map[string]string, row map[string]interface{}, fill bool) (MRow, error) {
	t := e.Ctx.Abs.Tables["D"]
	out := MRow{Present: true, O: []interface{}{}, S: []interface{}{}, M: []interface{}{}}
	for k, cn := range g {
		v, ok := row[cn]
		if !ok {
			continue
		}
		b, err := back(t.Cols[cn], v)
		if err != nil {
			return out, err
		}
		switch k {
		case "a":
			out.A = b.(int)
		case "o":
			out.O = b.([]interface{})
		case "s":
			out.S = b.([]interface{})
		case "m":
			out.M = b.([]interface{})
		}
	}
	return out, nil
}

func (e *Env) mop(g map[string]string, op MOp, u string) (ovsdb.Operation, bool, error) {
	op.fix()
	t := e.Ctx.Abs.Tables["D"]
	where := []ovsdb.Condition{ovsdb.NewCondition("_uuid", ovsdb.ConditionEqual, ovsdb.UUID{GoUUID: e.Ctx.Tok.ToReal(u)})}
	switch op.Op {
	case "insert":
		var r MRow
		if err := remarshal(op.Val, &r); err != nil {
			return ovsdb.Operation{}, false, err
		}
		full := e.mrowAbs(g, r)
		row := map[string]interface{}{}
		for cn, v := range full {
			if !abs.IsDefaultAbs(t.Cols[cn], v) {
				row[cn] = v
			}
		}
		orow, err := e.Ctx.AbsToOvsRow("D", row)
		return ovsdb.Operation{Op: "insert", Table: "D", UUID: e.Ctx.Tok.ToReal(u), Row: orow}, true, err
	case "delete":
		return ovsdb.Operation{Op: "delete", Table: "D", Where: where}, true, nil
	case "update":
		cn := g[op.Col]
		orow, err := e.Ctx.AbsToOvsRow("D", map[string]interface{}{cn: typed(t.Cols[cn], normVal(op), 1)})
		return ovsdb.Operation{Op: "update", Table: "D", Where: where, Row: orow}, true, err
	case "mutate2":
		// one mutate operation with two mutations of the same column
		cn := g[op.Col]
		col := t.Cols[cn]
		vals := normList(op.Val)
		muts, _ := op.MutRaw.([]interface{})
		shapes, _ := op.ShapeRaw.([]interface{})
		var ms []ovsdb.Mutation
		for i := 0; i < 2; i++ {
			var v interface{}
			var err error
			if shapes[i].(string) == "keys" {
				keys := []interface{}{}
				for _, k := range normList(vals[i]) {
					keys = append(keys, atomOf(col.Key.T, toInt(k)))
				}
				v, err = e.Ctx.Tok.ToOvs(col, interface{}(keys), "set")
			} else {
				v, err = e.Ctx.Tok.ToOvs(col, typed(col, interface{}(normList(vals[i])), 1), "col")
			}
			if err != nil {
				return ovsdb.Operation{}, false, err
			}
			ms = append(ms, ovsdb.Mutation{Column: cn, Mutator: ovsdb.Mutator(muts[i].(string)), Value: v})
		}
		return ovsdb.Operation{Op: "mutate", Table: "D", Where: where, Mutations: ms}, true, nil
	default:
		cn := g[op.Col]
		col := t.Cols[cn]
		var v interface{}
		var err error
		switch {
		case op.Mut == "+=" || op.Mut == "-=":
			if col.Key.T != "integer" && col.Key.T != "real" {
				return ovsdb.Operation{}, false, nil
			}
			if col.Key.T == "real" {
				// keep the universe: n+0.5 +/- 1 = (n+/-1)+0.5, but 0 is 0.0: skip
				return ovsdb.Operation{}, false, nil
			}
			v, err = e.Ctx.Tok.ToOvs(col, toInt(op.Val), "atom")
		case op.Shape == "keys":
			keys := []interface{}{}
			for _, k := range normList(op.Val) {
				keys = append(keys, atomOf(col.Key.T, toInt(k)))
			}
			v, err = e.Ctx.Tok.ToOvs(col, interface{}(keys), "set")
		default:
			v, err = e.Ctx.Tok.ToOvs(col, typed(col, normVal(op), 1), "col")
		}
		if err != nil {
			return ovsdb.Operation{}, false, err
		}
		return ovsdb.Operation{Op: "mutate", Table: "D", Where: where,
			Mutations: []ovsdb.Mutation{{Column: cn, Mutator: ovsdb.Mutator(op.Mut), Value: v}}}, true, nil
	}
}

func normVal(op MOp) interface{} {
	if op.Col == "a" {
		return toInt(op.Val)
	}
	return interface{}(normList(op.Val))
}

// RunMerge executes one sequence per column group, the way a transaction
// accumulates the updates of its operations.
func (e *Env) RunMerge(c MCase, emit func(map[string]interface{}) error) error {
	const u = "u1"
	ru := e.Ctx.Tok.ToReal(u)
	for _, gname := range []string{"int", "str", "uuid", "real", "bint", "bstr"} {
		g := groups[gname]
		empty := MRow{O: []interface{}{}, S: []interface{}{}, M: []interface{}{}}
		ev := map[string]interface{}{"ev": "merge", "group": gname, "orig": c.Orig, "ops": c.Ops, "err": "", "n": 0,
			"k": "none", "old": empty, "new": empty, "insert": empty, "modify": map[string]interface{}{}, "getModel": empty}
		var cur model.Model
		if c.Orig.Present {
			m, err := e.Ctx.AbsToModel("D", u, e.mrowAbs(g, c.Orig))
			if err != nil {
				return err
			}
			cur = m
		}
		acc := updates.ModelUpdates{}
		skip := false
		for _, op := range c.Ops {
			oop, ok, err := e.mop(g, op, u)
			if err != nil {
				return err
			}
			if !ok {
				skip = true
				break
			}
			one := updates.ModelUpdates{}
			if err := one.AddOperation(e.Ctx.DBModel, "D", ru, cur, &oop); err != nil {
				ev["err"] = fmt.Sprintf("AddOperation(%s): %v", op.Op, err)
				break
			}
			if err := acc.Merge(e.Ctx.DBModel, one); err != nil {
				ev["err"] = fmt.Sprintf("Merge after %s: %v", op.Op, err)
				break
			}
			switch {
			case op.Op == "delete":
				cur = nil
			default:
				if m := one.GetModel("D", ru); m != nil {
					cur = m
				}
			}
		}
		if skip {
			continue
		}
		if ev["err"] == "" {
			n := 0
			err := acc.ForEachModelUpdate("D", func(uuid string, old, new model.Model) error {
				n++
				o, err := e.mrowBack(g, old)
				if err != nil {
					return err
				}
				o.Present = old != nil
				nw, err := e.mrowBack(g, new)
				if err != nil {
					return err
				}
				nw.Present = new != nil
				ev["old"], ev["new"] = o, nw
				return nil
			})
			if err != nil {
				return err
			}
			ev["n"] = n
			err = acc.ForEachRowUpdate("D", func(uuid string, ru2 ovsdb.RowUpdate2) error {
				kinds := 0
				if ru2.Insert != nil {
					kinds++
					ev["k"] = "insert"
					_, a, err := e.Ctx.OvsRowToAbs("D", *ru2.Insert)
					if err != nil {
						return err
					}
					r, err := e.mrowFromAbs(g, a, true)
					if err != nil {
						return err
					}
					ev["insert"] = r
				}
				if ru2.Modify != nil {
					kinds++
					ev["k"] = "modify"
					_, a, err := e.Ctx.OvsRowToAbs("D", *ru2.Modify)
					if err != nil {
						return err
					}
					mod := map[string]interface{}{}
					for k, cn := range g {
						if v, ok := a[cn]; ok {
							b, err := back(e.Ctx.Abs.Tables["D"].Cols[cn], v)
							if err != nil {
								return err
							}
							mod[k] = b
						}
					}
					ev["modify"] = mod
				}
				if ru2.Delete != nil {
					kinds++
					ev["k"] = "delete"
				}
				if kinds != 1 {
					ev["k"] = "mixed"
				}
				return nil
			})
			if err != nil {
				return err
			}
			gm, err := e.mrowBack(g, acc.GetModel("D", ru))
			if err != nil {
				return err
			}
			gm.Present = acc.GetModel("D", ru) != nil
			ev["getModel"] = gm
		}
		if err := emit(ev); err != nil {
			return err
		}
	}
	return nil
}
