// Package recdiff runs the difference cases enumerated by MC_Diff through the
// exported path of the updates package (AddOperation -> RowUpdate2.Modify,
// then AddRowUpdate2(Modify) on a fresh model) for every column type and
// several element orders, and records the outcome for TraceDiff.tla.
package recdiff

import (
	"encoding/json"
	"fmt"
	"reflect"
	"sort"
	"strconv"
	"strings"

	"github.com/ovn-org/libovsdb/model"
	"github.com/ovn-org/libovsdb/ovsdb"
	"github.com/ovn-org/libovsdb/updates"

	"vh/abs"
)

func bt(t string) abs.BaseT { return abs.BaseT{T: t} }

// Schema of the difference cases: one column per (kind, type).
func Schema() *abs.Schema {
	cols := map[string]abs.Col{}
	for _, t := range []string{"integer", "string", "real", "uuid"} {
		s := t[:1]
		cols[s] = abs.Col{Key: bt(t), Min: 1, Max: 1, Mut: true}
		cols["o"+s] = abs.Col{Key: bt(t), Min: 0, Max: 1, Mut: true}
		cols["s"+s] = abs.Col{Key: bt(t), Min: 0, Max: -1, Mut: true}
	}
	// sets with a bound (1 < max < unlimited), wide enough for every value of the cases
	cols["bi"] = abs.Col{Key: bt("integer"), Min: 0, Max: 6, Mut: true}
	cols["bs"] = abs.Col{Key: bt("string"), Min: 0, Max: 6, Mut: true}
	cols["mis"] = abs.Col{Key: bt("integer"), Val: bt("string"), Min: 0, Max: -1, Mut: true}
	cols["msi"] = abs.Col{Key: bt("string"), Val: bt("integer"), Min: 0, Max: -1, Mut: true}
	cols["mss"] = abs.Col{Key: bt("string"), Val: bt("string"), Min: 0, Max: -1, Mut: true}
	cols["mus"] = abs.Col{Key: bt("uuid"), Val: bt("string"), Min: 0, Max: -1, Mut: true}
	cols["msu"] = abs.Col{Key: bt("string"), Val: bt("uuid"), Min: 0, Max: -1, Mut: true}
	cols["msr"] = abs.Col{Key: bt("string"), Val: bt("real"), Min: 0, Max: -1, Mut: true}
	// a column no case touches: the API checks mark the rows an operation affected
	cols["mark"] = abs.Col{Key: bt("string"), Min: 1, Max: 1, Mut: true}
	return &abs.Schema{Name: "ddb", Tables: map[string]abs.Table{"D": {IsRoot: true, Cols: cols}}}
}

// atomOf instantiates the integer n of the specification's universe in an atomic type.
func atomOf(t string, n int) interface{} {
	switch t {
	case "integer":
		return n
	case "string":
		if n == 0 {
			return ""
		}
		return "s" + strconv.Itoa(n)
	case "real":
		if n == 0 {
			return []interface{}{0, 1}
		}
		return []interface{}{2*n + 1, 2}
	default: // uuid
		if n == 0 {
			return ""
		}
		return "u90" + strconv.Itoa(n)
	}
}

func atomBack(t string, a interface{}) (int, error) {
	switch t {
	case "integer":
		switch v := a.(type) {
		case int:
			return v, nil
		case float64:
			return int(v), nil
		}
	case "string":
		s, ok := a.(string)
		if ok {
			if s == "" {
				return 0, nil
			}
			if strings.HasPrefix(s, "s") {
				return strconv.Atoi(s[1:])
			}
		}
	case "real":
		if p, ok := a.([]interface{}); ok && len(p) == 2 {
			n, d := toInt(p[0]), toInt(p[1])
			if n == 0 {
				return 0, nil
			}
			if d == 2 {
				return (n - 1) / 2, nil
			}
		}
	case "uuid":
		s, ok := a.(string)
		if ok {
			if s == "" {
				return 0, nil
			}
			if strings.HasPrefix(s, "u90") {
				return strconv.Atoi(s[3:])
			}
		}
	}
	return 0, fmt.Errorf("value %v is outside the universe of type %s", a, t)
}

func toInt(x interface{}) int {
	switch v := x.(type) {
	case int:
		return v
	case int64:
		return int(v)
	case float64:
		return int(v)
	}
	return 0
}

// typed converts a value of the integer domain to the column's abstract form,
// placing the elements in the given order (perm indexes the sorted elements).
func typed(c abs.Col, v interface{}, perm int) interface{} {
	switch abs.KindOf(c) {
	case "atom":
		return atomOf(c.Key.T, toInt(v))
	case "opt", "set":
		a := v.([]interface{})
		out := make([]interface{}, len(a))
		for i, e := range a {
			out[i] = atomOf(c.Key.T, toInt(e))
		}
		return permute(out, perm)
	default:
		a := v.([]interface{})
		out := make([]interface{}, len(a))
		for i, e := range a {
			p := e.([]interface{})
			out[i] = []interface{}{atomOf(c.Key.T, toInt(p[0])), atomOf(c.Val.T, toInt(p[1]))}
		}
		return permute(out, perm)
	}
}

func permute(a []interface{}, perm int) []interface{} {
	n := len(a)
	out := make([]interface{}, n)
	switch perm {
	case 1: // reversed
		for i := range a {
			out[i] = a[n-1-i]
		}
	case 2: // rotated
		for i := range a {
			out[i] = a[(i+1)%n]
		}
	default:
		copy(out, a)
	}
	return out
}

// back converts an abstract typed value to the integer domain (sorted).
func back(c abs.Col, v interface{}) (interface{}, error) {
	switch abs.KindOf(c) {
	case "atom":
		return atomBack(c.Key.T, v)
	case "opt", "set":
		a, ok := v.([]interface{})
		if !ok {
			return nil, fmt.Errorf("not a set: %v", v)
		}
		out := []int{}
		for _, e := range a {
			n, err := atomBack(c.Key.T, e)
			if err != nil {
				return nil, err
			}
			out = append(out, n)
		}
		sort.Ints(out)
		r := []interface{}{}
		for _, n := range out {
			r = append(r, n)
		}
		return r, nil
	default:
		a, ok := v.([]interface{})
		if !ok {
			return nil, fmt.Errorf("not a map: %v", v)
		}
		type kv struct{ k, v int }
		var ps []kv
		for _, e := range a {
			p := e.([]interface{})
			k, err := atomBack(c.Key.T, p[0])
			if err != nil {
				return nil, err
			}
			vv, err := atomBack(c.Val.T, p[1])
			if err != nil {
				return nil, err
			}
			ps = append(ps, kv{k, vv})
		}
		sort.Slice(ps, func(i, j int) bool { return ps[i].k < ps[j].k })
		r := []interface{}{}
		for _, p := range ps {
			r = append(r, []interface{}{p.k, p.v})
		}
		return r, nil
	}
}

type Case struct {
	T    string      `json:"t"`
	Kind string      `json:"kind"`
	A    interface{} `json:"a"`
	B    interface{} `json:"b"`
}

type Env struct {
	Ctx *abs.Ctx
}

func NewEnv() (*Env, error) {
	b, err := abs.Build(Schema(), false)
	if err != nil {
		return nil, err
	}
	return &Env{Ctx: abs.NewCtx(b)}, nil
}

func (e *Env) colsOfKind(kind string) []string {
	var out []string
	t := e.Ctx.Abs.Tables["D"]
	for _, cn := range t.ColNames() {
		if abs.KindOf(t.Cols[cn]) == kind && cn != "mark" {
			out = append(out, cn)
		}
	}
	return out
}

func fieldAbs(e *Env, m model.Model, cn string) (interface{}, error) {
	_, row, err := e.Ctx.ModelToAbs("D", m)
	if err != nil {
		return nil, err
	}
	return row[cn], nil
}

// exact order sensitive snapshot of a field, to detect in-place rewriting
func snapshot(m model.Model, cn string) string {
	f := reflect.ValueOf(m).Elem().FieldByName(abs.FieldName(cn))
	return fmt.Sprintf("%#v", f.Interface())
}

// roundTrip sends a row through JSON, as a peer would receive it.
func roundTrip(r ovsdb.Row) (ovsdb.Row, error) {
	b, err := json.Marshal(r)
	if err != nil {
		return nil, err
	}
	var out ovsdb.Row
	if err := json.Unmarshal(b, &out); err != nil {
		return nil, err
	}
	return out, nil
}

// Run executes one case for every column of its kind and several element orders.
func (e *Env) Run(c Case, emit func(map[string]interface{}) error) error {
	const u = "u1"
	for _, cn := range e.colsOfKind(c.Kind) {
		col := e.Ctx.Abs.Tables["D"].Cols[cn]
		orders := [][2]int{{0, 0}}
		if c.Kind == "set" || c.Kind == "map" {
			orders = [][2]int{{0, 0}, {0, 1}, {1, 0}, {2, 1}, {1, 2}}
		}
		vias := []string{"update"}
		if c.Kind == "set" || c.Kind == "map" {
			vias = append(vias, "mutate")
		}
		for _, via := range vias {
			if via == "mutate" {
				// oa: element order of a; ob: where a mutation without effect is placed (0 none, 1 last, 2 first)
				orders = [][2]int{{0, 0}, {0, 1}, {1, 2}, {2, 1}}
			}
			for _, ord := range orders {
				ev := map[string]interface{}{"ev": "diff", "via": via, "kind": c.Kind, "col": cn, "a": c.A, "b": c.B,
					"oa": ord[0], "ob": ord[1], "hasModify": false, "modify": c.A, "applied": c.A, "aAfter": c.A,
					"a2After": c.A, "err": "", "rewritten": false, "newVal": c.A}
				fail := func(format string, args ...interface{}) error {
					ev["err"] = fmt.Sprintf(format, args...)
					return emit(ev)
				}
				ta := typed(col, c.A, ord[0])
				tb := typed(col, c.B, ord[1])
				mA, err := e.Ctx.AbsToModel("D", u, map[string]interface{}{cn: ta})
				if err != nil {
					return err
				}
				snapA := snapshot(mA, cn)
				// the update also changes another column: the column under test is then
				// part of a recorded update even when its own value stays the same
				rowB, err := e.Ctx.AbsToOvsRow("D", map[string]interface{}{cn: tb, "mark": "changed"})
				if err != nil {
					return err
				}
				op := ovsdb.Operation{Op: ovsdb.OperationUpdate, Table: "D", Row: rowB}
				if via == "mutate" {
					ms, err := e.mutations(cn, col, c, ord[1])
					if err != nil {
						return err
					}
					if len(ms) == 0 {
						continue
					}
					op = ovsdb.Operation{Op: ovsdb.OperationMutate, Table: "D", Mutations: ms}
				}
				mu := updates.ModelUpdates{}
				if err := mu.AddOperation(e.Ctx.DBModel, "D", e.Ctx.Tok.ToReal(u), mA, &op); err != nil {
					if err := fail("AddOperation: %v", err); err != nil {
						return err
					}
					continue
				}
				var modify *ovsdb.Row
				_ = mu.ForEachRowUpdate("D", func(uuid string, ru ovsdb.RowUpdate2) error {
					modify = ru.Modify
					return nil
				})
				aAfter, err := fieldAbs(e, mA, cn)
				if err != nil {
					return err
				}
				if ev["aAfter"], err = back(col, aAfter); err != nil {
					return err
				}
				ev["rewritten"] = snapshot(mA, cn) != snapA
				// the new model recorded by the update holds b
				if nm := mu.GetModel("D", e.Ctx.Tok.ToReal(u)); nm != nil {
					nv, err := fieldAbs(e, nm, cn)
					if err != nil {
						return err
					}
					if ev["newVal"], err = back(col, nv); err != nil {
						return err
					}
				} else if via == "update" {
					ev["newVal"] = c.B
					ev["err"] = "the update was not recorded although another column changed"
				}
				if modify != nil {
					if mv, ok := (*modify)[cn]; ok {
						ev["hasModify"] = true
						am, err := e.Ctx.Tok.OvsToAbs(modCol(col), mv)
						if err != nil {
							if err := fail("modify value: %v", err); err != nil {
								return err
							}
							continue
						}
						if ev["modify"], err = back(modCol(col), am); err != nil {
							if err := fail("modify value: %v", err); err != nil {
								return err
							}
							continue
						}
					}
					// apply the modify row, as received over the wire, to a fresh model of a
					wire, err := roundTrip(*modify)
					if err != nil {
						return err
					}
					mA2, err := e.Ctx.AbsToModel("D", u, map[string]interface{}{cn: ta})
					if err != nil {
						return err
					}
					snapA2 := snapshot(mA2, cn)
					mu2 := updates.ModelUpdates{}
					if err := mu2.AddRowUpdate2(e.Ctx.DBModel, "D", e.Ctx.Tok.ToReal(u), mA2, ovsdb.RowUpdate2{Modify: &wire}); err != nil {
						if err := fail("AddRowUpdate2: %v", err); err != nil {
							return err
						}
						continue
					}
					res := mu2.GetModel("D", e.Ctx.Tok.ToReal(u))
					if res == nil {
						res = mA2 // applying the difference changed nothing
					}
					ap, err := fieldAbs(e, res, cn)
					if err != nil {
						return err
					}
					if ev["applied"], err = back(col, ap); err != nil {
						return err
					}
					a2, err := fieldAbs(e, mA2, cn)
					if err != nil {
						return err
					}
					if ev["a2After"], err = back(col, a2); err != nil {
						return err
					}
					if snapshot(mA2, cn) != snapA2 {
						ev["rewritten"] = true
					}
				}
				if err := emit(ev); err != nil {
					return err
				}
			}
		}
	}
	return nil
}

// mutations expresses the change a -> b of a set or map column as the mutations of one mutate operation:
// delete what goes, insert what comes, and (tail 1: last, tail 2: first) one mutation that has no effect.
func (e *Env) mutations(cn string, col abs.Col, c Case, tail int) ([]ovsdb.Mutation, error) {
	var ms []ovsdb.Mutation
	add := func(mut string, v interface{}, shape string) error {
		ov, err := e.Ctx.Tok.ToOvs(col, v, shape)
		if err != nil {
			return err
		}
		ms = append(ms, ovsdb.Mutation{Column: cn, Mutator: ovsdb.Mutator(mut), Value: ov})
		return nil
	}
	a, _ := c.A.([]interface{})
	b, _ := c.B.([]interface{})
	const absent = 999 // outside the universe of the cases, enumerated or random
	if c.Kind == "set" {
		in := func(xs []interface{}, x interface{}) bool {
			for _, y := range xs {
				if toInt(y) == toInt(x) {
					return true
				}
			}
			return false
		}
		var del, ins []interface{}
		for _, x := range a {
			if !in(b, x) {
				del = append(del, atomOf(col.Key.T, toInt(x)))
			}
		}
		for _, x := range b {
			if !in(a, x) {
				ins = append(ins, atomOf(col.Key.T, toInt(x)))
			}
		}
		noop := func() error { return add("delete", []interface{}{atomOf(col.Key.T, absent)}, "col") }
		if tail == 2 {
			if err := noop(); err != nil {
				return nil, err
			}
		}
		if len(del) > 0 {
			if err := add("delete", del, "col"); err != nil {
				return nil, err
			}
		}
		if len(ins) > 0 {
			if err := add("insert", ins, "col"); err != nil {
				return nil, err
			}
		}
		if tail == 1 {
			if len(b) > 0 {
				// an element the column holds by now
				if err := add("insert", []interface{}{atomOf(col.Key.T, toInt(b[0]))}, "col"); err != nil {
					return nil, err
				}
			} else if err := noop(); err != nil {
				return nil, err
			}
		}
		return ms, nil
	}
	val := func(ps []interface{}, k interface{}) (int, bool) {
		for _, p := range ps {
			kv := p.([]interface{})
			if toInt(kv[0]) == toInt(k) {
				return toInt(kv[1]), true
			}
		}
		return 0, false
	}
	var del, ins []interface{}
	for _, p := range a {
		kv := p.([]interface{})
		if v, ok := val(b, kv[0]); !ok || v != toInt(kv[1]) {
			del = append(del, atomOf(col.Key.T, toInt(kv[0])))
		}
	}
	for _, p := range b {
		kv := p.([]interface{})
		if v, ok := val(a, kv[0]); !ok || v != toInt(kv[1]) {
			ins = append(ins, []interface{}{atomOf(col.Key.T, toInt(kv[0])), atomOf(col.Val.T, toInt(kv[1]))})
		}
	}
	noop := func() error { return add("delete", []interface{}{atomOf(col.Key.T, absent)}, "set") }
	if tail == 2 {
		if err := noop(); err != nil {
			return nil, err
		}
	}
	if len(del) > 0 {
		if err := add("delete", del, "set"); err != nil {
			return nil, err
		}
	}
	if len(ins) > 0 {
		if err := add("insert", ins, "col"); err != nil {
			return nil, err
		}
	}
	if tail == 1 {
		if len(b) > 0 {
			// a key the column holds by now, with another value: insert does not replace
			kv := b[0].([]interface{})
			if err := add("insert", []interface{}{[]interface{}{atomOf(col.Key.T, toInt(kv[0])), atomOf(col.Val.T, toInt(kv[1])+1)}}, "col"); err != nil {
				return nil, err
			}
		} else if err := noop(); err != nil {
			return nil, err
		}
	}
	return ms, nil
}

// modCol is the column type a modify value has: for optional columns the new
// value (a set of at most one element).
func modCol(c abs.Col) abs.Col { return c }

// RunPeer applies an arbitrary difference d (a value of the same kind) to a,
// the way a client applies an update2 modify received from a peer.
func (e *Env) RunPeer(c Case, emit func(map[string]interface{}) error) error {
	const u = "u1"
	for _, cn := range e.colsOfKind(c.Kind) {
		col := e.Ctx.Abs.Tables["D"].Cols[cn]
		ev := map[string]interface{}{"ev": "peer", "kind": c.Kind, "col": cn, "a": c.A, "d": c.B, "result": c.A,
			"changed": false, "err": ""}
		ta := typed(col, c.A, 0)
		td := typed(col, c.B, 1)
		mA, err := e.Ctx.AbsToModel("D", u, map[string]interface{}{cn: ta})
		if err != nil {
			return err
		}
		rowD, err := e.Ctx.AbsToOvsRow("D", map[string]interface{}{cn: td})
		if err != nil {
			return err
		}
		wire, err := roundTrip(rowD)
		if err != nil {
			return err
		}
		mu := updates.ModelUpdates{}
		if err := mu.AddRowUpdate2(e.Ctx.DBModel, "D", e.Ctx.Tok.ToReal(u), mA, ovsdb.RowUpdate2{Modify: &wire}); err != nil {
			ev["err"] = err.Error()
			if err := emit(ev); err != nil {
				return err
			}
			continue
		}
		res := mu.GetModel("D", e.Ctx.Tok.ToReal(u))
		ev["changed"] = res != nil
		if res == nil {
			res = mA
		}
		ap, err := fieldAbs(e, res, cn)
		if err != nil {
			return err
		}
		if ev["result"], err = back(col, ap); err != nil {
			return err
		}
		if err := emit(ev); err != nil {
			return err
		}
	}
	return nil
}

func remarshal(in interface{}, out interface{}) error {
	b, err := json.Marshal(in)
	if err != nil {
		return err
	}
	return json.Unmarshal(b, out)
}
