package recdiff

import (
	"fmt"
	"sort"

	"github.com/google/uuid"
	"github.com/ovn-org/libovsdb/cache"
	"github.com/ovn-org/libovsdb/database/inmemory"
	"github.com/ovn-org/libovsdb/model"
	"github.com/ovn-org/libovsdb/ovsdb"

	"vh/abs"
)

// CCase is one condition case of MC_Cond: rows (integer universe) and a list
// of conditions [col, fn, value, shape] over the columns a, o, s, m, _uuid.
type CCase struct {
	T     string          `json:"t"`
	Rows  []MRow          `json:"rows"`
	Conds [][]interface{} `json:"conds"`
}

type idxCfg struct {
	name   string
	schema [][]string // in terms of a/o/s/m
	client [][]abs.CKey
}

func condConfigs(g map[string]string, mapKey, mapKey2 interface{}) []idxCfg {
	key := fmt.Sprint(mapKey)
	key2 := fmt.Sprint(mapKey2)
	return []idxCfg{
		// one client index over two keys of the map: two conditions, one per key, make up its value
		{name: "clientMK12", client: [][]abs.CKey{{{Col: g["m"], Key: key}, {Col: g["m"], Key: key2}}}},
		{name: "none"},
		{name: "schemaA", schema: [][]string{{g["a"]}}},
		{name: "clientA", client: [][]abs.CKey{{{Col: g["a"]}}}},
		{name: "clientO", client: [][]abs.CKey{{{Col: g["o"]}}}},
		{name: "clientMK", client: [][]abs.CKey{{{Col: g["m"], Key: key}}}},
		{name: "clientAO", client: [][]abs.CKey{{{Col: g["a"]}, {Col: g["o"]}}}},
		{name: "clientA+clientO", client: [][]abs.CKey{{{Col: g["a"]}}, {{Col: g["o"]}}}},
		{name: "schemaA+clientO+clientAO", schema: [][]string{{g["a"]}}, client: [][]abs.CKey{{{Col: g["o"]}}, {{Col: g["a"]}, {Col: g["o"]}}}},
	}
}

type condEnv struct {
	b   *abs.Built
	ctx *abs.Ctx
}

var condEnvs = map[string]*condEnv{}

func getCondEnv(gname string, cfg idxCfg) (*condEnv, error) {
	k := gname + "/" + cfg.name
	if e, ok := condEnvs[k]; ok {
		return e, nil
	}
	s := Schema()
	t := s.Tables["D"]
	t.Indexes = cfg.schema
	t.CIdx = cfg.client
	s.Tables["D"] = t
	b, err := abs.Build(s, true)
	if err != nil {
		return nil, fmt.Errorf("config %s: %v", k, err)
	}
	e := &condEnv{b: b, ctx: abs.NewCtx(b)}
	condEnvs[k] = e
	return e, nil
}

func orderingFn(fn string) bool { return fn == "<" || fn == "<=" || fn == ">" || fn == ">=" }

// RunCond evaluates one case through every read path, column group and index configuration.
func (e *Env) RunCond(c CCase, emit func(map[string]interface{}) error) error {
	rowsJ := map[string]interface{}{}
	for i, r := range c.Rows {
		rowsJ[fmt.Sprintf("u%d", i+1)] = map[string]interface{}{"a": r.A, "o": normList(r.O), "s": normList(r.S), "m": normList(r.M)}
	}
	for _, gname := range []string{"int", "str", "uuid", "real"} {
		g := groups[gname]
		skip := false
		for _, cd := range c.Conds {
			if orderingFn(cd[1].(string)) && gname != "int" && gname != "real" {
				skip = true
			}
		}
		if skip {
			continue
		}
		keyCol := e.Ctx.Abs.Tables["D"].Cols[g["m"]]
		mapKey := atomOf(keyCol.Key.T, 1)
		mapKey2 := atomOf(keyCol.Key.T, 2)
		if keyCol.Key.T == "uuid" {
			mapKey = e.Ctx.Tok.ToReal(mapKey.(string))
			mapKey2 = e.Ctx.Tok.ToReal(mapKey2.(string))
		}
		for _, cfg := range condConfigs(g, mapKey, mapKey2) {
			if keyCol.Key.T == "integer" && (cfg.name == "clientMK" || cfg.name == "clientMK12") {
				continue // client index keys are given as Go values of the key type; keep to string-like keys
			}
			ce, err := getCondEnv(gname, cfg)
			if err != nil {
				return err
			}
			// a schema index needs rows that are unique on it
			if len(cfg.schema) > 0 {
				seen := map[int]bool{}
				dup := false
				for _, r := range c.Rows {
					if seen[r.A] {
						dup = true
					}
					seen[r.A] = true
				}
				if dup {
					continue
				}
			}
			conds, err := renderConds(ce.ctx, g, c.Conds)
			if err != nil {
				return err
			}
			base := map[string]interface{}{"ev": "cond", "group": gname, "idxcfg": cfg.name, "rows": rowsJ, "conds": c.Conds,
				"caseConds": c.Conds, "mode": "all", "err": "", "uuids": []interface{}{}}
			models := map[string]model.Model{}
			for i, r := range c.Rows {
				u := fmt.Sprintf("u%d", i+1)
				m, err := ce.ctx.AbsToModel("D", u, mrowAbsCtx(ce.ctx, g, r))
				if err != nil {
					return err
				}
				models[u] = m
			}
			// ---- the cache
			tc, err := cache.NewTableCache(ce.b.DBModel, nil, nil)
			if err != nil {
				return err
			}
			rc := tc.Table("D")
			for u, m := range models {
				if err := rc.Create(ce.ctx.Tok.ToReal(u), m, false); err != nil {
					return err
				}
			}
			ev := copyEv(base)
			ev["via"] = "cache"
			rs, err := rc.RowsByCondition(conds)
			if err != nil {
				ev["err"] = err.Error()
			} else {
				ev["uuids"] = tokens(ce.ctx, rs)
			}
			if err := emit(ev); err != nil {
				return err
			}
			// selecting must not change the cache: the same selection again, then every
			// single-condition selection on the indexed columns for the values present
			if ev["err"] == "" {
				again := copyEv(base)
				again["via"] = "cache-again"
				rs, err := rc.RowsByCondition(conds)
				if err != nil {
					again["err"] = err.Error()
				} else {
					again["uuids"] = tokens(ce.ctx, rs)
				}
				if err := emit(again); err != nil {
					return err
				}
				seenA, seenO := map[int]bool{}, map[string]bool{}
				for _, r := range c.Rows {
					var follow [][]interface{}
					if !seenA[r.A] {
						seenA[r.A] = true
						follow = append(follow, []interface{}{"a", "==", r.A, "atom"})
					}
					ok := fmt.Sprint(normList(r.O))
					if !seenO[ok] {
						seenO[ok] = true
						follow = append(follow, []interface{}{"o", "==", normList(r.O), "set"})
					}
					for _, fc := range follow {
						fconds, err := renderConds(ce.ctx, g, [][]interface{}{fc})
						if err != nil {
							return err
						}
						fe := copyEv(base)
						fe["via"] = "cache-after"
						fe["conds"] = [][]interface{}{fc}
						rs, err := rc.RowsByCondition(fconds)
						if err != nil {
							fe["err"] = err.Error()
						} else {
							fe["uuids"] = tokens(ce.ctx, rs)
						}
						if err := emit(fe); err != nil {
							return err
						}
					}
				}
			}
			// ---- the transaction engine (select), only with schema-defined indexes
			if len(cfg.client) == 0 {
				db := inmemory.NewDatabase(map[string]model.ClientDBModel{"ddb": ce.b.ClientDB})
				if err := db.CreateDatabase("ddb", ce.b.Schema); err != nil {
					return err
				}
				var ops []ovsdb.Operation
				for u, m := range models {
					_, row, err := ce.ctx.ModelToAbs("D", m)
					if err != nil {
						return err
					}
					for cn, v := range row {
						if abs.IsDefaultAbs(ce.b.Abs.Tables["D"].Cols[cn], v) {
							delete(row, cn)
						}
					}
					orow, err := ce.ctx.AbsToOvsRow("D", row)
					if err != nil {
						return err
					}
					ops = append(ops, ovsdb.Operation{Op: "insert", Table: "D", UUID: ce.ctx.Tok.ToReal(u), Row: orow})
				}
				ev := copyEv(base)
				ev["via"] = "select"
				if len(ops) > 0 {
					tx := db.NewTransaction("ddb")
					res, upd := tx.Transact(ops...)
					for _, r := range res {
						if r != nil && r.Error != "" {
							return fmt.Errorf("loading rows: %s %s", r.Error, r.Details)
						}
					}
					if err := db.Commit("ddb", uuid.New(), upd); err != nil {
						return err
					}
				}
				tx := db.NewTransaction("ddb")
				res, _ := tx.Transact(ovsdb.Operation{Op: "select", Table: "D", Where: conds})
				if len(res) != 1 || res[0] == nil {
					ev["err"] = "select returned no result"
				} else if res[0].Error != "" {
					ev["err"] = res[0].Error + " " + res[0].Details
				} else {
					us := []string{}
					for _, row := range res[0].Rows {
						u, _, err := ce.ctx.OvsRowToAbs("D", row)
						if err != nil {
							return err
						}
						us = append(us, u)
					}
					sort.Strings(us)
					out := []interface{}{}
					for _, u := range us {
						out = append(out, u)
					}
					ev["uuids"] = out
				}
				if err := emit(ev); err != nil {
					return err
				}
			}
		}
	}
	return nil
}

func copyEv(m map[string]interface{}) map[string]interface{} {
	out := map[string]interface{}{}
	for k, v := range m {
		out[k] = v
	}
	return out
}

func tokens(ctx *abs.Ctx, rs map[string]model.Model) []interface{} {
	us := []string{}
	for u := range rs {
		us = append(us, ctx.Tok.ToToken(u))
	}
	sort.Strings(us)
	out := []interface{}{}
	for _, u := range us {
		out = append(out, u)
	}
	return out
}

func mrowAbsCtx(ctx *abs.Ctx, g map[string]string, r MRow) map[string]interface{} {
	t := ctx.Abs.Tables["D"]
	return map[string]interface{}{
		g["a"]: typed(t.Cols[g["a"]], r.A, 0),
		g["o"]: typed(t.Cols[g["o"]], interface{}(normList(r.O)), 0),
		g["s"]: typed(t.Cols[g["s"]], interface{}(normList(r.S)), 2),
		g["m"]: typed(t.Cols[g["m"]], interface{}(normList(r.M)), 0),
	}
}

func renderConds(ctx *abs.Ctx, g map[string]string, conds [][]interface{}) ([]ovsdb.Condition, error) {
	t := ctx.Abs.Tables["D"]
	var out []ovsdb.Condition
	for _, cd := range conds {
		col := cd[0].(string)
		fn := ovsdb.ConditionFunction(cd[1].(string))
		if col == "_uuid" {
			out = append(out, ovsdb.NewCondition("_uuid", fn, ovsdb.UUID{GoUUID: ctx.Tok.ToReal(cd[2].(string))}))
			continue
		}
		cn := g[col]
		c := t.Cols[cn]
		var v interface{}
		if col == "a" {
			v = typed(c, toInt(cd[2]), 0)
		} else {
			v = typed(c, interface{}(normList(cd[2])), 1)
		}
		ov, err := ctx.Tok.ToOvs(c, v, "col")
		if err != nil {
			return nil, err
		}
		out = append(out, ovsdb.NewCondition(cn, fn, ov))
	}
	return out, nil
}

// exported helpers for the conditional API harness

func MRowAbs(ctx *abs.Ctx, g map[string]string, r MRow) map[string]interface{} {
	return mrowAbsCtx(ctx, g, r)
}

func NormList(x interface{}) []interface{} { return normList(x) }

// TypedCond instantiates a condition value of the integer universe in the column's type.
func TypedCond(c abs.Col, col string, v interface{}) interface{} {
	if col == "a" {
		return typed(c, toInt(v), 0)
	}
	return typed(c, interface{}(normList(v)), 1)
}
