package recsess

import (
	"context"
	"fmt"
	"reflect"
	"sort"
	"time"

	"github.com/ovn-org/libovsdb/client"
	"github.com/ovn-org/libovsdb/model"
	"github.com/ovn-org/libovsdb/ovsdb"

	"vh/abs"
	"vh/recdiff"
	"vh/rectxn"
)

// APICond drives the conditional API (Where / WhereAll / WhereAny: List and the
// operations they generate) of a synchronised client for the condition cases
// of MC_Cond and records which rows each selects / affects.
type APICond struct {
	In    *rectxn.Inst
	Cli   *Client
	Group string
	cols  map[string]string
}

var apiGroups = map[string]map[string]string{
	"int":  {"a": "i", "o": "oi", "s": "si", "m": "mis"},
	"str":  {"a": "s", "o": "os", "s": "ss", "m": "msi"},
	"uuid": {"a": "u", "o": "ou", "s": "su", "m": "mus"},
}

func NewAPICond(dir, group string) (*APICond, error) {
	b, err := abs.Build(recdiff.Schema(), false)
	if err != nil {
		return nil, err
	}
	in, err := rectxn.NewInst(0, b, abs.NewTokens(), true, dir)
	if err != nil {
		return nil, err
	}
	cli, err := NewClient(1, in.Ctx, in.Sock, false)
	if err != nil {
		in.Close()
		return nil, err
	}
	cols := in.Ctx.Abs.Tables["D"].ColNames()
	if _, err := cli.Monitor("monitor_cond", map[string][]string{"D": cols}); err != nil {
		cli.C.Close()
		in.Close()
		return nil, err
	}
	return &APICond{In: in, Cli: cli, Group: group, cols: apiGroups[group]}, nil
}

func (a *APICond) Close() {
	a.Cli.C.Close()
	a.In.Close()
}

func ctxT() (context.Context, context.CancelFunc) {
	return context.WithTimeout(context.Background(), 10*time.Second)
}

// load replaces the table contents with the case's rows (through the client,
// whose cache therefore is synchronised when Transact returns).
func (a *APICond) load(rows []recdiff.MRow) error {
	// delete and re-insert in two transactions (the engine rejects the re-use of a uuid within one)
	{
		c, cancel := ctxT()
		res, err := a.Cli.C.Transact(c, ovsdb.Operation{Op: "delete", Table: "D", Where: []ovsdb.Condition{}})
		cancel()
		if err != nil {
			return err
		}
		for _, r := range res {
			if r.Error != "" {
				return fmt.Errorf("clearing the table: %s %s", r.Error, r.Details)
			}
		}
	}
	ops := []ovsdb.Operation{}
	for i, r := range rows {
		full := recdiff.MRowAbs(a.In.Ctx, a.cols, r)
		row := map[string]interface{}{}
		for cn, v := range full {
			if !abs.IsDefaultAbs(a.In.Ctx.Abs.Tables["D"].Cols[cn], v) {
				row[cn] = v
			}
		}
		orow, err := a.In.Ctx.AbsToOvsRow("D", row)
		if err != nil {
			return err
		}
		ops = append(ops, ovsdb.Operation{Op: "insert", Table: "D", UUID: abs.TokenUUID(i + 1), Row: orow})
	}
	if len(ops) == 0 {
		return nil
	}
	c, cancel := ctxT()
	defer cancel()
	res, err := a.Cli.C.Transact(c, ops...)
	if err != nil {
		return err
	}
	for _, r := range res {
		if r.Error != "" {
			return fmt.Errorf("loading rows: %s %s", r.Error, r.Details)
		}
	}
	return nil
}

func (a *APICond) dbUUIDs() (map[string]model.Model, error) {
	return a.In.DB.List(a.In.Ctx.Abs.Name, "D")
}

// modelConds builds the model and the model.Condition list of a case; ok=false
// when the API cannot express a condition (conditions on _uuid).
func (a *APICond) modelConds(conds [][]interface{}) (model.Model, []model.Condition, bool, error) {
	t := a.In.Ctx.Abs.Tables["D"]
	m := reflect.New(a.In.Ctx.Types["D"])
	var out []model.Condition
	for _, cd := range conds {
		col := cd[0].(string)
		if col == "_uuid" {
			return nil, nil, false, nil
		}
		fn := cd[1].(string)
		cn := a.cols[col]
		c := t.Cols[cn]
		if (fn == "<" || fn == "<=" || fn == ">" || fn == ">=") && c.Key.T != "integer" && c.Key.T != "real" {
			return nil, nil, false, nil
		}
		v := recdiff.TypedCond(c, col, cd[2])
		native, err := a.In.Ctx.Tok.FromAbs(c, v)
		if err != nil {
			return nil, nil, false, err
		}
		field := m.Elem().FieldByName(abs.FieldName(cn)).Addr().Interface()
		out = append(out, model.Condition{Field: field, Function: ovsdb.ConditionFunction(fn), Value: native})
	}
	return m.Interface(), out, true, nil
}

func (a *APICond) list(capi client.ConditionalAPI) ([]interface{}, error) {
	res := reflect.New(reflect.SliceOf(reflect.PtrTo(a.In.Ctx.Types["D"])))
	c, cancel := ctxT()
	defer cancel()
	if err := capi.List(c, res.Interface()); err != nil {
		if err == client.ErrNotFound {
			return []interface{}{}, nil
		}
		return nil, err
	}
	us := []string{}
	for i := 0; i < res.Elem().Len(); i++ {
		us = append(us, a.In.Ctx.Tok.ToToken(res.Elem().Index(i).Elem().FieldByName("UUID").String()))
	}
	sort.Strings(us)
	out := []interface{}{}
	for _, u := range us {
		out = append(out, u)
	}
	return out, nil
}

// Run executes one case.
func (a *APICond) Run(c recdiff.CCase, emit func(map[string]interface{}) error) error {
	rowsJ := map[string]interface{}{}
	for i, r := range c.Rows {
		rowsJ[fmt.Sprintf("u%d", i+1)] = map[string]interface{}{"a": r.A, "o": recdiff.NormList(r.O), "s": recdiff.NormList(r.S), "m": recdiff.NormList(r.M)}
	}
	m, mconds, ok, err := a.modelConds(c.Conds)
	if err != nil {
		return err
	}
	if !ok {
		return nil
	}
	for _, mode := range []string{"all", "any"} {
		mk := func() client.ConditionalAPI {
			if mode == "all" {
				return a.Cli.C.WhereAll(m, mconds...)
			}
			return a.Cli.C.WhereAny(m, mconds...)
		}
		base := func(via string) map[string]interface{} {
			return map[string]interface{}{"ev": "cond", "group": a.Group, "idxcfg": "none", "rows": rowsJ, "conds": c.Conds, "caseConds": c.Conds,
				"mode": mode, "via": via, "err": "", "uuids": []interface{}{}}
		}
		if err := a.load(c.Rows); err != nil {
			return err
		}
		ev := base("api-list")
		us, err := a.list(mk())
		if err != nil {
			ev["err"] = err.Error()
		} else {
			ev["uuids"] = us
		}
		if err := emit(ev); err != nil {
			return err
		}
		// the operations the conditional generates affect exactly those rows
		ev = base("api-delete")
		ops, err := mk().Delete()
		if err != nil {
			ev["err"] = err.Error()
		} else {
			before, err := a.dbUUIDs()
			if err != nil {
				return err
			}
			if len(ops) > 0 {
				cc, cancel := ctxT()
				res, err := a.Cli.C.Transact(cc, ops...)
				cancel()
				if err != nil {
					ev["err"] = err.Error()
				}
				for _, r := range res {
					if r.Error != "" {
						ev["err"] = r.Error + " " + r.Details
					}
				}
			}
			after, err := a.dbUUIDs()
			if err != nil {
				return err
			}
			gone := []string{}
			for u := range before {
				if _, ok := after[u]; !ok {
					gone = append(gone, a.In.Ctx.Tok.ToToken(u))
				}
			}
			sort.Strings(gone)
			out := []interface{}{}
			for _, u := range gone {
				out = append(out, u)
			}
			ev["uuids"] = out
		}
		if err := emit(ev); err != nil {
			return err
		}
		// update: mark the selected rows through column b-free marker: set the atom column of another group
		if err := a.load(c.Rows); err != nil {
			return err
		}
		ev = base("api-update")
		mark := reflect.New(a.In.Ctx.Types["D"])
		mark.Elem().FieldByName("F_mark").SetString("hit")
		ops, err = mk().Update(mark.Interface(), mark.Elem().FieldByName("F_mark").Addr().Interface())
		if err != nil {
			ev["err"] = err.Error()
		} else {
			if len(ops) > 0 {
				cc, cancel := ctxT()
				res, err := a.Cli.C.Transact(cc, ops...)
				cancel()
				if err != nil {
					ev["err"] = err.Error()
				}
				for _, r := range res {
					if r.Error != "" {
						ev["err"] = r.Error + " " + r.Details
					}
				}
			}
			after, err := a.dbUUIDs()
			if err != nil {
				return err
			}
			hit := []string{}
			for u, mm := range after {
				if reflect.ValueOf(mm).Elem().FieldByName("F_mark").String() == "hit" {
					hit = append(hit, a.In.Ctx.Tok.ToToken(u))
				}
			}
			sort.Strings(hit)
			out := []interface{}{}
			for _, u := range hit {
				out = append(out, u)
			}
			ev["uuids"] = out
		}
		if err := emit(ev); err != nil {
			return err
		}
	}
	return nil
}
