package recsess

import (
	"fmt"
	"math/rand"
	"time"

	"github.com/ovn-org/libovsdb/cache"
	"github.com/ovn-org/libovsdb/ovsdb"

	"vh/abs"
	"vh/rectxn"
)

// EventsDirect feeds a TableCache (handlers registered first, event loop
// running) with random notifications in both encodings, including ones the
// cache must reject (insert of a cached row, update / delete of an unknown
// row), and records the handlers' callbacks and the final contents.
func EventsDirect(b *abs.Built, seed int64, steps, nhandlers int, rec *rectxn.Recorder) error {
	ctx := abs.NewCtx(b)
	tc, err := cache.NewTableCache(b.DBModel, nil, nil)
	if err != nil {
		return err
	}
	c := &Client{ID: 0, Ctx: ctx, Monitored: map[string][]string{}}
	for i := 0; i < nhandlers; i++ {
		h := &Handler{c: c}
		c.Handlers = append(c.Handlers, h)
		tc.AddEventHandler(h)
	}
	stop := make(chan struct{})
	defer close(stop)
	go tc.Run(stop)

	rnd := rand.New(rand.NewSource(seed))
	p := abs.DefaultProfile()
	p.Index = 0
	g := abs.NewGen(b.Abs, seed, p)
	shadow := map[string]map[string]map[string]interface{}{}
	for t := range b.Abs.Tables {
		shadow[t] = map[string]map[string]interface{}{}
	}
	tables := b.Abs.TableNames()
	next := 0
	rejected, applied := 0, 0
	fullRow := func(t string, partial map[string]interface{}) map[string]interface{} {
		row := map[string]interface{}{}
		for cn, col := range b.Abs.Tables[t].Cols {
			if v, ok := partial[cn]; ok {
				row[cn] = v
			} else {
				row[cn] = abs.DefaultAbs(col)
			}
		}
		return row
	}
	ovsRow := func(t string, row map[string]interface{}) (*ovsdb.Row, error) {
		r, err := ctx.AbsToOvsRow(t, row)
		return &r, err
	}
	for i := 0; i < steps; i++ {
		t := tables[rnd.Intn(len(tables))]
		var existing []string
		for u := range shadow[t] {
			existing = append(existing, u)
		}
		kind := rnd.Intn(10)
		valid := true
		var u string
		switch {
		case kind < 3 || len(existing) == 0: // insert a new row
			next++
			u = fmt.Sprintf("u%d", next)
		case kind < 5: // modify
			u = existing[rnd.Intn(len(existing))]
		case kind < 6: // delete
			u = existing[rnd.Intn(len(existing))]
		case kind < 7: // insert of a row the cache already holds: must be rejected
			u = existing[rnd.Intn(len(existing))]
			valid = false
		default: // modify / delete of an unknown row: must be rejected
			u = fmt.Sprintf("u%d", 5000+i)
			valid = false
		}
		ru := ctx.Tok.ToReal(u)
		g.SetState(map[string]interface{}{})
		newRow := fullRow(t, g.MarkerRow(t, fmt.Sprintf("e%d", i), i))
		for cn, v := range g.RandomRow(t) {
			newRow[cn] = v
		}
		var perr error
		useV1 := rnd.Intn(2) == 0
		_, isOld := shadow[t][u]
		switch {
		case kind < 3 || len(existing) == 0 || kind == 6:
			or, err := ovsRow(t, newRow)
			if err != nil {
				return err
			}
			if useV1 {
				perr = tc.Populate(ovsdb.TableUpdates{t: ovsdb.TableUpdate{ru: &ovsdb.RowUpdate{New: or}}})
			} else {
				perr = tc.Populate2(ovsdb.TableUpdates2{t: ovsdb.TableUpdate2{ru: &ovsdb.RowUpdate2{Insert: or}}})
			}
			if valid && perr == nil {
				shadow[t][u] = newRow
			}
		case kind == 5 || (kind >= 7 && rnd.Intn(2) == 0): // delete
			old := shadow[t][u]
			if !isOld {
				old = newRow
			}
			or, err := ovsRow(t, old)
			if err != nil {
				return err
			}
			if useV1 {
				perr = tc.Populate(ovsdb.TableUpdates{t: ovsdb.TableUpdate{ru: &ovsdb.RowUpdate{Old: or}}})
			} else {
				perr = tc.Populate2(ovsdb.TableUpdates2{t: ovsdb.TableUpdate2{ru: &ovsdb.RowUpdate2{Delete: &ovsdb.Row{}}}})
			}
			if valid && perr == nil {
				delete(shadow[t], u)
			}
		default: // modify through the v1 encoding (full new row)
			old := shadow[t][u]
			if !isOld {
				old = newRow
			}
			oldR, err := ovsRow(t, old)
			if err != nil {
				return err
			}
			newR, err := ovsRow(t, newRow)
			if err != nil {
				return err
			}
			perr = tc.Populate(ovsdb.TableUpdates{t: ovsdb.TableUpdate{ru: &ovsdb.RowUpdate{Old: oldR, New: newR}}})
			if valid && perr == nil {
				shadow[t][u] = newRow
			}
		}
		if perr != nil {
			rejected++
		} else {
			applied++
		}
	}
	// barrier: a marker row
	mt := tables[0]
	mrow := fullRow(mt, g.MarkerRow(mt, "marker", 999999))
	or, err := ovsRow(mt, mrow)
	if err != nil {
		return err
	}
	if err := tc.Populate2(ovsdb.TableUpdates2{mt: ovsdb.TableUpdate2{ctx.Tok.ToReal("u9999"): &ovsdb.RowUpdate2{Insert: or}}}); err != nil {
		return err
	}
	barrier := c.WaitMarker("u9999", 10*time.Second)
	snap := map[string]interface{}{}
	for _, t := range tables {
		tm := map[string]interface{}{}
		for uu, m := range tc.Table(t).Rows() {
			tok, row, err := ctx.ModelToAbs(t, m)
			if err != nil {
				return err
			}
			_ = uu
			tm[tok] = row
		}
		snap[t] = tm
	}
	hs := []interface{}{}
	for _, h := range c.Handlers {
		hs = append(hs, h.snapshot())
	}
	if err := rec.Emit(map[string]interface{}{"ev": "reset", "db": 0}); err != nil {
		return err
	}
	return rec.Emit(map[string]interface{}{"ev": "events", "db": 0, "cli": 0, "barrier": barrier, "handlers": hs, "rows": snap, "err": "",
		"applied": applied, "rejected": rejected})
}
