package recsess

import (
	"context"
	"encoding/json"
	"fmt"
	"os"
	"runtime"
	"strings"
	"sync"
	"time"

	"github.com/cenkalti/backoff/v4"
	"github.com/go-logr/logr"
	"github.com/ovn-org/libovsdb/client"
	"github.com/ovn-org/libovsdb/ovsdb"

	"vh/abs"
	"vh/proxy"
	"vh/rectxn"
)

// ReconnSchema: three root tables with a name and a version.
func ReconnSchema() *abs.Schema {
	col := func(t string) abs.Col { return abs.Col{Key: abs.BaseT{T: t}, Min: 1, Max: 1, Mut: true} }
	tbl := func() abs.Table {
		// tags: a set, changed by mutations - its update2 difference is not idempotent (applied twice it toggles back)
		return abs.Table{IsRoot: true, Cols: map[string]abs.Col{"name": col("string"), "v": col("integer"),
			"tags": {Key: abs.BaseT{T: "string"}, Min: 0, Max: -1, Mut: true}}}
	}
	return &abs.Schema{Name: "rdb", Tables: map[string]abs.Table{"T1": tbl(), "T2": tbl(), "T3": tbl()}}
}

// Fault is one loss of the connection.
type Fault struct {
	Kind   string `json:"kind"`   // "cut" | "blackhole"
	Dir    string `json:"dir"`    // c2s | s2c
	At     int    `json:"at"`     // the k-th message of that direction after arming
	Inside bool   `json:"inside"` // cut inside the message
	Phase  string `json:"phase"`  // "steady" | "reconnect": cut again while the client reconnects
	Away   int    `json:"away"`   // transactions other clients commit while the client is away
}

type ReconnCase struct {
	Methods []string `json:"methods"` // one monitor per entry, over T1, T2, T3
	Faults  []Fault  `json:"faults"`
	Seed    int      `json:"seed"`
	// Since: the server (as seen through the proxy) remembers transaction ids: monitor_cond_since with the id
	// of the last transaction the client saw is answered with found = true and the difference only
	Since bool `json:"since"`
}

// gatedReconnect (build tag verif): a cut, then the restarted monitor's reply held at the pause point while a
// transaction commits. Returns whether the pause point was reached.
var gatedReconnect func(px *proxy.Proxy, write func(string) error) (bool, error)

type marker struct {
	name    string
	outcome string
}

// RunReconn executes one case and emits the trace events.
func RunReconn(b *abs.Built, tok *abs.Tokens, dir string, c ReconnCase, rec *rectxn.Recorder) (map[string]interface{}, error) {
	in, err := rectxn.NewInst(0, b, tok, true, dir)
	if err != nil {
		return nil, err
	}
	defer in.Close()
	if err := rec.Emit(map[string]interface{}{"ev": "reset", "db": 0}); err != nil {
		return nil, err
	}
	px, err := proxy.New(in.Sock+".px", in.Sock)
	if err != nil {
		return nil, err
	}
	defer px.Close()
	px.Since(c.Since)
	l := logr.Discard()
	opts := []client.Option{client.WithEndpoint("unix:" + px.Path), client.WithLogger(&l),
		client.WithReconnect(2*time.Second, backoff.NewConstantBackOff(5*time.Millisecond))}
	probe := false
	for _, f := range c.Faults {
		if f.Kind == "blackhole" {
			probe = true
		}
	}
	if probe {
		opts = append(opts, client.WithInactivityCheck(150*time.Millisecond, 2*time.Second, backoff.NewConstantBackOff(5*time.Millisecond)))
	}
	cl, err := client.NewOVSDBClient(in.Ctx.ClientDB, opts...)
	if err != nil {
		return nil, err
	}
	defer func() {
		done := make(chan struct{})
		go func() { cl.Close(); close(done) }()
		select {
		case <-done:
		case <-time.After(3 * time.Second):
		}
	}()
	cctx, cancel := context.WithTimeout(context.Background(), 10*time.Second)
	if err := cl.Connect(cctx); err != nil {
		cancel()
		return nil, fmt.Errorf("connect: %v", err)
	}
	cancel()
	cli := &Client{ID: 1, C: cl, Monitored: map[string][]string{}, Ctx: in.Ctx}
	// a client wedged on its own locks blocks Connected() and Close() as well: every call gets a deadline
	wedged := false
	connected := func() bool {
		if wedged {
			return false
		}
		ch := make(chan bool, 1)
		go func() { ch <- cl.Connected() }()
		select {
		case b := <-ch:
			return b
		case <-time.After(5 * time.Second):
			wedged = true
			return false
		}
	}
	tables := []string{"T1", "T2", "T3"}
	for i, m := range c.Methods {
		id, err := cli.Monitor(m, map[string][]string{tables[i]: {"name", "v", "tags"}})
		if err != nil {
			return nil, fmt.Errorf("monitor: %v", err)
		}
		if err := rec.Emit(map[string]interface{}{"ev": "cmonitor", "db": 0, "cli": 1, "mon": id, "method": m,
			"tables": map[string]interface{}{tables[i]: []interface{}{"name", "v", "tags"}}}); err != nil {
			return nil, err
		}
	}
	// ---- the writer goes to the server directly
	next := 0
	version := 0
	write := func(kind string) error {
		version++
		t := tables[next%len(c.Methods)]
		next++
		var rows []string
		for _, u := range in.DBRows(t) {
			if strings.HasPrefix(u, "u") { // never the marker rows of the client's own transactions
				rows = append(rows, u)
			}
		}
		var o abs.AOp
		switch {
		case kind == "insert" || len(rows) == 0:
			o = abs.AOp{Op: "insert", Table: t, UUID: fmt.Sprintf("u%d", 100+version), Row: map[string]interface{}{"name": fmt.Sprintf("w%d", version), "v": version}}
		case kind == "delete":
			o = abs.AOp{Op: "delete", Table: t, Where: [][]interface{}{{"_uuid", "==", rows[0], "atom"}}}
		default:
			// the version, and one more tag: the notification carries a set difference
			o = abs.AOp{Op: "mutate", Table: t, Where: [][]interface{}{{"_uuid", "==", rows[len(rows)-1], "atom"}},
				Mutations: [][]interface{}{{"v", "+=", 1, "atom"}, {"tags", "insert", []interface{}{fmt.Sprintf("t%d", version)}, "set"}}}
		}
		o.Normalize()
		// not recorded as a transaction event: client transactions run concurrently,
		// the database is observed (sync event) once everything has settled
		op, err := in.Ctx.ToOp(o)
		if err != nil {
			return err
		}
		if wedged {
			return nil
		}
		res, err := in.Transact([]ovsdb.Operation{op})
		if err != nil {
			if strings.Contains(err.Error(), "timeout waiting") {
				// the server notifies the client before it answers the writer: a client that neither
				// acknowledges nor gives its connection up blocks every transaction on what it monitors
				wedged = true
				return nil
			}
			return err
		}
		for _, r := range res {
			if r != nil && r.Error != "" {
				return fmt.Errorf("writer transaction failed: %s %s", r.Error, r.Details)
			}
		}
		return nil
	}
	for i := 0; i < 2*len(c.Methods); i++ {
		if err := write("insert"); err != nil {
			return nil, err
		}
	}
	// ---- client transactions carry markers
	var mu sync.Mutex
	var markers []marker
	var wg sync.WaitGroup
	mk := 0
	clientTxn := func() {
		mk++
		name := fmt.Sprintf("mk%d", mk)
		wg.Add(1)
		go func() {
			defer wg.Done()
			ctx, cancel := context.WithTimeout(context.Background(), 3*time.Second)
			defer cancel()
			res, err := cl.Transact(ctx, ovsdb.Operation{Op: "insert", Table: "T1", Row: ovsdb.Row{"name": name, "v": 0}})
			out := "results"
			if err != nil {
				out = "error"
			} else {
				for _, r := range res {
					if r.Error != "" {
						out = "error"
					}
				}
			}
			mu.Lock()
			markers = append(markers, marker{name, out})
			mu.Unlock()
		}()
	}
	fired := 0
	for _, f := range c.Faults {
		if f.Kind == "gated" {
			if gatedReconnect != nil {
				reached, err := gatedReconnect(px, write)
				if err != nil {
					return nil, err
				}
				if reached {
					fired++
				}
			}
			continue
		}
		if f.Kind == "blackhole" {
			px.Blackhole(true)
			// a transaction of the client's own is in flight while the peer is silent
			clientTxn()
			// the probe must notice; meanwhile others commit
			for i := 0; i < f.Away; i++ {
				if err := write([]string{"delete", "insert", "update"}[i%3]); err != nil {
					return nil, err
				}
			}
			deadline := time.Now().Add(5 * time.Second)
			for connected() && time.Now().Before(deadline) {
				time.Sleep(5 * time.Millisecond)
			}
			px.CutNow()
			px.Up()
			fired++
			continue
		}
		if f.Phase == "reconnect" {
			// cut first, then cut again while the client is reconnecting
			px.CutNow()
			for i := 0; i < f.Away; i++ {
				if err := write([]string{"delete", "insert", "update"}[i%3]); err != nil {
					return nil, err
				}
			}
			px.Arm(proxy.Rule{Dir: f.Dir, At: f.At, Inside: f.Inside})
			px.Up()
			select {
			case <-px.Fired:
				fired++
				if err := write("update"); err != nil {
					return nil, err
				}
				px.Up()
			case <-time.After(1500 * time.Millisecond):
				px.Disarm() // the reconnect needed fewer messages than that
			}
			continue
		}
		px.Arm(proxy.Rule{Dir: f.Dir, At: f.At, Inside: f.Inside})
		didFire := false
		for i := 0; i < 12 && !didFire; i++ {
			if i%2 == 0 {
				clientTxn()
			} else if err := write("update"); err != nil {
				return nil, err
			}
			select {
			case <-px.Fired:
				didFire = true
			case <-time.After(30 * time.Millisecond):
			}
		}
		if !didFire {
			px.Disarm()
			px.CutNow()
		}
		fired++
		for i := 0; i < f.Away; i++ {
			if err := write([]string{"delete", "insert", "update"}[i%3]); err != nil {
				return nil, err
			}
		}
		px.Up()
	}
	waited := make(chan struct{})
	go func() { wg.Wait(); close(waited) }()
	select {
	case <-waited:
	case <-time.After(15 * time.Second):
		// a Transact call that does not return 12 s after its 3 s context expired
		mu.Lock()
		markers = append(markers, marker{"stuck", "stuck"})
		mu.Unlock()
		wedged = true
	}
	// ---- convergence: connected again and the cache equals the database
	want := func() (map[string]interface{}, error) {
		d, _, err := in.Observe()
		return d, err
	}
	deadline := time.Now().Add(15 * time.Second)
	converged := false
	var snap, d map[string]interface{}
	for time.Now().Before(deadline) {
		if wedged {
			break
		}
		if connected() && cl.Cache() != nil {
			// database, cache, database again: a transaction still in flight on the server
			// (a client call that timed out) must not fall between the two observations
			d1, err := want()
			if err != nil {
				return nil, err
			}
			s, serr := cli.Snapshot()
			d2, err := want()
			if err != nil {
				return nil, err
			}
			if serr == nil && sameJSON(d1, d2) {
				snap, d = s, d1
				same := true
				for t := range cli.Monitored {
					if !sameJSON(s[t], d1[t]) {
						same = false
					}
				}
				if same {
					converged = true
					break
				}
			}
		}
		time.Sleep(10 * time.Millisecond)
	}
	if !converged && os.Getenv("VERIF_DEBUG") != "" {
		buf := make([]byte, 1<<20)
		n := runtime.Stack(buf, true)
		fmt.Fprintf(os.Stderr, "NOT CONVERGED wedged=%v\n%s\n", wedged, string(buf[:n]))
	}
	if d == nil {
		var err error
		if d, err = want(); err != nil {
			return nil, err
		}
	}
	if err := rec.Emit(map[string]interface{}{"ev": "sync", "db": 0, "post": d}); err != nil {
		return nil, err
	}
	if snap == nil {
		snap = map[string]interface{}{"T1": map[string]interface{}{}, "T2": map[string]interface{}{}, "T3": map[string]interface{}{}}
	}
	if err := rec.Emit(map[string]interface{}{"ev": "cache", "db": 0, "cli": 1, "when": "reconnected",
		"monitored": cli.MonitoredJSON(), "rows": snap}); err != nil {
		return nil, err
	}
	// connected: at the moment the cache was seen converged (with an inactivity probe of 150 ms an overloaded
	// machine can make the client give up a healthy connection a moment later: not a fault of the client)
	if err := rec.Emit(map[string]interface{}{"ev": "reconn", "db": 0, "cli": 1, "connected": converged || connected(), "converged": converged, "wedged": wedged,
		"faults": fired}); err != nil {
		return nil, err
	}
	mu.Lock()
	for _, m := range markers {
		if err := rec.Emit(map[string]interface{}{"ev": "marker", "db": 0, "table": "T1", "name": m.name, "outcome": m.outcome}); err != nil {
			mu.Unlock()
			return nil, err
		}
	}
	mu.Unlock()
	return map[string]interface{}{"converged": converged, "fired": fired, "markers": len(markers), "msgs": px.Msgs, "wedged": wedged, "sinceFound": px.SinceFound}, nil
}

func sameJSON(a, b interface{}) bool {
	ja, _ := json.Marshal(a)
	jb, _ := json.Marshal(b)
	return string(ja) == string(jb)
}
