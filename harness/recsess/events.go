package recsess

import (
	"sync"
	"time"

	"github.com/ovn-org/libovsdb/model"
)

// EvRec is one callback as a handler saw it.
type EvRec struct {
	K   string                 `json:"k"`
	T   string                 `json:"t"`
	U   string                 `json:"u"`
	Old map[string]interface{} `json:"old"`
	New map[string]interface{} `json:"new"`
}

// Handler records every callback in delivery order.
type Handler struct {
	c   *Client
	mu  sync.Mutex
	evs []EvRec
	err string
}

func (h *Handler) rec(k, t string, old, nw model.Model) {
	e := EvRec{K: k, T: t, Old: map[string]interface{}{}, New: map[string]interface{}{}}
	if old != nil {
		u, row, err := h.c.Ctx.ModelToAbs(t, old)
		if err != nil {
			h.err = err.Error()
		}
		e.U, e.Old = u, row
	}
	if nw != nil {
		u, row, err := h.c.Ctx.ModelToAbs(t, nw)
		if err != nil {
			h.err = err.Error()
		}
		e.U, e.New = u, row
	}
	h.mu.Lock()
	h.evs = append(h.evs, e)
	h.mu.Unlock()
}

func (h *Handler) OnAdd(table string, m model.Model)          { h.rec("add", table, nil, m) }
func (h *Handler) OnUpdate(table string, old, nw model.Model) { h.rec("update", table, old, nw) }
func (h *Handler) OnDelete(table string, m model.Model)       { h.rec("delete", table, m, nil) }

func (h *Handler) snapshot() []interface{} {
	h.mu.Lock()
	defer h.mu.Unlock()
	out := make([]interface{}, len(h.evs))
	for i, e := range h.evs {
		out[i] = e
	}
	return out
}

func (h *Handler) sawAdd(u string) bool {
	h.mu.Lock()
	defer h.mu.Unlock()
	for _, e := range h.evs {
		if e.K == "add" && e.U == u {
			return true
		}
	}
	return false
}

// AddHandlers registers n recording handlers on the client's cache (before any monitor).
func (c *Client) AddHandlers(n int) {
	for i := 0; i < n; i++ {
		h := &Handler{c: c}
		c.Handlers = append(c.Handlers, h)
		c.C.Cache().AddEventHandler(h)
	}
}

// WaitMarker waits until every handler has seen the add event of row u: the
// event queue is FIFO, so every earlier event has been delivered too.
func (c *Client) WaitMarker(u string, d time.Duration) bool {
	if c.barrierFailed {
		// events got lost before: later barriers are reported (they fail again) without the long wait
		d = 300 * time.Millisecond
	}
	ok := c.waitMarker(u, d)
	if !ok {
		c.barrierFailed = true
	}
	return ok
}

func (c *Client) waitMarker(u string, d time.Duration) bool {
	deadline := time.Now().Add(d)
	for time.Now().Before(deadline) {
		ok := true
		for _, h := range c.Handlers {
			if !h.sawAdd(u) {
				ok = false
			}
		}
		if ok {
			return true
		}
		time.Sleep(500 * time.Microsecond)
	}
	return false
}

// EventsEvent: the callbacks of every handler and the cache contents.
func (c *Client) EventsEvent(db int, barrier bool) (map[string]interface{}, error) {
	snap, err := c.Snapshot()
	if err != nil {
		return nil, err
	}
	hs := []interface{}{}
	herr := ""
	for _, h := range c.Handlers {
		hs = append(hs, h.snapshot())
		if h.err != "" {
			herr = h.err
		}
	}
	return map[string]interface{}{"ev": "events", "db": db, "cli": c.ID, "barrier": barrier, "handlers": hs, "rows": snap, "err": herr}, nil
}
