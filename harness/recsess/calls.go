//go:build verif

package recsess

import (
	"context"
	"fmt"
	"reflect"
	"runtime"
	"sync"
	"sync/atomic"
	"time"

	"github.com/cenkalti/backoff/v4"
	"github.com/go-logr/logr"
	"github.com/ovn-org/libovsdb/client"
	"github.com/ovn-org/libovsdb/model"
	"github.com/ovn-org/libovsdb/ovsdb"

	"vh/abs"
	"vh/proxy"
	"vh/rectxn"
)

type CallsCase struct {
	First     string   `json:"first"`
	Then      []string `json:"then"`
	Reconnect bool     `json:"reconnect"`
}

type callRes struct {
	Call     string `json:"call"`
	Returned bool   `json:"returned"`
	Err      string `json:"err"`
	Ms       int64  `json:"ms"`
}

const callDeadline = 10 * time.Second

// runCall executes one API call with a context and reports whether it returned.
func runCall(name string, f func(ctx context.Context) error) callRes {
	done := make(chan error, 1)
	t0 := time.Now()
	ctx, cancel := context.WithTimeout(context.Background(), 2*time.Second)
	defer cancel()
	go func() { done <- f(ctx) }()
	select {
	case err := <-done:
		r := callRes{Call: name, Returned: true, Ms: time.Since(t0).Milliseconds()}
		if err != nil {
			r.Err = err.Error()
		}
		return r
	case <-time.After(callDeadline):
		return callRes{Call: name, Returned: false, Ms: time.Since(t0).Milliseconds()}
	}
}

func goroutineDump() string {
	buf := make([]byte, 1<<20)
	n := runtime.Stack(buf, true)
	s := string(buf[:n])
	if len(s) > 6000 {
		s = s[:6000]
	}
	return s
}

// RunCalls: a first call (failing in one particular way, or fine), then follow-up calls; every call must return.
// The Gated* scenarios park one goroutine at a pause point while the others start.
func RunCalls(b *abs.Built, dir string, c CallsCase, rec *rectxn.Recorder) error {
	in, err := rectxn.NewInst(0, b, abs.NewTokens(), true, dir)
	if err != nil {
		return err
	}
	px, err := proxy.New(in.Sock+".px", in.Sock)
	if err != nil {
		in.Close()
		return err
	}
	px.Answer("monitor_cancel", "{}")
	l := logr.Discard()
	opts := []client.Option{client.WithEndpoint("unix:" + px.Path), client.WithLogger(&l)}
	if c.Reconnect || c.First == "GatedReconnectMonitor" {
		opts = append(opts, client.WithReconnect(2*time.Second, backoff.NewConstantBackOff(5*time.Millisecond)))
	}
	cl, err := client.NewOVSDBClient(in.Ctx.ClientDB, opts...)
	if err != nil {
		return err
	}
	// a client stuck on its own locks cannot be closed either: give the clean-up a deadline and leave it behind
	defer func() {
		done := make(chan struct{})
		go func() {
			cl.Close()
			px.Close()
			in.Close()
			close(done)
		}()
		select {
		case <-done:
		case <-time.After(3 * time.Second):
			px.Close()
		}
	}()
	cctx, cancel := context.WithTimeout(context.Background(), 10*time.Second)
	if err := cl.Connect(cctx); err != nil {
		cancel()
		return err
	}
	cancel()
	gates := NewGates()
	var gmu sync.Mutex
	gated := ""
	client.SetVerifHook(func(point string, args ...string) {
		gmu.Lock()
		g := gated
		gmu.Unlock()
		if point == g {
			gates.hook(point, args...)
		}
	})
	defer client.SetVerifHook(nil)
	defer gates.openAll()

	t1 := in.Ctx.Abs.TableNames()[0]
	cols := in.Ctx.Abs.Tables[t1].ColNames()
	var cmu sync.Mutex
	var lastCookie client.MonitorCookie
	okMonitor := func(ctx context.Context) error {
		ck, err := cl.Monitor(ctx, &client.Monitor{Method: ovsdb.ConditionalMonitorRPC, Tables: []client.TableMonitor{{Table: t1, Fields: cols}},
			LastTransactionID: "00000000-0000-0000-0000-000000000000"})
		if err == nil {
			cmu.Lock()
			lastCookie = ck
			cmu.Unlock()
		}
		return err
	}
	down := func() {
		cl.Disconnect()
		time.Sleep(20 * time.Millisecond)
	}
	getModel := func(ctx context.Context) error {
		m, err := in.Ctx.AbsToModel(t1, "u424242", map[string]interface{}{})
		if err != nil {
			return err
		}
		if cl.Cache() == nil {
			return fmt.Errorf("no cache")
		}
		return cl.Get(ctx, m)
	}
	calls := map[string]func(ctx context.Context) error{
		"MonitorOK": okMonitor,
		"MonitorUnknownTable": func(ctx context.Context) error {
			_, err := cl.Monitor(ctx, &client.Monitor{Method: ovsdb.ConditionalMonitorRPC, Tables: []client.TableMonitor{{Table: "NoSuchTable"}}})
			return err
		},
		"MonitorNoTables": func(ctx context.Context) error {
			_, err := cl.Monitor(ctx, &client.Monitor{Method: ovsdb.ConditionalMonitorRPC})
			return err
		},
		"MonitorBadMethod": func(ctx context.Context) error {
			_, err := cl.Monitor(ctx, &client.Monitor{Method: "monitor_nothing", Tables: []client.TableMonitor{{Table: t1, Fields: cols}}})
			return err
		},
		"MonitorBuilderError": func(ctx context.Context) error {
			_, err := cl.Monitor(ctx, &client.Monitor{Method: ovsdb.ConditionalMonitorRPC, Tables: []client.TableMonitor{{Table: t1, Fields: cols}},
				Errors: []error{fmt.Errorf("builder error")}})
			return err
		},
		"MonitorWhenDisconnected": func(ctx context.Context) error { down(); return okMonitor(ctx) },
		"TransactInvalid": func(ctx context.Context) error {
			_, err := cl.Transact(ctx, ovsdb.Operation{Op: "insert", Table: "NoSuchTable", Row: ovsdb.Row{"x": 1}})
			return err
		},
		"TransactWhenDisconnected": func(ctx context.Context) error {
			down()
			_, err := cl.Transact(ctx, ovsdb.Operation{Op: "select", Table: t1, Where: []ovsdb.Condition{}})
			return err
		},
		"GetNotFound": getModel,
		"MonitorCancelUnknown": func(ctx context.Context) error {
			return cl.MonitorCancel(ctx, client.MonitorCookie{DatabaseName: in.Ctx.Abs.Name, ID: "nope"})
		},
		"MonitorCancel": func(ctx context.Context) error {
			cmu.Lock()
			ck := lastCookie
			cmu.Unlock()
			return cl.MonitorCancel(ctx, ck)
		},
		"MonitorCancelWhenDisconnected": func(ctx context.Context) error {
			down()
			return cl.MonitorCancel(ctx, client.MonitorCookie{DatabaseName: in.Ctx.Abs.Name, ID: "nope"})
		},
		"EchoWhenDisconnected": func(ctx context.Context) error { down(); return cl.Echo(ctx) },
		"Disconnect":           func(ctx context.Context) error { down(); return nil },
		"Close":                func(ctx context.Context) error { cl.Close(); time.Sleep(20 * time.Millisecond); return nil },
		"Connect":              func(ctx context.Context) error { return cl.Connect(ctx) },
		"Get":                  getModel,
		"List": func(ctx context.Context) error {
			if cl.Cache() == nil {
				return fmt.Errorf("no cache")
			}
			m, err := in.Ctx.AbsToModel(t1, "u424242", map[string]interface{}{})
			if err != nil {
				return err
			}
			lst := reflect.New(reflect.SliceOf(reflect.TypeOf(m)))
			return cl.List(ctx, lst.Interface())
		},
		"WhereDelete": func(ctx context.Context) error {
			m, err := in.Ctx.AbsToModel(t1, "u424242", map[string]interface{}{})
			if err != nil {
				return err
			}
			_, err = cl.Where(m).Delete()
			return err
		},
		"Transact": func(ctx context.Context) error {
			_, err := cl.Transact(ctx, ovsdb.Operation{Op: "select", Table: t1, Where: []ovsdb.Condition{}})
			return err
		},
		"Echo": func(ctx context.Context) error { return cl.Echo(ctx) },
	}
	var results []interface{}
	stuck := []interface{}{}
	dump := ""
	var rmu sync.Mutex
	var wg sync.WaitGroup
	async := func(name string) {
		wg.Add(1)
		go func() {
			defer wg.Done()
			r := runCall(name, calls[name])
			rmu.Lock()
			results = append(results, r)
			if !r.Returned {
				stuck = append(stuck, name)
			}
			rmu.Unlock()
		}()
		time.Sleep(40 * time.Millisecond)
	}
	park := func(point string, trigger func()) {
		gmu.Lock()
		gated = point
		gmu.Unlock()
		trigger()
		if !gates.waitFor(func() bool { return gates.has(point) }, 3*time.Second) {
			rmu.Lock()
			results = append(results, callRes{Call: "gate", Returned: true, Err: "nothing reached the pause point " + point})
			rmu.Unlock()
		}
	}
	sequential := func(seq []string) error {
		for _, name := range seq {
			f, ok := calls[name]
			if !ok {
				return fmt.Errorf("unknown call %s", name)
			}
			r := runCall(name, f)
			results = append(results, r)
			if !r.Returned {
				stuck = append(stuck, name)
				break // everything after it would hang on the same lock
			}
		}
		return nil
	}
	switch c.First {
	case "GatedDisconnectRace":
		// the disconnect handler is parked in the middle of its clean-up while Connect and Monitor start
		park("disconnect.cleanup", func() { cl.Disconnect() })
		async("Connect")
		async("MonitorOK")
		gates.openAll()
		wg.Wait()
	case "GatedReconnectMonitor":
		// the reconnecting goroutine is parked before it restarts the monitors while a Monitor call starts
		if err := sequential([]string{"MonitorOK"}); err != nil {
			return err
		}
		park("connect.restart", func() { cl.Disconnect() })
		async("MonitorOK")
		async("Get")
		gates.openAll()
		wg.Wait()
	case "GatedCancelMonitor":
		// MonitorCancel is parked after the server's reply while a Monitor call starts
		if err := sequential([]string{"MonitorOK"}); err != nil {
			return err
		}
		park("cancel.reply", func() { async("MonitorCancel") })
		async("MonitorOK")
		async("Get")
		gates.openAll()
		wg.Wait()
	default:
		if err := sequential(append([]string{c.First}, c.Then...)); err != nil {
			return err
		}
	}
	if len(stuck) == 0 && len(c.Then) > 0 && c.First[:5] == "Gated" {
		if err := sequential(c.Then); err != nil {
			return err
		}
	}
	if len(stuck) > 0 {
		dump = goroutineDump()
	}
	then := []interface{}{}
	for _, t := range c.Then {
		then = append(then, t)
	}
	return rec.Emit(map[string]interface{}{"ev": "calls", "first": c.First, "then": then, "reconnect": c.Reconnect, "results": results, "stuck": stuck, "dump": dump})
}

// StressSchema: rows whose every field carries the same version number,
// including fields that are references in Go (map, slice, pointer): a
// reader handed the cache's own memory shows up as a race or a mixed row.
func StressSchema() *abs.Schema {
	atom := func(t string) abs.Col { return abs.Col{Key: abs.BaseT{T: t}, Min: 1, Max: 1, Mut: true} }
	tbl := func() abs.Table {
		return abs.Table{IsRoot: true, Indexes: [][]string{{"name"}}, Cols: map[string]abs.Col{"name": atom("string"), "v": atom("integer"),
			"ext":  {Key: abs.BaseT{T: "string"}, Val: abs.BaseT{T: "string"}, Min: 0, Max: -1, Mut: true},
			"tags": {Key: abs.BaseT{T: "string"}, Min: 0, Max: -1, Mut: true},
			"opt":  {Key: abs.BaseT{T: "string"}, Min: 0, Max: 1, Mut: true}}}
	}
	return &abs.Schema{Name: "sdb", Tables: map[string]abs.Table{"T1": tbl(), "T2": tbl(), "T3": tbl()}}
}

func versionRow(v int) map[string]interface{} {
	name := fmt.Sprintf("v%d", v)
	return map[string]interface{}{"name": name, "v": v, "ext": []interface{}{[]interface{}{"k", "x"}, []interface{}{"v", name}},
		"tags": []interface{}{"t", name}, "opt": []interface{}{name}}
}

// oneVersion: do all fields of the row carry the version of its v column?
func oneVersion(row map[string]interface{}) bool {
	name := fmt.Sprintf("v%v", row["v"])
	if row["name"] != name {
		return false
	}
	ext, _ := row["ext"].([]interface{})
	okExt := false
	for _, p := range ext {
		if kv, ok := p.([]interface{}); ok && len(kv) == 2 && kv[0] == "v" && kv[1] == name {
			okExt = true
		}
	}
	tags, _ := row["tags"].([]interface{})
	okTag := false
	for _, t := range tags {
		if t == name {
			okTag = true
		}
	}
	opt, _ := row["opt"].([]interface{})
	return okExt && okTag && len(tags) == 2 && len(ext) == 2 && len(opt) == 1 && opt[0] == name
}

// scribble writes into everything the model refers to: harmless when the model is the caller's own copy
func scribble(m model.Model) {
	rv := reflect.ValueOf(m)
	if rv.Kind() != reflect.Ptr || rv.IsNil() {
		return
	}
	rv = rv.Elem()
	for i := 0; i < rv.NumField(); i++ {
		f := rv.Field(i)
		switch f.Kind() {
		case reflect.Map:
			if !f.IsNil() && f.Type().Key().Kind() == reflect.String && f.Type().Elem().Kind() == reflect.String {
				f.SetMapIndex(reflect.ValueOf("v"), reflect.ValueOf("scribbled"))
			}
		case reflect.Slice:
			if f.Len() > 0 && f.Type().Elem().Kind() == reflect.String {
				f.Index(0).SetString("scribbled")
			}
		case reflect.Ptr:
			if !f.IsNil() && f.Elem().Kind() == reflect.String {
				f.Elem().SetString("scribbled")
			}
		}
	}
}

// RunStress: readers on the cache while notifications, monitor set-up,
// disconnects and reconnects go on. Every row carries one version number in
// all its fields; a reader that sees a row mixing two versions counts it.
func RunStress(b *abs.Built, dir string, seed int64, dur time.Duration, rec *rectxn.Recorder) error {
	in, err := rectxn.NewInst(0, b, abs.NewTokens(), true, dir)
	if err != nil {
		return err
	}
	// behind a pass-through proxy that answers monitor_cancel (the built-in server does not implement it)
	px, err := proxy.New(in.Sock+".px", in.Sock)
	if err != nil {
		in.Close()
		return err
	}
	defer px.Close()
	px.Answer("monitor_cancel", "{}")
	l := logr.Discard()
	cl, err := client.NewOVSDBClient(in.Ctx.ClientDB, client.WithEndpoint("unix:"+px.Path), client.WithLogger(&l),
		client.WithReconnect(2*time.Second, backoff.NewConstantBackOff(2*time.Millisecond)))
	if err != nil {
		return err
	}
	defer func() {
		done := make(chan struct{})
		go func() {
			cl.Close()
			in.Close()
			close(done)
		}()
		select {
		case <-done:
		case <-time.After(3 * time.Second):
		}
	}()
	cctx, cancel := context.WithTimeout(context.Background(), 10*time.Second)
	if err := cl.Connect(cctx); err != nil {
		cancel()
		return err
	}
	cancel()
	cli := &Client{ID: 1, C: cl, Monitored: map[string][]string{}, Ctx: in.Ctx}
	for _, t := range []string{"T1", "T2"} {
		if _, err := cli.Monitor("monitor_cond", map[string][]string{t: {"name", "v", "ext", "tags", "opt"}}); err != nil {
			return err
		}
	}
	var mixed, reads, calls, stuckCalls, monitorsAdded, monitorsCancelled, churn int64
	var lastName atomic.Value
	stop := make(chan struct{})
	var wg sync.WaitGroup
	// writer: every row's fields carry the same version
	wg.Add(1)
	go func() {
		defer wg.Done()
		v := 0
		for {
			select {
			case <-stop:
				return
			default:
			}
			v++
			t := []string{"T1", "T2"}[v%2]
			u := fmt.Sprintf("u%d", 1+v%3)
			rows := in.DBRows(t)
			has := false
			for _, x := range rows {
				if x == u {
					has = true
				}
			}
			var o abs.AOp
			if !has {
				o = abs.AOp{Op: "insert", Table: t, UUID: u, Row: versionRow(v)}
			} else if v%7 == 0 {
				o = abs.AOp{Op: "delete", Table: t, Where: [][]interface{}{{"_uuid", "==", u, "atom"}}}
			} else {
				o = abs.AOp{Op: "update", Table: t, Where: [][]interface{}{{"_uuid", "==", u, "atom"}}, Row: versionRow(v)}
			}
			o.Normalize()
			op, err := in.Ctx.ToOp(o)
			if err == nil {
				_, _ = in.Transact([]ovsdb.Operation{op})
			}
		}
	}()
	// readers
	for r := 0; r < 4; r++ {
		wg.Add(1)
		go func(r int) {
			defer wg.Done()
			for n := 0; ; n++ {
				select {
				case <-stop:
					return
				default:
				}
				tc := cl.Cache()
				if tc == nil {
					continue
				}
				for _, t := range []string{"T1", "T2"} {
					rc := tc.Table(t)
					if rc == nil {
						continue
					}
					var own bool
					check := func(m model.Model) {
						if m == nil || reflect.ValueOf(m).IsNil() {
							return
						}
						_, row, err := in.Ctx.ModelToAbs(t, m)
						if err != nil {
							return
						}
						atomic.AddInt64(&reads, 1)
						if !oneVersion(row) {
							atomic.AddInt64(&mixed, 1)
						}
						lastName.Store(row["name"])
						if own {
							scribble(m)
						}
					}
					own = true
					switch (r + n) % 5 {
					case 4:
						// looked up through the name index, not by uuid
						if name, ok := lastName.Load().(string); ok {
							probe, err := in.Ctx.AbsToModel(t, "", map[string]interface{}{"name": name})
							if err != nil {
								break
							}
							ms, _ := rc.RowsByModels([]model.Model{probe})
							for _, m := range ms {
								check(m)
							}
							_, m, _ := rc.RowByModel(probe)
							check(m)
							lst := reflect.New(reflect.SliceOf(reflect.TypeOf(probe)))
							ctx, cancel := context.WithTimeout(context.Background(), 200*time.Millisecond)
							if cl.Where(probe).List(ctx, lst.Interface()) == nil {
								for i := 0; i < lst.Elem().Len(); i++ {
									if pm, ok := lst.Elem().Index(i).Interface().(model.Model); ok {
										check(pm)
									}
								}
							}
							cancel()
						}
					case 0:
						for _, m := range rc.Rows() {
							check(m)
						}
					case 1:
						own = false // RowsShallow hands out the cache's own rows, by contract read-only
						shallow := rc.RowsShallow()
						for _, m := range shallow {
							check(m)
						}
						own = true
						for u := range shallow {
							if rc.HasRow(u) {
								check(rc.Row(u))
							}
						}
						_ = rc.Len()
					case 2:
						for _, tok := range []string{"u1", "u2", "u3"} {
							probe, err := in.Ctx.AbsToModel(t, tok, map[string]interface{}{})
							if err != nil {
								continue
							}
							_, m, _ := rc.RowByModel(probe)
							check(m)
							ms, _ := rc.RowsByModels([]model.Model{probe})
							for _, m := range ms {
								check(m)
							}
						}
					case 3:
						ms, _ := rc.RowsByCondition([]ovsdb.Condition{{Column: "v", Function: ovsdb.ConditionGreaterThan, Value: 0}})
						for _, m := range ms {
							check(m)
						}
						_, _ = rc.Index("name")
						_ = tc.Tables()
					}
				}
				if r <= 2 {
					// API calls with a context: Echo, List, Get; each must return
					ctx, cancel := context.WithTimeout(context.Background(), 500*time.Millisecond)
					done := make(chan struct{})
					go func() {
						defer close(done)
						switch r {
						case 0:
							_ = cl.Echo(ctx)
						case 1:
							m, err := in.Ctx.AbsToModel("T1", "u1", map[string]interface{}{})
							if err != nil || cl.Cache() == nil {
								return
							}
							lst := reflect.New(reflect.SliceOf(reflect.TypeOf(m)))
							if cl.List(ctx, lst.Interface()) == nil {
								for i := 0; i < lst.Elem().Len(); i++ {
									_, row, err := in.Ctx.ModelToAbs("T1", lst.Elem().Index(i).Interface())
									if err == nil {
										atomic.AddInt64(&reads, 1)
										if !oneVersion(row) {
											atomic.AddInt64(&mixed, 1)
										}
										if pm, ok := lst.Elem().Index(i).Interface().(model.Model); ok {
											scribble(pm)
										}
									}
								}
							}
						case 2:
							m, err := in.Ctx.AbsToModel("T2", "u2", map[string]interface{}{})
							if err != nil || cl.Cache() == nil {
								return
							}
							if cl.Get(ctx, m) == nil {
								_, row, err := in.Ctx.ModelToAbs("T2", m)
								if err == nil {
									atomic.AddInt64(&reads, 1)
									if !oneVersion(row) {
										atomic.AddInt64(&mixed, 1)
									}
									scribble(m)
								}
							}
						}
					}()
					select {
					case <-done:
					case <-time.After(callDeadline):
						atomic.AddInt64(&stuckCalls, 1)
					}
					cancel()
					atomic.AddInt64(&calls, 1)
				}
			}
		}(r)
	}
	// the less travelled calls: each takes the client's locks on its way
	wg.Add(1)
	go func() {
		defer wg.Done()
		for n := 0; ; n++ {
			select {
			case <-stop:
				return
			case <-time.After(3 * time.Millisecond):
			}
			done := make(chan struct{})
			go func() {
				defer close(done)
				switch n % 4 {
				case 0:
					_ = cl.Schema()
				case 1:
					_ = cl.CurrentEndpoint()
				case 2:
					_ = cl.Connected()
				case 3:
					_ = cl.SetOption(client.WithInactivityCheck(0, time.Second, nil))
				}
			}()
			select {
			case <-done:
			case <-time.After(callDeadline):
				atomic.AddInt64(&stuckCalls, 1)
			}
			atomic.AddInt64(&calls, 1)
		}
	}()
	// a second client that does nothing but connect, disconnect and monitor every table of its model (MonitorAll
	// reads the model the connection set-up writes); it holds no other monitor, so nothing is monitored twice
	l2 := logr.Discard()
	if cl2, err := client.NewOVSDBClient(in.Ctx.ClientDB, client.WithEndpoint("unix:"+in.Sock), client.WithLogger(&l2)); err == nil {
		defer func() {
			done := make(chan struct{})
			go func() { cl2.Close(); close(done) }()
			select {
			case <-done:
			case <-time.After(3 * time.Second):
			}
		}()
		timed := func(f func(ctx context.Context)) {
			ctx, cancel := context.WithTimeout(context.Background(), 300*time.Millisecond)
			defer cancel()
			done := make(chan struct{})
			go func() { defer close(done); f(ctx) }()
			select {
			case <-done:
			case <-time.After(callDeadline):
				atomic.AddInt64(&stuckCalls, 1)
			}
			atomic.AddInt64(&calls, 1)
		}
		wg.Add(2)
		go func() {
			defer wg.Done()
			for {
				select {
				case <-stop:
					return
				case <-time.After(2 * time.Millisecond):
				}
				timed(func(ctx context.Context) { _ = cl2.Connect(ctx) })
				time.Sleep(time.Millisecond)
				timed(func(ctx context.Context) { cl2.Disconnect() })
			}
		}()
		go func() {
			defer wg.Done()
			for {
				select {
				case <-stop:
					return
				case <-time.After(time.Millisecond):
				}
				timed(func(ctx context.Context) {
					if ck, err := cl2.MonitorAll(ctx); err == nil {
						atomic.AddInt64(&monitorsAdded, 1)
						_ = cl2.MonitorCancel(ctx, ck)
					}
				})
			}
		}()
	}
	// monitor set-up while all that goes on
	wg.Add(1)
	go func() {
		defer wg.Done()
		for {
			select {
			case <-stop:
				return
			case <-time.After(10 * time.Millisecond):
			}
			ctx, cancel := context.WithTimeout(context.Background(), 500*time.Millisecond)
			done := make(chan struct{})
			go func() {
				defer close(done)
				ck, err := cl.Monitor(ctx, &client.Monitor{Method: ovsdb.ConditionalMonitorRPC, Tables: []client.TableMonitor{{Table: "T3", Fields: []string{"name"}}}})
				if err == nil {
					n := atomic.AddInt64(&monitorsAdded, 1)
					if n%4 != 0 {
						// and cancelled again while the readers go on
						if cl.MonitorCancel(ctx, ck) == nil {
							atomic.AddInt64(&monitorsCancelled, 1)
						}
					}
				}
			}()
			select {
			case <-done:
			case <-time.After(callDeadline):
				atomic.AddInt64(&stuckCalls, 1)
			}
			cancel()
			atomic.AddInt64(&calls, 1)
		}
	}()
	// connection churn
	// the first half on a steady connection (monitors come and go, readers read), the second with the connection cut every 15 ms
	end := time.Now().Add(dur)
	half := time.Now().Add(dur / 2)
	for time.Now().Before(end) {
		time.Sleep(15 * time.Millisecond)
		if time.Now().Before(half) {
			continue
		}
		r := runCall("Disconnect", func(context.Context) error { cl.Disconnect(); return nil })
		if !r.Returned {
			atomic.AddInt64(&stuckCalls, 1)
			break
		}
		churn++
	}
	close(stop)
	finished := make(chan struct{})
	go func() { wg.Wait(); close(finished) }()
	dump := ""
	select {
	case <-finished:
	case <-time.After(2*callDeadline + 5*time.Second):
		// some goroutine of the run is blocked inside the client for good
		atomic.AddInt64(&stuckCalls, 1)
		dump = goroutineDump()
	}
	return rec.Emit(map[string]interface{}{"ev": "stress", "reads": reads, "mixed": mixed, "calls": calls, "stuck": stuckCalls,
		"disconnects": churn, "monitors_added": monitorsAdded, "monitors_cancelled": monitorsCancelled, "races": 0, "report": "", "dump": dump})
}
