//go:build verif

package recsess

import (
	"time"

	"github.com/ovn-org/libovsdb/client"

	"vh/proxy"
)

func init() {
	gatedReconnect = func(px *proxy.Proxy, write func(string) error) (bool, error) {
		// the connection is cut; while the client reconnects, the reply of a restarted monitor is held
		// back at the pause point, a transaction is committed (its notification reaches the client
		// and is deferred), then the reply is let through
		gates := NewGates()
		client.SetVerifHook(func(point string, args ...string) {
			if point == "monitor.reply" {
				gates.hook(point, args...)
			}
		})
		defer client.SetVerifHook(nil)
		defer gates.openAll()
		px.CutNow()
		px.Up()
		reached := gates.waitFor(func() bool { return gates.has("monitor.reply") }, 3*time.Second)
		if reached {
			if err := write("update"); err != nil {
				return reached, err
			}
			if err := write("insert"); err != nil {
				return reached, err
			}
			time.Sleep(30 * time.Millisecond) // let the read loop take the notifications
		}
		gates.openAll()
		return reached, nil
	}
}
