//go:build verif

package recsess

import (
	"encoding/json"
	"fmt"
	"sync"
	"time"

	"github.com/ovn-org/libovsdb/client"
	"github.com/ovn-org/libovsdb/ovsdb"
	"github.com/ovn-org/libovsdb/server"

	"vh/abs"
	"vh/proxy"
	"vh/rectxn"
)

// SessSchema is the tiny schema of the Session.tla schedules: two root tables
// with a name and a version column.
func SessSchema() *abs.Schema {
	col := func(t string) abs.Col { return abs.Col{Key: abs.BaseT{T: t}, Min: 1, Max: 1, Mut: true} }
	tbl := func() abs.Table {
		return abs.Table{IsRoot: true, Cols: map[string]abs.Col{"name": col("string"), "v": col("integer")}}
	}
	return &abs.Schema{Name: "sdb", Tables: map[string]abs.Table{"T1": tbl(), "T2": tbl()}}
}

// gate controller -----------------------------------------------------------

type arrival struct {
	point string
	args  []string
	rel   chan struct{}
}

type Gates struct {
	mu      sync.Mutex
	open    bool // pass everything
	arrived chan *arrival
	parked  []*arrival
}

func NewGates() *Gates { return &Gates{arrived: make(chan *arrival, 64)} }

func (g *Gates) hook(point string, args ...string) {
	g.mu.Lock()
	if g.open {
		g.mu.Unlock()
		return
	}
	a := &arrival{point: point, args: args, rel: make(chan struct{})}
	g.mu.Unlock()
	g.arrived <- a
	<-a.rel
}

// collect moves pending arrivals into parked, waiting up to d for at least one
// arrival when want() is not yet satisfied.
func (g *Gates) waitFor(want func() bool, d time.Duration) bool {
	deadline := time.After(d)
	for {
		g.drain()
		if want() {
			return true
		}
		select {
		case a := <-g.arrived:
			g.mu.Lock()
			g.parked = append(g.parked, a)
			g.mu.Unlock()
		case <-deadline:
			g.drain()
			return want()
		}
	}
}

func (g *Gates) drain() {
	for {
		select {
		case a := <-g.arrived:
			g.mu.Lock()
			g.parked = append(g.parked, a)
			g.mu.Unlock()
		default:
			return
		}
	}
}

func (g *Gates) has(point string) bool {
	g.mu.Lock()
	defer g.mu.Unlock()
	for _, a := range g.parked {
		if a.point == point {
			return true
		}
	}
	return false
}

func (g *Gates) release(point string) bool {
	g.mu.Lock()
	defer g.mu.Unlock()
	for i, a := range g.parked {
		if a.point == point {
			g.parked = append(g.parked[:i], g.parked[i+1:]...)
			close(a.rel)
			return true
		}
	}
	return false
}

func (g *Gates) openAll() {
	g.mu.Lock()
	g.open = true
	ps := g.parked
	g.parked = nil
	g.mu.Unlock()
	for _, a := range ps {
		close(a.rel)
	}
	for {
		select {
		case a := <-g.arrived:
			close(a.rel)
		default:
			return
		}
	}
}

// schedule ------------------------------------------------------------------

type Step struct {
	Action string
	Arg    interface{}
}

func (s *Step) UnmarshalJSON(b []byte) error {
	var raw []json.RawMessage
	if err := json.Unmarshal(b, &raw); err != nil {
		return err
	}
	if len(raw) < 2 {
		return fmt.Errorf("bad step %s", string(b))
	}
	if err := json.Unmarshal(raw[0], &s.Action); err != nil {
		return err
	}
	return json.Unmarshal(raw[1], &s.Arg)
}

var rowTable = map[string]string{"r1": "T1", "r2": "T1", "r3": "T2"}
var rowUUID = map[string]string{"r1": "u1", "r2": "u2", "r3": "u3"}
var monTable = map[string]string{"m1": "T1", "m2": "T2"}

// RunSchedule executes one schedule on a fresh server and client and emits the
// trace events (reset, txn..., cmonitor..., cache, health).
// methods: monitor -> RPC method.
func RunSchedule(b *abs.Built, tok *abs.Tokens, dir string, steps []Step, methods map[string]string, rec *rectxn.Recorder, wait time.Duration) (map[string]interface{}, error) {
	gates := NewGates()
	client.SetVerifHook(gates.hook)
	server.SetVerifHook(gates.hook)
	defer func() {
		gates.openAll()
		client.SetVerifHook(nil)
		server.SetVerifHook(nil)
	}()
	in, err := rectxn.NewInst(0, b, tok, true, dir)
	if err != nil {
		return nil, err
	}
	defer in.Close()
	if err := rec.Emit(map[string]interface{}{"ev": "reset", "db": 0}); err != nil {
		return nil, err
	}
	sock := in.Sock
	if methods["m1"] == "monitor_cond_since" && methods["m2"] == "monitor_cond_since" {
		// behind the proxy's since mode the server sends update3 with transaction ids (one id per transaction)
		px, err := proxy.New(in.Sock+".px", in.Sock)
		if err != nil {
			return nil, err
		}
		defer px.Close()
		px.Since(true)
		sock = px.Path
	}
	cli, err := NewClient(1, in.Ctx, sock, false)
	if err != nil {
		return nil, err
	}
	defer cli.C.Close()

	type monRes struct {
		m   string
		id  string
		err error
	}
	monDone := make(chan monRes, 4)
	type txnRes struct {
		aops []abs.AOp
		res  []*ovsdb.OperationResult
		err  error
	}
	txnDone := make(chan txnRes, 4)
	monInFlight := ""
	txnInFlight := false
	monErrs := []interface{}{}
	followed := true
	realised := []interface{}{}

	finishMon := func(d time.Duration) error {
		select {
		case r := <-monDone:
			monInFlight = ""
			if r.err != nil {
				monErrs = append(monErrs, fmt.Sprintf("%s: %v", r.m, r.err))
				return nil
			}
			tj := map[string]interface{}{monTable[r.m]: []interface{}{"name", "v"}}
			return rec.Emit(map[string]interface{}{"ev": "cmonitor", "db": 0, "cli": 1, "mon": r.id, "method": methods[r.m], "tables": tj})
		case <-time.After(d):
			return nil
		}
	}
	finishTxn := func(d time.Duration) error {
		select {
		case r := <-txnDone:
			txnInFlight = false
			if r.err != nil {
				return fmt.Errorf("writer transaction: %v", r.err)
			}
			_, err := in.RecordTxn(rec, r.aops, r.res, "", false)
			return err
		case <-time.After(d):
			return nil
		}
	}

	for _, st := range steps {
		switch st.Action {
		case "MonStart":
			m := st.Arg.(string)
			if monInFlight != "" {
				// Monitor() calls are serialised by the client; the schedule generator respects this
				followed = false
				continue
			}
			monInFlight = m
			go func() {
				id, err := cli.Monitor(methods[m], map[string][]string{monTable[m]: {"name", "v"}})
				monDone <- monRes{m, id, err}
			}()
			if !gates.waitFor(func() bool { return gates.has("monitor.reply") }, wait) {
				followed = false // the reply is queued behind a held notification, or registration waits for a commit
			}
			realised = append(realised, "MonStart "+m)
		case "TBegin":
			if txnInFlight {
				followed = false
				continue
			}
			var aops []abs.AOp
			for _, c := range st.Arg.([]interface{}) {
				ch := c.([]interface{})
				r := ch[0].(string)
				old, nw := int(ch[1].(float64)), int(ch[2].(float64))
				t, u := rowTable[r], rowUUID[r]
				var o abs.AOp
				switch {
				case old == 0:
					o = abs.AOp{Op: "insert", Table: t, UUID: u, Row: map[string]interface{}{"name": r, "v": nw}}
				case nw == 0:
					o = abs.AOp{Op: "delete", Table: t, Where: [][]interface{}{{"_uuid", "==", u, "atom"}}}
				default:
					o = abs.AOp{Op: "update", Table: t, Where: [][]interface{}{{"_uuid", "==", u, "atom"}}, Row: map[string]interface{}{"v": nw}}
				}
				o.Normalize()
				aops = append(aops, o)
			}
			var ops []ovsdb.Operation
			for _, a := range aops {
				o, err := in.Ctx.ToOp(a)
				if err != nil {
					return nil, err
				}
				ops = append(ops, o)
			}
			txnInFlight = true
			go func() {
				res, err := in.Transact(ops)
				txnDone <- txnRes{aops, res, err}
			}()
			gates.waitFor(func() bool { return gates.has("update.pre") || gates.has("transact.notified") }, wait)
			realised = append(realised, "TBegin")
		case "ReadLoopNotify":
			if gates.release("update.pre") {
				// the handler runs, the server goes on to its gate, the read loop to the next message
				gates.waitFor(func() bool { return gates.has("transact.notified") }, wait)
				gates.waitFor(func() bool { return false }, 2*time.Millisecond)
				realised = append(realised, "ReadLoopNotify")
			} else {
				followed = false
			}
		case "ApplyReply":
			if gates.release("monitor.reply") {
				if err := finishMon(5 * time.Second); err != nil {
					return nil, err
				}
				realised = append(realised, "ApplyReply "+st.Arg.(string))
			} else {
				followed = false
			}
		case "TCommit":
			if gates.release("transact.notified") {
				if err := finishTxn(5 * time.Second); err != nil {
					return nil, err
				}
				// a monitor registration that waited for the commit may come through now
				if monInFlight != "" {
					gates.waitFor(func() bool { return gates.has("monitor.reply") }, wait)
				}
				realised = append(realised, "TCommit")
			} else {
				followed = false
			}
		}
	}
	// let everything run to completion: quiescence
	deadline := time.Now().Add(10 * time.Second)
	for (monInFlight != "" || txnInFlight) && time.Now().Before(deadline) {
		gates.drain()
		for _, p := range []string{"update.pre", "transact.notified", "monitor.reply"} {
			for gates.release(p) {
			}
		}
		if monInFlight != "" {
			if err := finishMon(20 * time.Millisecond); err != nil {
				return nil, err
			}
		}
		if txnInFlight {
			if err := finishTxn(20 * time.Millisecond); err != nil {
				return nil, err
			}
		}
	}
	stuck := []interface{}{}
	if monInFlight != "" {
		stuck = append(stuck, "Monitor("+monInFlight+") did not return")
	}
	if txnInFlight {
		stuck = append(stuck, "the writer's transaction did not return")
	}
	gates.openAll()
	time.Sleep(2 * time.Millisecond)
	connected := cli.C.Connected()
	snap, err := cli.Snapshot()
	if err != nil {
		snap = map[string]interface{}{"T1": map[string]interface{}{}, "T2": map[string]interface{}{}}
		connected = false
	}
	if err := rec.Emit(map[string]interface{}{"ev": "cache", "db": 0, "cli": 1, "when": "quiescent",
		"monitored": cli.MonitoredJSON(), "rows": snap}); err != nil {
		return nil, err
	}
	if err := rec.Emit(map[string]interface{}{"ev": "health", "db": 0, "cli": 1, "connected": connected,
		"monitorErrors": monErrs, "stuck": stuck}); err != nil {
		return nil, err
	}
	return map[string]interface{}{"followed": followed, "realised": realised}, nil
}
