// Package recsess drives real libovsdb clients (monitor-fed caches) against
// the real server and records what their caches hold, for TraceTxn.tla's
// client events (property C01 and the properties that need a synchronised
// client).
package recsess

import (
	"context"
	"fmt"
	"math/rand"
	"sort"
	"time"

	"github.com/cenkalti/backoff/v4"
	"github.com/go-logr/logr"
	"github.com/ovn-org/libovsdb/client"
	"github.com/ovn-org/libovsdb/ovsdb"

	"vh/abs"
	"vh/rectxn"
)

type Client struct {
	ID        int
	C         client.Client
	Monitored map[string][]string // table -> monitored columns
	Ctx       *abs.Ctx
	Handlers  []*Handler

	barrierFailed bool
}

// NewClient connects a real client to the endpoint (unix socket path).
func NewClient(id int, ctx *abs.Ctx, sock string, reconnect bool, opts ...client.Option) (*Client, error) {
	l := logr.Discard()
	all := []client.Option{client.WithEndpoint("unix:" + sock), client.WithLogger(&l)}
	if reconnect {
		all = append(all, client.WithReconnect(2*time.Second, backoff.NewConstantBackOff(10*time.Millisecond)))
	}
	all = append(all, opts...)
	c, err := client.NewOVSDBClient(ctx.ClientDB, all...)
	if err != nil {
		return nil, err
	}
	cctx, cancel := context.WithTimeout(context.Background(), 10*time.Second)
	defer cancel()
	if err := c.Connect(cctx); err != nil {
		return nil, err
	}
	return &Client{ID: id, C: c, Monitored: map[string][]string{}, Ctx: ctx}, nil
}

// Monitor establishes a monitor over the given tables/columns with the given method.
func (c *Client) Monitor(method string, tables map[string][]string) (string, error) {
	m := &client.Monitor{Method: method, LastTransactionID: "00000000-0000-0000-0000-000000000000"}
	names := []string{}
	for t := range tables {
		names = append(names, t)
	}
	sort.Strings(names)
	for _, t := range names {
		m.Tables = append(m.Tables, client.TableMonitor{Table: t, Fields: tables[t]})
	}
	cctx, cancel := context.WithTimeout(context.Background(), 10*time.Second)
	defer cancel()
	cookie, err := c.C.Monitor(cctx, m)
	if err != nil {
		return "", err
	}
	for t, cols := range tables {
		c.Monitored[t] = cols
	}
	return cookie.ID, nil
}

// Snapshot projects the client's whole cache to the abstract form.
func (c *Client) Snapshot() (map[string]interface{}, error) {
	out := map[string]interface{}{}
	tc := c.C.Cache()
	if tc == nil {
		return nil, fmt.Errorf("client has no cache")
	}
	for tn := range c.Ctx.Abs.Tables {
		tm := map[string]interface{}{}
		rc := tc.Table(tn)
		if rc != nil {
			for u, m := range rc.Rows() {
				tok, row, err := c.Ctx.ModelToAbs(tn, m)
				if err != nil {
					return nil, err
				}
				if tok != c.Ctx.Tok.ToToken(u) {
					return nil, fmt.Errorf("cached row %s stored under key %s", tok, u)
				}
				tm[tok] = row
			}
		}
		out[tn] = tm
	}
	return out, nil
}

func (c *Client) MonitoredJSON() map[string]interface{} {
	out := map[string]interface{}{}
	for t, cols := range c.Monitored {
		ci := []interface{}{}
		for _, x := range cols {
			ci = append(ci, x)
		}
		out[t] = ci
	}
	return out
}

// Transact runs an abstract transaction through the client API and records it
// as a txn event (src "client") on the instance the client is attached to.
func (c *Client) Transact(in *rectxn.Inst, rec *rectxn.Recorder, aops []abs.AOp) (map[string]interface{}, error) {
	ops := make([]ovsdb.Operation, 0, len(aops))
	for _, a := range aops {
		o, err := c.Ctx.ToOp(a)
		if err != nil {
			return nil, err
		}
		ops = append(ops, o)
	}
	cctx, cancel := context.WithTimeout(context.Background(), 20*time.Second)
	defer cancel()
	res, err := c.C.Transact(cctx, ops...)
	if err != nil {
		return nil, fmt.Errorf("client transact: %v", err)
	}
	// the cache as the caller sees it when Transact returns
	snap, err := c.Snapshot()
	if err != nil {
		return nil, err
	}
	ptr := make([]*ovsdb.OperationResult, len(res))
	for i := range res {
		r := res[i]
		// the client decodes a null result as an empty one; a failed
		// transaction's padding is recognised by its position
		ptr[i] = &r
	}
	dump, err := in.RecordTxn(rec, aops, ptr, "", true)
	if err != nil {
		return nil, err
	}
	if err := rec.Emit(map[string]interface{}{"ev": "cache", "db": in.ID, "cli": c.ID, "when": "transact-returned",
		"monitored": c.MonitoredJSON(), "rows": snap}); err != nil {
		return nil, err
	}
	return dump, nil
}

// EmitCache records the client's cache.
func (c *Client) EmitCache(rec *rectxn.Recorder, db int, when string) error {
	snap, err := c.Snapshot()
	if err != nil {
		return err
	}
	return rec.Emit(map[string]interface{}{"ev": "cache", "db": db, "cli": c.ID, "when": when,
		"monitored": c.MonitoredJSON(), "rows": snap})
}

// RandomMonitorTables picks a non-empty subset of the tables the client does
// not monitor yet, with a random subset of their columns.
func (c *Client) RandomMonitorTables(rnd *rand.Rand, all bool) map[string][]string {
	var free []string
	for _, t := range c.Ctx.Abs.TableNames() {
		if _, ok := c.Monitored[t]; !ok {
			free = append(free, t)
		}
	}
	if len(free) == 0 {
		return nil
	}
	out := map[string][]string{}
	for _, t := range free {
		if !all && rnd.Intn(2) == 0 && len(out) > 0 {
			continue
		}
		var cols []string
		for _, cn := range c.Ctx.Abs.Tables[t].ColNames() {
			if all || rnd.Intn(5) != 0 {
				cols = append(cols, cn)
			}
		}
		if len(cols) == 0 {
			cols = c.Ctx.Abs.Tables[t].ColNames()[:1]
		}
		out[t] = cols
		if !all && rnd.Intn(3) == 0 {
			break
		}
	}
	return out
}
