package recsess

import (
	"context"
	"fmt"
	"math/rand"
	"os"
	"path/filepath"
	"time"

	"github.com/cenkalti/backoff/v4"
	"github.com/go-logr/logr"
	"github.com/ovn-org/libovsdb/client"
	"github.com/ovn-org/libovsdb/database/inmemory"
	"github.com/ovn-org/libovsdb/model"
	"github.com/ovn-org/libovsdb/ovsdb"
	"github.com/ovn-org/libovsdb/ovsdb/serverdb"
	"github.com/ovn-org/libovsdb/server"

	"vh/abs"
	"vh/rectxn"
)

type LeaderEvent struct {
	E string `json:"e"`
	B bool   `json:"b"`
}

type LeaderCase struct {
	Init   map[string]bool `json:"init"`
	Events []LeaderEvent   `json:"events"`
}

// one endpoint: a server with the user database and _Server
type endpoint struct {
	name string
	sock string
	srv  *server.OvsdbServer
	adm  client.Client      // administers the _Server row
	row  *serverdb.Database // its Database row
	wr   client.Client      // writes to the user database
}

func newEndpoint(name string, b *abs.Built, dir string, leader bool) (*endpoint, error) {
	sdbm, err := serverdb.FullDatabaseModel()
	if err != nil {
		return nil, err
	}
	sschema := serverdb.Schema()
	db := inmemory.NewDatabase(map[string]model.ClientDBModel{b.Abs.Name: b.ClientDB, sschema.Name: sdbm})
	servMod, errs := model.NewDatabaseModel(sschema, sdbm)
	if len(errs) > 0 {
		return nil, errs[0]
	}
	srv, err := server.NewOvsdbServer(db, b.DBModel, servMod)
	if err != nil {
		return nil, err
	}
	ep := &endpoint{name: name, srv: srv, sock: filepath.Join(dir, fmt.Sprintf("ep%s-%d.sock", name, rand.Int63()))}
	go func() { _ = srv.Serve("unix", ep.sock) }()
	for i := 0; i < 200 && !srv.Ready(); i++ {
		time.Sleep(5 * time.Millisecond)
	}
	l := logr.Discard()
	ctx, cancel := context.WithTimeout(context.Background(), 5*time.Second)
	defer cancel()
	if ep.adm, err = client.NewOVSDBClient(sdbm, client.WithEndpoint("unix:"+ep.sock), client.WithLogger(&l)); err != nil {
		return nil, err
	}
	if err = ep.adm.Connect(ctx); err != nil {
		return nil, err
	}
	sid := "sid-" + name
	ep.row = &serverdb.Database{UUID: map[string]string{"A": "00000000-0000-4000-8000-0000000000a1", "B": "00000000-0000-4000-8000-0000000000b1"}[name],
		Name: b.Abs.Name, Connected: true, Leader: leader, Model: serverdb.DatabaseModelClustered, Sid: &sid}
	ops, err := ep.adm.Create(ep.row)
	if err != nil {
		return nil, err
	}
	reply, err := ep.adm.Transact(ctx, ops...)
	if err != nil {
		return nil, err
	}
	if _, err := ovsdb.CheckOperationResults(reply, ops); err != nil {
		return nil, err
	}
	ep.row.UUID = reply[0].UUID.GoUUID
	// as a real ovsdb-server does, the table also lists the _Server database itself: standalone, not clustered
	self := &serverdb.Database{UUID: map[string]string{"A": "00000000-0000-4000-8000-0000000000a2", "B": "00000000-0000-4000-8000-0000000000b2"}[name],
		Name: "_Server", Connected: true, Leader: true, Model: serverdb.DatabaseModelStandalone}
	sops, err := ep.adm.Create(self)
	if err != nil {
		return nil, err
	}
	sreply, err := ep.adm.Transact(ctx, sops...)
	if err != nil {
		return nil, err
	}
	if _, err := ovsdb.CheckOperationResults(sreply, sops); err != nil {
		return nil, err
	}
	if ep.wr, err = client.NewOVSDBClient(b.ClientDB, client.WithEndpoint("unix:"+ep.sock), client.WithLogger(&l)); err != nil {
		return nil, err
	}
	if err = ep.wr.Connect(ctx); err != nil {
		return nil, err
	}
	return ep, nil
}

func (ep *endpoint) setLeader(b bool) error {
	ep.row.Leader = b
	ops, err := ep.adm.Where(ep.row).Update(ep.row, &ep.row.Leader)
	if err != nil {
		return err
	}
	ctx, cancel := context.WithTimeout(context.Background(), 5*time.Second)
	defer cancel()
	reply, err := ep.adm.Transact(ctx, ops...)
	if err != nil {
		return err
	}
	_, err = ovsdb.CheckOperationResults(reply, ops)
	return err
}

// write puts a row named <endpoint>-<n> into T1 of this endpoint's database
func (ep *endpoint) write(n int) error {
	ctx, cancel := context.WithTimeout(context.Background(), 5*time.Second)
	defer cancel()
	_, err := ep.wr.Transact(ctx, ovsdb.Operation{Op: "insert", Table: "T1", Row: ovsdb.Row{"name": fmt.Sprintf("%s-%d", ep.name, n), "v": n}})
	return err
}

func (ep *endpoint) close() {
	ep.adm.Close()
	ep.wr.Close()
	ep.srv.Close()
	os.Remove(ep.sock)
}

// RunLeader: a leader-only client with two endpoints through a leadership history.
func RunLeader(b *abs.Built, dir string, id int, c LeaderCase, rec *rectxn.Recorder) error {
	eps := map[string]*endpoint{}
	for _, n := range []string{"A", "B"} {
		ep, err := newEndpoint(n, b, dir, c.Init[n])
		if err != nil {
			return fmt.Errorf("endpoint %s: %v", n, err)
		}
		defer ep.close()
		eps[n] = ep
		for i := 0; i < 2; i++ {
			if err := ep.write(i); err != nil {
				return err
			}
		}
	}
	l := logr.Discard()
	cl, err := client.NewOVSDBClient(b.ClientDB, client.WithEndpoint("unix:"+eps["A"].sock), client.WithEndpoint("unix:"+eps["B"].sock),
		client.WithLeaderOnly(true), client.WithLogger(&l), client.WithReconnect(2*time.Second, backoff.NewConstantBackOff(10*time.Millisecond)))
	if err != nil {
		return err
	}
	defer cl.Close()
	ctx, cancel := context.WithTimeout(context.Background(), 3*time.Second)
	cerr := cl.Connect(ctx)
	cancel()
	monitored := false
	monitor := func() {
		if monitored || !cl.Connected() {
			return
		}
		mctx, mcancel := context.WithTimeout(context.Background(), 2*time.Second)
		defer mcancel()
		if _, err := cl.Monitor(mctx, &client.Monitor{Method: ovsdb.ConditionalMonitorSinceRPC, Tables: []client.TableMonitor{{Table: "T1"}}}); err == nil {
			monitored = true
		}
	}
	if cerr == nil {
		monitor()
	}
	n := 10
	for _, e := range c.Events {
		if err := eps[e.E].setLeader(e.B); err != nil {
			return err
		}
		n++
		for _, ep := range eps {
			if err := ep.write(n); err != nil {
				return err
			}
		}
		time.Sleep(120 * time.Millisecond)
		if !monitored && !cl.Connected() {
			// the first Connect found no leader: a client keeps trying
			ctx, cancel := context.WithTimeout(context.Background(), 500*time.Millisecond)
			if cl.Connect(ctx) == nil {
				monitor()
			}
			cancel()
		}
		monitor()
	}
	final := map[string]bool{}
	for k, v := range c.Init {
		final[k] = v
	}
	for _, e := range c.Events {
		final[e.E] = e.B
	}
	anyLeader := final["A"] || final["B"]
	attached := func() string {
		if !cl.Connected() {
			return ""
		}
		cur := cl.CurrentEndpoint()
		for n, ep := range eps {
			if cur == "unix:"+ep.sock {
				return n
			}
		}
		return "?" + cur
	}
	mirrors := func() string {
		tc := cl.Cache()
		if tc == nil || tc.Table("T1") == nil {
			return ""
		}
		names := map[string]int{}
		rows := tc.Table("T1").Rows()
		for _, m := range rows {
			_, row, err := (&abs.Ctx{Built: b, Tok: abs.NewTokens()}).ModelToAbs("T1", m)
			if err != nil {
				return "?"
			}
			if s, ok := row["name"].(string); ok && len(s) > 0 {
				names[s[:1]]++
			}
		}
		// exactly the rows of one endpoint's database (2 initial + one per event)
		want := 2 + len(c.Events)
		if len(names) == 1 && len(rows) == want {
			for k := range names {
				return k
			}
		}
		return fmt.Sprintf("mixed%v/%d", names, len(rows))
	}
	deadline := time.Now().Add(6 * time.Second)
	att, mir := "", ""
	for time.Now().Before(deadline) {
		if !monitored && !cl.Connected() && anyLeader {
			ctx, cancel := context.WithTimeout(context.Background(), 500*time.Millisecond)
			if cl.Connect(ctx) == nil {
				monitor()
			}
			cancel()
		}
		monitor()
		att, mir = attached(), mirrors()
		if anyLeader && att != "" && final[att] && mir == att {
			break
		}
		if !anyLeader && att == "" && time.Until(deadline) < 4*time.Second {
			break
		}
		time.Sleep(20 * time.Millisecond)
	}
	if !monitored {
		mir = att // nothing to mirror without a monitor: the run never got a connection to a leader
	}
	evs := []interface{}{}
	for _, e := range c.Events {
		evs = append(evs, map[string]interface{}{"e": e.E, "b": e.B})
	}
	return rec.Emit(map[string]interface{}{"ev": "leader", "id": id, "init": c.Init, "events": evs, "connected": cl.Connected(), "attached": att, "mirrors": mir, "monitored": monitored})
}
