package recsess

import (
	"context"
	"encoding/json"
	"fmt"
	"reflect"
	"sort"
	"time"

	"github.com/ovn-org/libovsdb/client"
	"github.com/ovn-org/libovsdb/model"
	"github.com/ovn-org/libovsdb/ovsdb"

	"vh/abs"
	"vh/rectxn"
)

// The model API cases of MC_Api.tla (Api.tla): each call is made on a client whose
// cache mirrors a server holding the case's rows; the operations the API returns are
// sent through Transact and the outcome is recorded as an "apitxn" event, which
// TraceApi.tla judges against the operations the call stands for.

type APIModel struct {
	UUID string                 `json:"uuid"`
	Cols map[string]interface{} `json:"cols"`
}

type APISel struct {
	Form   string          `json:"form"`
	Models []APIModel      `json:"models"`
	Conds  [][]interface{} `json:"conds"`
}

type APICall struct {
	Kind   string          `json:"kind"`
	Table  string          `json:"table"`
	Sel    APISel          `json:"sel"`
	Models []APIModel      `json:"models"`
	Fields []string        `json:"fields"`
	Muts   [][]interface{} `json:"muts"`
	Until  string          `json:"until"`
}

// RowsJ: uuid token -> row; TLC prints the empty function as []
type RowsJ map[string]map[string]interface{}

func (r *RowsJ) UnmarshalJSON(b []byte) error {
	*r = RowsJ{}
	if len(b) > 0 && b[0] == '[' {
		return nil
	}
	m := map[string]map[string]interface{}{}
	if err := json.Unmarshal(b, &m); err != nil {
		return err
	}
	*r = m
	return nil
}

type APICase struct {
	DB   RowsJ           `json:"db"`
	DBI  int             `json:"dbi"`
	Call APICall         `json:"call"`
	Raw  json.RawMessage `json:"-"`
}

type APIRunner struct {
	In  *rectxn.Inst
	Cli *Client
}

func NewAPIRunner(dir string, schema *abs.Schema) (*APIRunner, error) {
	b, err := abs.Build(schema, false)
	if err != nil {
		return nil, err
	}
	in, err := rectxn.NewInst(0, b, abs.NewTokens(), true, dir)
	if err != nil {
		return nil, err
	}
	cli, err := NewClient(1, in.Ctx, in.Sock, false)
	if err != nil {
		in.Close()
		return nil, err
	}
	tables := map[string][]string{}
	for tn, t := range in.Ctx.Abs.Tables {
		tables[tn] = t.ColNames()
	}
	if _, err := cli.Monitor("monitor_cond_since", tables); err != nil {
		cli.C.Close()
		in.Close()
		return nil, err
	}
	return &APIRunner{In: in, Cli: cli}, nil
}

func (a *APIRunner) Close() {
	a.Cli.C.Close()
	a.In.Close()
}

func (a *APIRunner) transact(ops ...ovsdb.Operation) ([]ovsdb.OperationResult, error) {
	c, cancel := context.WithTimeout(context.Background(), 20*time.Second)
	defer cancel()
	return a.Cli.C.Transact(c, ops...)
}

// Load replaces the database contents with rows (through the client, whose cache
// therefore is synchronised when Transact returns) and emits a sync event.
func (a *APIRunner) Load(rec *rectxn.Recorder, rows map[string]RowsJ) error {
	tables := []string{}
	for tn := range a.In.Ctx.Abs.Tables {
		tables = append(tables, tn)
	}
	sort.Strings(tables)
	var del []ovsdb.Operation
	for _, tn := range tables {
		del = append(del, ovsdb.Operation{Op: "delete", Table: tn, Where: []ovsdb.Condition{}})
	}
	// a set-up transaction the database refuses is an observation, not a failure of the harness
	setup := func(what string, res []ovsdb.OperationResult, err error) error {
		msg := ""
		if err != nil {
			msg = err.Error()
		}
		for _, r := range res {
			if r.Error != "" && msg == "" {
				msg = r.Error + " " + r.Details
			}
		}
		if msg == "" {
			return nil
		}
		return rec.Emit(map[string]interface{}{"ev": "setup", "db": a.In.ID, "ok": false, "what": what, "err": msg})
	}
	res, err := a.transact(del...)
	if err := setup("delete every row of every table", res, err); err != nil {
		return err
	}
	var ins []ovsdb.Operation
	for _, tn := range tables {
		us := []string{}
		for u := range rows[tn] {
			us = append(us, u)
		}
		sort.Strings(us)
		for _, u := range us {
			row := map[string]interface{}{}
			for cn, v := range rows[tn][u] {
				if !abs.IsDefaultAbs(a.In.Ctx.Abs.Tables[tn].Cols[cn], v) {
					row[cn] = v
				}
			}
			orow, err := a.In.Ctx.AbsToOvsRow(tn, row)
			if err != nil {
				return err
			}
			ins = append(ins, ovsdb.Operation{Op: "insert", Table: tn, UUID: a.In.Ctx.Tok.ToReal(u), Row: orow})
		}
	}
	if len(ins) > 0 {
		res, err := a.transact(ins...)
		if err := setup("insert the rows of the case", res, err); err != nil {
			return err
		}
	}
	return a.Sync(rec)
}

// Sync emits the database as it stands.
func (a *APIRunner) Sync(rec *rectxn.Recorder) error {
	dump, _, err := a.In.Observe()
	if err != nil {
		return err
	}
	return rec.Emit(map[string]interface{}{"ev": "sync", "db": a.In.ID, "post": dump})
}

func (a *APIRunner) model(table string, m APIModel) (model.Model, error) {
	return a.In.Ctx.AbsToModel(table, m.UUID, m.Cols)
}

func fieldPtr(m model.Model, col string) (interface{}, error) {
	f := reflect.ValueOf(m).Elem().FieldByName(abs.FieldName(col))
	if !f.IsValid() {
		return nil, fmt.Errorf("model has no field for column %s", col)
	}
	return f.Addr().Interface(), nil
}

// native value of a condition / mutation argument
func (a *APIRunner) native(table, col string, v interface{}, shape string) (interface{}, error) {
	c, ok := a.In.Ctx.Abs.Tables[table].Cols[col]
	if !ok {
		return nil, fmt.Errorf("no column %s.%s", table, col)
	}
	switch shape {
	case "atom":
		n, err := a.In.Ctx.Tok.AtomFromAbs(c.Key.T, v)
		if err != nil {
			// a deliberately ill-typed argument: handed to the API as it is
			return rawNative(v), nil
		}
		return n, nil
	case "keys":
		keys := reflect.MakeSlice(reflect.SliceOf(abs.GoAtomType(c.Key.T)), 0, 0)
		for _, k := range v.([]interface{}) {
			n, err := a.In.Ctx.Tok.AtomFromAbs(c.Key.T, k)
			if err != nil {
				return nil, err
			}
			keys = reflect.Append(keys, reflect.ValueOf(n))
		}
		return keys.Interface(), nil
	default:
		n, err := a.In.Ctx.Tok.FromAbs(c, v)
		if err != nil {
			return rawNative(v), nil
		}
		return n, nil
	}
}

// rawNative gives a JSON value a plain Go type (int, string, []string, []int).
func rawNative(v interface{}) interface{} {
	switch x := v.(type) {
	case float64:
		if x == float64(int(x)) {
			return int(x)
		}
	case []interface{}:
		strs, ints := []string{}, []int{}
		for _, e := range x {
			switch y := e.(type) {
			case string:
				strs = append(strs, y)
			case float64:
				ints = append(ints, int(y))
			}
		}
		if len(strs) == len(x) {
			return strs
		}
		if len(ints) == len(x) {
			return ints
		}
	}
	return v
}

func (a *APIRunner) conditional(call APICall) (client.ConditionalAPI, error) {
	t := call.Table
	switch call.Sel.Form {
	case "models":
		var ms []model.Model
		for _, m := range call.Sel.Models {
			mm, err := a.model(t, m)
			if err != nil {
				return nil, err
			}
			ms = append(ms, mm)
		}
		return a.Cli.C.Where(ms...), nil
	case "all", "any":
		m := reflect.New(a.In.Ctx.Types[t]).Interface()
		var conds []model.Condition
		for _, cd := range call.Sel.Conds {
			col := cd[0].(string)
			f, err := fieldPtr(m, col)
			if err != nil {
				return nil, err
			}
			v, err := a.native(t, col, cd[2], cd[3].(string))
			if err != nil {
				return nil, err
			}
			conds = append(conds, model.Condition{Field: f, Function: ovsdb.ConditionFunction(cd[1].(string)), Value: v})
		}
		if call.Sel.Form == "all" {
			return a.Cli.C.WhereAll(m, conds...), nil
		}
		return a.Cli.C.WhereAny(m, conds...), nil
	}
	return nil, fmt.Errorf("unknown selection form %q", call.Sel.Form)
}

// Ops makes the call on the real API; a panic inside the library is reported as the call's error.
func (a *APIRunner) Ops(call APICall) (ops []ovsdb.Operation, apiErr error, err error) {
	defer func() {
		if r := recover(); r != nil {
			ops, apiErr, err = nil, fmt.Errorf("panic: %v", r), nil
		}
	}()
	return a.ops(call)
}

func (a *APIRunner) ops(call APICall) ([]ovsdb.Operation, error, error) {
	t := call.Table
	if call.Kind == "create" {
		var ms []model.Model
		for _, m := range call.Models {
			mm, err := a.model(t, m)
			if err != nil {
				return nil, nil, err
			}
			ms = append(ms, mm)
		}
		ops, err := a.Cli.C.Create(ms...)
		return ops, err, nil
	}
	capi, err := a.conditional(call)
	if err != nil {
		return nil, nil, err
	}
	var m model.Model
	var fields []interface{}
	if len(call.Models) > 0 {
		if m, err = a.model(t, call.Models[0]); err != nil {
			return nil, nil, err
		}
		for _, f := range call.Fields {
			p, err := fieldPtr(m, f)
			if err != nil {
				return nil, nil, err
			}
			fields = append(fields, p)
		}
	}
	switch call.Kind {
	case "update":
		ops, err := capi.Update(m, fields...)
		return ops, err, nil
	case "delete":
		ops, err := capi.Delete()
		return ops, err, nil
	case "mutate":
		var muts []model.Mutation
		for _, mu := range call.Muts {
			col := mu[0].(string)
			p, err := fieldPtr(m, col)
			if err != nil {
				return nil, nil, err
			}
			v, err := a.native(t, col, mu[2], mu[3].(string))
			if err != nil {
				return nil, nil, err
			}
			muts = append(muts, model.Mutation{Field: p, Mutator: ovsdb.Mutator(mu[1].(string)), Value: v})
		}
		ops, err := capi.Mutate(m, muts...)
		return ops, err, nil
	case "wait":
		zero := 0
		ops, err := capi.Wait(ovsdb.WaitCondition(call.Until), &zero, m, fields...)
		return ops, err, nil
	}
	return nil, nil, fmt.Errorf("unknown call kind %q", call.Kind)
}

// list reports the rows the call's selection lists on the client's cache.
func (a *APIRunner) list(call APICall) (out []interface{}, listErr string, err error) {
	defer func() {
		if r := recover(); r != nil {
			out, listErr, err = []interface{}{}, fmt.Sprintf("panic: %v", r), nil
		}
	}()
	return a.list1(call)
}

func (a *APIRunner) list1(call APICall) ([]interface{}, string, error) {
	out := []interface{}{}
	if call.Kind == "create" {
		return out, "", nil
	}
	capi, err := a.conditional(call)
	if err != nil {
		return nil, "", err
	}
	res := reflect.New(reflect.SliceOf(reflect.PtrTo(a.In.Ctx.Types[call.Table])))
	c, cancel := context.WithTimeout(context.Background(), 10*time.Second)
	defer cancel()
	if err := capi.List(c, res.Interface()); err != nil {
		if err == client.ErrNotFound {
			return out, "", nil
		}
		return out, err.Error(), nil
	}
	us := []string{}
	for i := 0; i < res.Elem().Len(); i++ {
		us = append(us, a.In.Ctx.Tok.ToToken(res.Elem().Index(i).Elem().FieldByName("UUID").String()))
	}
	sort.Strings(us)
	for _, u := range us {
		out = append(out, u)
	}
	return out, "", nil
}

// Run makes one call on the database as it stands and records the outcome.
func (a *APIRunner) Run(rec *rectxn.Recorder, call APICall, raw interface{}) error {
	listed, listErr, err := a.list(call)
	if err != nil {
		return err
	}
	ops, apiErr, err := a.Ops(call)
	if err != nil {
		return err
	}
	var results []*ovsdb.OperationResult
	commitErr := ""
	if apiErr == nil && len(ops) > 0 {
		res, err := a.transact(ops...)
		if err != nil {
			commitErr = err.Error()
		}
		for i := range res {
			r := res[i]
			results = append(results, &r)
		}
	}
	if results == nil {
		results = []*ovsdb.OperationResult{}
	}
	// the abstract operations are the specification's to derive; the results are read in the light of the call
	var aops []abs.AOp
	n := len(results)
	for i := 0; i < n; i++ {
		o := abs.AOp{Table: call.Table}
		switch call.Kind {
		case "create":
			o.Op = "insert"
			o.NoUUID = true
		default:
			o.Op = call.Kind
		}
		o.Normalize()
		aops = append(aops, o)
	}
	a.In.Decorate = func(ev map[string]interface{}) {
		ev["ev"] = "apitxn"
		ev["call"] = raw
		ev["apiErr"] = apiErr != nil
		ev["apiErrText"] = ""
		if apiErr != nil {
			ev["apiErrText"] = apiErr.Error()
		}
		ev["nops"] = len(ops)
		ev["listed"] = listed
		ev["listErr"] = listErr
		ev["ops"] = []interface{}{}
		ev["notifs"] = []interface{}{}
	}
	defer func() { a.In.Decorate = nil }()
	_, err = a.In.RecordTxn(rec, aops, results, commitErr, true)
	return err
}
