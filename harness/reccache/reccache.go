// Package reccache replays TLC-enumerated cache batches (MC_Cache CASE lines)
// on the real cache.RowCache / cache.TableCache in every application order and
// records what the cache then answers, for TraceCache.tla.
package reccache

import (
	"encoding/json"
	"fmt"
	"reflect"
	"sort"

	"github.com/ovn-org/libovsdb/cache"
	"github.com/ovn-org/libovsdb/model"
	"github.com/ovn-org/libovsdb/ovsdb"

	"vh/abs"
)

type IndexSpec struct {
	Name string   `json:"name"`
	Type string   `json:"type"`
	Cols []string `json:"cols"`
}

type Config struct {
	ID      string      `json:"id"`
	F2Col   string      `json:"f2col"`
	Indexes []IndexSpec `json:"indexes"`
}

type Row struct {
	F1 string `json:"f1"`
	F2 string `json:"f2"`
}

type Case struct {
	Cfg  Config         `json:"cfg"`
	Pre  map[string]Row `json:"pre"`
	Post map[string]Row `json:"post"`
}

func (c *Case) UnmarshalJSON(b []byte) error {
	// TLC prints an empty function as []
	var raw struct {
		Cfg  Config          `json:"cfg"`
		Pre  json.RawMessage `json:"pre"`
		Post json.RawMessage `json:"post"`
	}
	if err := json.Unmarshal(b, &raw); err != nil {
		return err
	}
	c.Cfg = raw.Cfg
	c.Pre, c.Post = map[string]Row{}, map[string]Row{}
	if len(raw.Pre) > 0 && raw.Pre[0] == '{' {
		if err := json.Unmarshal(raw.Pre, &c.Pre); err != nil {
			return err
		}
	}
	if len(raw.Post) > 0 && raw.Post[0] == '{' {
		if err := json.Unmarshal(raw.Post, &c.Post); err != nil {
			return err
		}
	}
	return nil
}

// column of the real table a field stands for
func (cfg Config) col(f string) string {
	if f == "f1" {
		return "k"
	}
	return cfg.F2Col
}

// Schema builds the abstract schema of the configuration.
func (cfg Config) Schema() *abs.Schema {
	t := abs.Table{IsRoot: true, Cols: map[string]abs.Col{
		"k":  {Key: abs.BaseT{T: "string"}, Min: 1, Max: 1, Mut: true},
		"k2": {Key: abs.BaseT{T: "string"}, Min: 1, Max: 1, Mut: true},
		"o":  {Key: abs.BaseT{T: "string"}, Min: 0, Max: 1, Mut: true},
		"m":  {Key: abs.BaseT{T: "string"}, Val: abs.BaseT{T: "string"}, Min: 0, Max: -1, Mut: true},
	}}
	for _, ix := range cfg.Indexes {
		if ix.Type == "schema" {
			var cols []string
			for _, f := range ix.Cols {
				cols = append(cols, cfg.col(f))
			}
			t.Indexes = append(t.Indexes, cols)
		} else {
			var cks []abs.CKey
			for _, f := range ix.Cols {
				ck := abs.CKey{Col: cfg.col(f)}
				if f == "f2" && cfg.F2Col == "m" {
					ck.Key = "key"
				}
				cks = append(cks, ck)
			}
			t.CIdx = append(t.CIdx, cks)
		}
	}
	return &abs.Schema{Name: "cdb", Tables: map[string]abs.Table{"T": t}}
}

type env struct {
	cfg Config
	b   *abs.Built
	tok *abs.Tokens
}

func (e *env) model(u string, r Row) model.Model {
	p := reflect.New(e.b.Types["T"])
	p.Elem().FieldByName("UUID").SetString(e.tok.ToReal(u))
	p.Elem().FieldByName("F_k").SetString(r.F1)
	switch e.cfg.F2Col {
	case "k2":
		p.Elem().FieldByName("F_k2").SetString(r.F2)
	case "o":
		if r.F2 != "nil" {
			s := r.F2
			p.Elem().FieldByName("F_o").Set(reflect.ValueOf(&s))
		}
	case "m":
		if r.F2 != "nil" {
			p.Elem().FieldByName("F_m").Set(reflect.ValueOf(map[string]string{"key": r.F2}))
		}
	}
	return p.Interface()
}

func (e *env) rowOf(m model.Model) Row {
	v := reflect.ValueOf(m).Elem()
	r := Row{F1: v.FieldByName("F_k").String(), F2: "nil"}
	switch e.cfg.F2Col {
	case "k2":
		r.F2 = v.FieldByName("F_k2").String()
	case "o":
		if p := v.FieldByName("F_o"); !p.IsNil() {
			r.F2 = p.Elem().String()
		}
	case "m":
		mv := v.FieldByName("F_m")
		if mv.IsValid() && !mv.IsNil() {
			if x := mv.MapIndex(reflect.ValueOf("key")); x.IsValid() {
				r.F2 = x.String()
			}
		}
	}
	return r
}

// orderedUpdate is a cache update that hands out its rows in a fixed order.
type orderedUpdate struct {
	rows []change
}

type change struct {
	uuid     string
	old, new model.Model
}

func (o orderedUpdate) GetUpdatedTables() []string { return []string{"T"} }
func (o orderedUpdate) ForEachModelUpdate(table string, do func(uuid string, old, new model.Model) error) error {
	for _, c := range o.rows {
		if err := do(c.uuid, c.old, c.new); err != nil {
			return err
		}
	}
	return nil
}

func permutations(xs []string) [][]string {
	if len(xs) <= 1 {
		return [][]string{append([]string{}, xs...)}
	}
	var out [][]string
	for i := range xs {
		rest := append(append([]string{}, xs[:i]...), xs[i+1:]...)
		for _, p := range permutations(rest) {
			out = append(out, append([]string{xs[i]}, p...))
		}
	}
	return out
}

// Run executes one case in every order and on every path; emit is called
// with one event per execution.
var built = map[string]*abs.Built{}

func Run(c Case, emit func(map[string]interface{}) error) error {
	b := built[c.Cfg.ID]
	if b == nil {
		var err error
		b, err = abs.Build(c.Cfg.Schema(), true)
		if err != nil {
			return err
		}
		built[c.Cfg.ID] = b
	}
	e := &env{cfg: c.Cfg, b: b, tok: abs.NewTokens()}
	var changed []string
	for u := range c.Pre {
		if p, ok := c.Post[u]; !ok || p != c.Pre[u] {
			changed = append(changed, u)
		}
	}
	for u := range c.Post {
		if _, ok := c.Pre[u]; !ok {
			changed = append(changed, u)
		}
	}
	sort.Strings(changed)
	for _, path := range []string{"apply", "direct", "populate2"} {
		orders := permutations(changed)
		if path == "populate2" {
			orders = [][]string{changed, changed} // the order is the implementation's (map iteration)
		}
		for _, order := range orders {
			ev, err := e.runOnce(c, path, order)
			if err != nil {
				return err
			}
			if err := emit(ev); err != nil {
				return err
			}
		}
	}
	return nil
}

func (e *env) runOnce(c Case, path string, order []string) (map[string]interface{}, error) {
	tc, err := cache.NewTableCache(e.b.DBModel, nil, nil)
	if err != nil {
		return nil, err
	}
	rc := tc.Table("T")
	pre := []string{}
	for u := range c.Pre {
		pre = append(pre, u)
	}
	sort.Strings(pre)
	for _, u := range pre {
		if err := rc.Create(e.tok.ToReal(u), e.model(u, c.Pre[u]), true); err != nil {
			return nil, fmt.Errorf("building the state before: %v", err)
		}
	}
	applyErr := ""
	switch path {
	case "apply":
		var upd orderedUpdate
		for _, u := range order {
			ch := change{uuid: e.tok.ToReal(u)}
			if r, ok := c.Pre[u]; ok {
				ch.old = e.model(u, r)
			}
			if r, ok := c.Post[u]; ok {
				ch.new = e.model(u, r)
			}
			upd.rows = append(upd.rows, ch)
		}
		if err := tc.ApplyCacheUpdate(upd); err != nil {
			applyErr = err.Error()
		}
	case "direct":
		for _, u := range order {
			ru := e.tok.ToReal(u)
			_, inPre := c.Pre[u]
			post, inPost := c.Post[u]
			var err error
			switch {
			case !inPre:
				err = rc.Create(ru, e.model(u, post), false)
			case !inPost:
				err = rc.Delete(ru)
			default:
				_, err = rc.Update(ru, e.model(u, post), false)
			}
			if err != nil {
				applyErr = err.Error()
				break
			}
		}
	case "populate2":
		tu := ovsdb.TableUpdate2{}
		for _, u := range order {
			ru := e.tok.ToReal(u)
			pr, inPre := c.Pre[u]
			post, inPost := c.Post[u]
			switch {
			case !inPre:
				row, err := e.ovsRow(post, nil)
				if err != nil {
					return nil, err
				}
				tu[ru] = &ovsdb.RowUpdate2{Insert: &row}
			case !inPost:
				tu[ru] = &ovsdb.RowUpdate2{Delete: &ovsdb.Row{}}
			default:
				row, err := e.ovsRow(post, &pr)
				if err != nil {
					return nil, err
				}
				tu[ru] = &ovsdb.RowUpdate2{Modify: &row}
			}
		}
		if err := tc.Populate2(ovsdb.TableUpdates2{"T": tu}); err != nil {
			applyErr = err.Error()
		}
	}
	// ---- observe
	rows := map[string]interface{}{}
	for u, m := range rc.Rows() {
		rows[e.tok.ToToken(u)] = e.rowOf(m)
	}
	idx := map[string]interface{}{}
	for _, ix := range e.cfg.Indexes {
		groups, err := e.indexGroups(rc, ix)
		if err != nil {
			return nil, err
		}
		idx[ix.Name] = groups
	}
	lookups, err := e.lookups(rc, c)
	if err != nil {
		return nil, err
	}
	// the indexes again, after the look-ups
	idx2 := map[string]interface{}{}
	for _, ix := range e.cfg.Indexes {
		groups, err := e.indexGroups(rc, ix)
		if err != nil {
			return nil, err
		}
		idx2[ix.Name] = groups
	}
	ord := make([]interface{}, len(order))
	for i, u := range order {
		ord[i] = u
	}
	return map[string]interface{}{"ev": "cache", "cfg": e.cfg, "pre": rowsJSON(c.Pre), "post": rowsJSON(c.Post),
		"order": ord, "path": path, "err": applyErr, "rows": rows, "idx": idx, "lookups": lookups, "idx2": idx2}, nil
}

func rowsJSON(m map[string]Row) map[string]interface{} {
	out := map[string]interface{}{}
	for u, r := range m {
		out[u] = r
	}
	return out
}

// ovsRow renders a row (or, with old given, the update2 difference old -> new).
func (e *env) ovsRow(r Row, old *Row) (ovsdb.Row, error) {
	row := ovsdb.Row{}
	if old == nil || old.F1 != r.F1 {
		row["k"] = r.F1
	}
	if old != nil && old.F2 == r.F2 {
		return row, nil
	}
	switch e.cfg.F2Col {
	case "k2":
		row["k2"] = r.F2
	case "o":
		if r.F2 == "nil" {
			if old != nil {
				row["o"] = ovsdb.OvsSet{GoSet: []interface{}{}}
			}
		} else {
			row["o"] = ovsdb.OvsSet{GoSet: []interface{}{r.F2}}
		}
	case "m":
		d := map[interface{}]interface{}{}
		if old == nil {
			if r.F2 != "nil" {
				d["key"] = r.F2
			}
		} else {
			// update2 map difference: removed pair with its old value, added or changed pair with the new value
			if r.F2 == "nil" {
				d["key"] = old.F2
			} else {
				d["key"] = r.F2
			}
		}
		if len(d) > 0 {
			row["m"] = ovsdb.OvsMap{GoMap: d}
		}
	}
	return row, nil
}

func (e *env) indexCols(ix IndexSpec) []string {
	var cols []string
	for _, f := range ix.Cols {
		c := e.cfg.col(f)
		if f == "f2" && e.cfg.F2Col == "m" {
			c = "m|key"
		}
		cols = append(cols, c)
	}
	return cols
}

// indexGroups returns the index as a sorted list of sorted uuid groups.
func (e *env) indexGroups(rc *cache.RowCache, ix IndexSpec) ([]interface{}, error) {
	m, err := rc.Index(e.indexCols(ix)...)
	if err != nil {
		return nil, fmt.Errorf("Index(%v): %v", e.indexCols(ix), err)
	}
	var groups [][]string
	for _, uuids := range m {
		g := []string{}
		for _, u := range uuids {
			g = append(g, e.tok.ToToken(u))
		}
		sort.Strings(g)
		groups = append(groups, g)
	}
	sort.Slice(groups, func(i, j int) bool { return fmt.Sprint(groups[i]) < fmt.Sprint(groups[j]) })
	out := []interface{}{}
	for _, g := range groups {
		gi := []interface{}{}
		for _, u := range g {
			gi = append(gi, u)
		}
		out = append(out, gi)
	}
	return out, nil
}

func sortedTokens(e *env, m map[string]model.Model) []interface{} {
	us := []string{}
	for u := range m {
		us = append(us, e.tok.ToToken(u))
	}
	sort.Strings(us)
	out := []interface{}{}
	for _, u := range us {
		out = append(out, u)
	}
	return out
}

// lookups probes every read path with every (f1, f2) combination that occurs
// in the case plus one that does not.
func (e *env) lookups(rc *cache.RowCache, c Case) ([]interface{}, error) {
	f1s := map[string]bool{"q": true}
	f2s := map[string]bool{"nil": true}
	for _, m := range []map[string]Row{c.Pre, c.Post} {
		for _, r := range m {
			f1s[r.F1] = true
			f2s[r.F2] = true
		}
	}
	if e.cfg.F2Col == "k2" {
		delete(f2s, "nil")
		f2s["q"] = true
	}
	out := []interface{}{}
	var k1, k2 []string
	for v := range f1s {
		k1 = append(k1, v)
	}
	for v := range f2s {
		k2 = append(k2, v)
	}
	sort.Strings(k1)
	sort.Strings(k2)
	for _, v1 := range k1 {
		for _, v2 := range k2 {
			probe := Row{F1: v1, F2: v2}
			m := e.model("", probe)
			// RowByModel: uuid or schema indexes
			u, _, err := rc.RowByModel(m)
			if err != nil {
				return nil, err
			}
			got := []interface{}{}
			if u != "" {
				got = append(got, e.tok.ToToken(u))
			}
			out = append(out, map[string]interface{}{"via": "byModel", "f1": v1, "f2": v2, "uuids": got})
			ms, err := rc.RowsByModels([]model.Model{m})
			if err != nil {
				return nil, err
			}
			out = append(out, map[string]interface{}{"via": "byModels", "f1": v1, "f2": v2, "uuids": sortedTokens(e, ms)})
			// conditions: f1 alone, f1 and f2
			conds := []ovsdb.Condition{ovsdb.NewCondition("k", ovsdb.ConditionEqual, v1)}
			rs, err := rc.RowsByCondition(conds)
			if err != nil {
				return nil, err
			}
			out = append(out, map[string]interface{}{"via": "cond1", "f1": v1, "f2": v2, "uuids": sortedTokens(e, rs)})
			var c2 *ovsdb.Condition
			switch e.cfg.F2Col {
			case "k2":
				x := ovsdb.NewCondition("k2", ovsdb.ConditionEqual, v2)
				c2 = &x
			case "o":
				set := ovsdb.OvsSet{GoSet: []interface{}{}}
				if v2 != "nil" {
					set.GoSet = append(set.GoSet, v2)
				}
				x := ovsdb.NewCondition("o", ovsdb.ConditionEqual, set)
				c2 = &x
			case "m":
				if v2 != "nil" {
					x := ovsdb.NewCondition("m", ovsdb.ConditionIncludes, ovsdb.OvsMap{GoMap: map[interface{}]interface{}{"key": v2}})
					c2 = &x
				}
			}
			if c2 != nil {
				rs, err := rc.RowsByCondition([]ovsdb.Condition{conds[0], *c2})
				if err != nil {
					return nil, err
				}
				out = append(out, map[string]interface{}{"via": "cond12", "f1": v1, "f2": v2, "uuids": sortedTokens(e, rs)})
				rs, err = rc.RowsByCondition([]ovsdb.Condition{*c2})
				if err != nil {
					return nil, err
				}
				out = append(out, map[string]interface{}{"via": "cond2", "f1": v1, "f2": v2, "uuids": sortedTokens(e, rs)})
			}
		}
	}
	return out, nil
}
