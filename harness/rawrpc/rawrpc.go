// Package rawrpc is a minimal JSON-RPC 1.0 endpoint speaking OVSDB's wire
// protocol directly, so that the harness observes exactly what the server
// puts on the wire (and can play a scripted server towards a real client).
package rawrpc

import (
	"encoding/json"
	"fmt"
	"io"
	"net"
	"sync"
	"time"
)

type Msg struct {
	Method string            `json:"method,omitempty"`
	Params json.RawMessage   `json:"params,omitempty"`
	ID     *json.RawMessage  `json:"id"`
	Result *json.RawMessage  `json:"result,omitempty"`
	Error  *json.RawMessage  `json:"error,omitempty"`
	Extra  map[string]string `json:"-"`
}

// Conn is one side of a JSON-RPC connection.
type Conn struct {
	c       net.Conn
	enc     *json.Encoder
	wmu     sync.Mutex
	mu      sync.Mutex
	nextID  int
	pending map[string]chan Msg
	// OnRequest handles requests / notifications from the other side and
	// returns the result to send back (ignored for notifications, id null).
	OnRequest func(method string, params json.RawMessage) (interface{}, error)
	closed    chan struct{}
	Err       error
}

func Dial(network, addr string) (*Conn, error) {
	c, err := net.Dial(network, addr)
	if err != nil {
		return nil, err
	}
	return New(c), nil
}

func New(c net.Conn) *Conn {
	r := &Conn{c: c, enc: json.NewEncoder(c), pending: map[string]chan Msg{}, closed: make(chan struct{})}
	return r
}

// Start begins reading. Set OnRequest before.
func (r *Conn) Start() {
	go r.readLoop()
}

func (r *Conn) Close() { r.c.Close() }

func (r *Conn) Closed() <-chan struct{} { return r.closed }

func (r *Conn) readLoop() {
	defer close(r.closed)
	dec := json.NewDecoder(r.c)
	for {
		var raw map[string]json.RawMessage
		if err := dec.Decode(&raw); err != nil {
			if err != io.EOF {
				r.Err = err
			}
			r.mu.Lock()
			for k, ch := range r.pending {
				close(ch)
				delete(r.pending, k)
			}
			r.mu.Unlock()
			return
		}
		var m Msg
		if v, ok := raw["method"]; ok && string(v) != "null" {
			_ = json.Unmarshal(v, &m.Method)
		}
		if v, ok := raw["params"]; ok {
			m.Params = v
		}
		if v, ok := raw["id"]; ok && string(v) != "null" {
			vv := v
			m.ID = &vv
		}
		if v, ok := raw["result"]; ok {
			vv := v
			m.Result = &vv
		}
		if v, ok := raw["error"]; ok && string(v) != "null" {
			vv := v
			m.Error = &vv
		}
		if m.Method != "" {
			var res interface{}
			var err error
			if r.OnRequest != nil {
				res, err = r.OnRequest(m.Method, m.Params)
			}
			if m.ID != nil {
				resp := map[string]interface{}{"id": m.ID, "result": res, "error": nil}
				if err != nil {
					resp["result"] = nil
					resp["error"] = err.Error()
				}
				r.wmu.Lock()
				_ = r.enc.Encode(resp)
				r.wmu.Unlock()
			}
			continue
		}
		if m.ID != nil {
			r.mu.Lock()
			ch := r.pending[string(*m.ID)]
			delete(r.pending, string(*m.ID))
			r.mu.Unlock()
			if ch != nil {
				ch <- m
			}
		}
	}
}

// Call sends a request and waits for the response.
func (r *Conn) Call(method string, params interface{}, timeout time.Duration) (json.RawMessage, error) {
	r.mu.Lock()
	r.nextID++
	id := r.nextID
	ch := make(chan Msg, 1)
	r.pending[fmt.Sprint(id)] = ch
	r.mu.Unlock()
	r.wmu.Lock()
	err := r.enc.Encode(map[string]interface{}{"method": method, "params": params, "id": id})
	r.wmu.Unlock()
	if err != nil {
		return nil, err
	}
	select {
	case m, ok := <-ch:
		if !ok {
			return nil, fmt.Errorf("connection closed")
		}
		if m.Error != nil {
			return nil, fmt.Errorf("rpc error: %s", string(*m.Error))
		}
		if m.Result == nil {
			return nil, nil
		}
		return *m.Result, nil
	case <-time.After(timeout):
		return nil, fmt.Errorf("timeout waiting for %s", method)
	}
}

// Notify sends a notification (id null).
func (r *Conn) Notify(method string, params interface{}) error {
	r.wmu.Lock()
	defer r.wmu.Unlock()
	return r.enc.Encode(map[string]interface{}{"method": method, "params": params, "id": nil})
}

// SendRaw writes arbitrary bytes to the connection.
func (r *Conn) SendRaw(b []byte) error {
	r.wmu.Lock()
	defer r.wmu.Unlock()
	_, err := r.c.Write(b)
	return err
}
