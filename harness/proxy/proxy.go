// Package proxy is a message-boundary aware, fault-injecting proxy between a
// libovsdb client and a server (unix sockets). It forwards JSON-RPC messages
// one by one and can cut the connection after or inside the k-th message of
// a direction, stop forwarding silently (black hole), and refuse new
// connections while "down".
package proxy

import (
	"encoding/json"
	"net"
	"os"
	"sync"
)

type Rule struct {
	Dir    string // "c2s" | "s2c"
	At     int    // the k-th message of that direction counted from when the rule was armed (1-based)
	Inside bool   // cut after half of the message's bytes instead of after the message
}

type Proxy struct {
	Path   string
	target string
	ln     net.Listener

	mu        sync.Mutex
	down      bool
	blackhole bool
	rule      *Rule
	count     map[string]int
	conns     []*pair
	Fired     chan string // receives a note when a rule fires
	Msgs      map[string]int
	closed    bool
	upCh      chan struct{}
	answer    map[string]string // method -> result JSON the proxy answers itself (the request is not forwarded)
	// LastMonitorID is the JSON of the monitor id of the last monitor* request that went through
	LastMonitorID json.RawMessage
	// replaceResult, when set, becomes the result of the reply to the next monitor* request (ReplaceNextMonitorReply)
	replaceResult []byte
	replaceID     string

	// since mode: the proxy makes the server behind it one that remembers transaction ids (see since.go)
	since      bool
	sinceMons  map[string]*sinceMon // monitor id (JSON text) -> what the client holds
	sinceReqs  map[string]sinceReq  // request id (JSON text) -> the monitor_cond_since request
	sinceN     int
	groupID    string          // id of the run of update notifications being forwarded
	groupMons  map[string]bool // monitors that have had theirs
	SinceFound int             // replies answered with found = true
}

type pair struct {
	c, s net.Conn
	once sync.Once
	cw   sync.Mutex // serialises writes to the client (forwarded and injected messages)
}

func (p *pair) close() {
	p.once.Do(func() {
		p.c.Close()
		p.s.Close()
	})
}

func New(path, target string) (*Proxy, error) {
	os.Remove(path)
	ln, err := net.Listen("unix", path)
	if err != nil {
		return nil, err
	}
	p := &Proxy{Path: path, target: target, ln: ln, count: map[string]int{}, Fired: make(chan string, 16), Msgs: map[string]int{}, upCh: make(chan struct{})}
	go p.accept()
	return p, nil
}

func (p *Proxy) accept() {
	for {
		c, err := p.ln.Accept()
		if err != nil {
			return
		}
		p.mu.Lock()
		down := p.down
		p.mu.Unlock()
		if down {
			c.Close()
			continue
		}
		s, err := net.Dial("unix", p.target)
		if err != nil {
			c.Close()
			continue
		}
		pr := &pair{c: c, s: s}
		p.mu.Lock()
		p.conns = append(p.conns, pr)
		p.mu.Unlock()
		go p.pump(pr, c, s, "c2s")
		go p.pump(pr, s, c, "s2c")
	}
}

func (p *Proxy) pump(pr *pair, from, to net.Conn, dir string) {
	defer pr.close()
	dec := json.NewDecoder(from)
	for {
		var raw json.RawMessage
		if err := dec.Decode(&raw); err != nil {
			return
		}
		p.mu.Lock()
		p.Msgs[dir]++
		p.count[dir]++
		bh := p.blackhole
		var fire *Rule
		if p.rule != nil && p.rule.Dir == dir && p.count[dir] == p.rule.At {
			fire = p.rule
			p.rule = nil
			p.down = true
		}
		p.mu.Unlock()
		if bh {
			continue // swallowed
		}
		if dir == "c2s" {
			var m struct {
				Method string            `json:"method"`
				ID     json.RawMessage   `json:"id"`
				Params []json.RawMessage `json:"params"`
			}
			if json.Unmarshal(raw, &m) == nil && len(m.Method) >= 7 && m.Method[:7] == "monitor" && m.Method != "monitor_cancel" && len(m.Params) > 1 {
				p.mu.Lock()
				p.LastMonitorID = m.Params[1]
				if p.replaceResult != nil && p.replaceID == "" {
					p.replaceID = string(m.ID)
				}
				p.mu.Unlock()
			}
			p.mu.Lock()
			ans := p.answer
			p.mu.Unlock()
			if len(ans) > 0 && json.Unmarshal(raw, &m) == nil {
				if res, ok := ans[m.Method]; ok && len(m.ID) > 0 && string(m.ID) != "null" {
					_, _ = from.Write([]byte(`{"id":` + string(m.ID) + `,"result":` + res + `,"error":null}` + "\n"))
					continue
				}
			}
		}
		if dir == "s2c" {
			p.mu.Lock()
			rid, rres := p.replaceID, p.replaceResult
			p.mu.Unlock()
			if rid != "" {
				var msg map[string]json.RawMessage
				if json.Unmarshal(raw, &msg) == nil && string(msg["id"]) == rid && len(msg["method"]) == 0 {
					msg["result"] = rres
					if out, err := json.Marshal(msg); err == nil {
						raw = out
					}
					p.mu.Lock()
					p.replaceID, p.replaceResult = "", nil
					p.mu.Unlock()
				}
			}
		}
		var follow []byte
		if p.sinceOn() {
			raw, follow = p.sinceRewrite(dir, raw)
		}
		if fire != nil && fire.Inside {
			_, _ = to.Write(raw[:len(raw)/2])
			pr.close()
			p.Fired <- "cut-inside " + dir
			return
		}
		if dir == "s2c" {
			pr.cw.Lock()
		}
		_, werr := to.Write(append(raw, '\n'))
		if dir == "s2c" {
			pr.cw.Unlock()
		}
		if werr == nil && follow != nil && fire == nil {
			pr.cw.Lock()
			_, werr = to.Write(append(follow, '\n'))
			pr.cw.Unlock()
		}
		if werr != nil {
			return
		}
		if fire != nil {
			pr.close()
			p.Fired <- "cut-after " + dir
			return
		}
	}
}

// InjectToClient writes a message to every connected client as if the server had sent it.
func (p *Proxy) InjectToClient(raw []byte) int {
	p.mu.Lock()
	cs := append([]*pair{}, p.conns...)
	p.mu.Unlock()
	n := 0
	for _, c := range cs {
		c.cw.Lock()
		_, err := c.c.Write(append(append([]byte{}, raw...), '\n'))
		c.cw.Unlock()
		if err == nil {
			n++
		}
	}
	return n
}

// ReplaceNextMonitorReply makes result the result of the server's reply to the next monitor* request.
func (p *Proxy) ReplaceNextMonitorReply(result []byte) {
	p.mu.Lock()
	p.replaceResult, p.replaceID = result, ""
	p.mu.Unlock()
}

func (p *Proxy) MonitorID() json.RawMessage {
	p.mu.Lock()
	defer p.mu.Unlock()
	return p.LastMonitorID
}

// Answer makes the proxy reply to a method itself.
func (p *Proxy) Answer(method, result string) {
	p.mu.Lock()
	if p.answer == nil {
		p.answer = map[string]string{}
	}
	p.answer[method] = result
	p.mu.Unlock()
}

// Arm installs a rule; counting starts now.
func (p *Proxy) Arm(r Rule) {
	p.mu.Lock()
	p.count = map[string]int{}
	p.rule = &r
	p.mu.Unlock()
}

func (p *Proxy) Disarm() {
	p.mu.Lock()
	p.rule = nil
	p.mu.Unlock()
}

// CutNow closes every connection and goes down.
func (p *Proxy) CutNow() {
	p.mu.Lock()
	p.down = true
	cs := p.conns
	p.conns = nil
	p.mu.Unlock()
	for _, c := range cs {
		c.close()
	}
}

// Up accepts connections again.
func (p *Proxy) Up() {
	p.mu.Lock()
	p.down = false
	p.blackhole = false
	p.mu.Unlock()
}

func (p *Proxy) IsDown() bool {
	p.mu.Lock()
	defer p.mu.Unlock()
	return p.down
}

// Blackhole stops forwarding in both directions without closing anything.
func (p *Proxy) Blackhole(on bool) {
	p.mu.Lock()
	p.blackhole = on
	p.mu.Unlock()
}

func (p *Proxy) Close() {
	p.ln.Close()
	p.CutNow()
	os.Remove(p.Path)
}
