package proxy

import (
	"encoding/json"
	"fmt"
	"reflect"
)

// Since mode. The built-in server answers monitor_cond_since like monitor_cond: found = false, the whole
// contents, update2 notifications without transaction ids. Behind the proxy in since mode it looks like a
// server that remembers transactions:
//   - every update2 notification of a monitor_cond_since monitor goes out as update3 with a fresh id;
//   - a monitor_cond_since request that quotes an id the proxy issued for that monitor since it last sent the
//     contents in full is answered with found = true and no rows; what happened after that id follows as update3
//     notifications: those sent since then as they were (a client that saw them already and quotes an older id
//     gets them again), then what changed while no monitor was registered, as deletes of the rows gone or
//     different and inserts of the rows as they are now;
//   - any other id is unknown: found = false, the whole contents, a fresh id.

type sinceEntry struct {
	id      string
	updates json.RawMessage                       // the update2 body that went out under that id
	rows    map[string]map[string]json.RawMessage // what the client holds after it
}

type sinceMon struct {
	log  []sinceEntry                          // the notifications sent since the contents were last sent in full
	base string                                // the id under which the contents were last sent in full
	last string                                // the id issued last
	rows map[string]map[string]json.RawMessage // table -> uuid -> the row the client holds (nil: modified since, contents not tracked)
}

type sinceReq struct {
	mon  string
	last string
}

const zeroID = "00000000-0000-0000-0000-000000000000"

// Since switches since mode on or off.
func (p *Proxy) Since(on bool) {
	p.mu.Lock()
	p.since = on
	if p.sinceMons == nil {
		p.sinceMons = map[string]*sinceMon{}
		p.sinceReqs = map[string]sinceReq{}
	}
	p.mu.Unlock()
}

func (p *Proxy) sinceOn() bool {
	p.mu.Lock()
	defer p.mu.Unlock()
	return p.since
}

func (p *Proxy) freshID() string {
	p.sinceN++
	return fmt.Sprintf("00000000-0000-4000-a000-%012d", p.sinceN)
}

// noteRows updates what a client holds from a TableUpdates2 value.
func noteRows(m *sinceMon, updates json.RawMessage, reset bool) map[string]map[string]map[string]json.RawMessage {
	var tu map[string]map[string]map[string]json.RawMessage
	if json.Unmarshal(updates, &tu) != nil {
		return nil
	}
	if reset || m.rows == nil {
		m.rows = map[string]map[string]json.RawMessage{}
	}
	for t, rows := range tu {
		if m.rows[t] == nil {
			m.rows[t] = map[string]json.RawMessage{}
		}
		for u, ru := range rows {
			if _, ok := ru["delete"]; ok {
				delete(m.rows[t], u)
			} else if row, ok := ru["insert"]; ok {
				m.rows[t][u] = row
			} else if row, ok := ru["initial"]; ok {
				m.rows[t][u] = row
			} else if _, ok := ru["modify"]; ok {
				if _, held := m.rows[t][u]; held {
					m.rows[t][u] = nil
				}
			}
		}
	}
	return tu
}

func copyRows(rows map[string]map[string]json.RawMessage) map[string]map[string]json.RawMessage {
	out := map[string]map[string]json.RawMessage{}
	for t, us := range rows {
		out[t] = map[string]json.RawMessage{}
		for u, r := range us {
			out[t][u] = r
		}
	}
	return out
}

func sameJSON(a, b json.RawMessage) bool {
	if a == nil || b == nil {
		return false
	}
	var x, y interface{}
	if json.Unmarshal(a, &x) != nil || json.Unmarshal(b, &y) != nil {
		return false
	}
	return reflect.DeepEqual(x, y)
}

// sinceRewrite returns the message to forward instead of raw and, possibly, a message to send right after it.
func (p *Proxy) sinceRewrite(dir string, raw json.RawMessage) (json.RawMessage, []byte) {
	var msg map[string]json.RawMessage
	if json.Unmarshal(raw, &msg) != nil {
		return raw, nil
	}
	p.mu.Lock()
	defer p.mu.Unlock()
	var method string
	_ = json.Unmarshal(msg["method"], &method)
	if dir == "c2s" {
		if method == "monitor_cond_since" {
			var params []json.RawMessage
			if json.Unmarshal(msg["params"], &params) == nil && len(params) == 4 {
				var last string
				_ = json.Unmarshal(params[3], &last)
				p.sinceReqs[string(msg["id"])] = sinceReq{mon: string(params[1]), last: last}
			}
		}
		return raw, nil
	}
	// ---- server to client
	if method == "update2" {
		var params []json.RawMessage
		if json.Unmarshal(msg["params"], &params) != nil || len(params) != 2 {
			return raw, nil
		}
		m := p.sinceMons[string(params[0])]
		if m == nil {
			return raw, nil // not a monitor_cond_since monitor
		}
		noteRows(m, params[1], false)
		// the notifications of one transaction (sent back to back, one per monitor) carry the same id
		if p.groupID == "" || p.groupMons[string(params[0])] {
			p.groupID = p.freshID()
			p.groupMons = map[string]bool{}
		}
		p.groupMons[string(params[0])] = true
		m.last = p.groupID
		m.log = append(m.log, sinceEntry{id: m.last, updates: params[1], rows: copyRows(m.rows)})
		idj, _ := json.Marshal(m.last)
		np, _ := json.Marshal([]json.RawMessage{params[0], idj, params[1]})
		msg["method"] = json.RawMessage(`"update3"`)
		msg["params"] = np
		out, _ := json.Marshal(msg)
		return out, nil
	}
	// any other message from the server ends the run of notifications of one transaction
	p.groupID = ""
	if method != "" {
		return raw, nil
	}
	req, ok := p.sinceReqs[string(msg["id"])]
	if !ok {
		return raw, nil
	}
	delete(p.sinceReqs, string(msg["id"]))
	var result []json.RawMessage
	if json.Unmarshal(msg["result"], &result) != nil || len(result) != 3 {
		return raw, nil
	}
	m := p.sinceMons[req.mon]
	known := -2
	if m != nil && req.last != zeroID && req.last != "" {
		if req.last == m.base {
			known = -1
		}
		for i, e := range m.log {
			if e.id == req.last {
				known = i
			}
		}
	}
	if known > -2 {
		// the server knows that transaction: found = true, and everything that happened after it follows - the
		// notifications sent since then as they were (with their ids), then what changed while no monitor was
		// registered, as deletes of the rows that are gone or different and inserts of the rows as they are now
		// (unchanged rows are left out, as in any minimal difference)
		p.SinceFound++
		var follow []byte
		add := func(id string, updates json.RawMessage) {
			idj, _ := json.Marshal(id)
			params, _ := json.Marshal([]json.RawMessage{json.RawMessage(req.mon), idj, updates})
			msg, _ := json.Marshal(map[string]json.RawMessage{"id": json.RawMessage("null"), "method": json.RawMessage(`"update3"`), "params": params})
			if follow != nil {
				follow = append(follow, '\n')
			}
			follow = append(follow, msg...)
		}
		for _, e := range m.log[known+1:] {
			add(e.id, e.updates)
		}
		var fresh map[string]map[string]map[string]json.RawMessage
		_ = json.Unmarshal(result[2], &fresh)
		deletes := map[string]map[string]map[string]interface{}{}
		inserts := map[string]map[string]map[string]json.RawMessage{}
		held := m.rows
		for t, us := range held {
			for u, old := range us {
				if ru, ok := fresh[t][u]; ok && sameJSON(old, ru["initial"]) {
					continue
				}
				if deletes[t] == nil {
					deletes[t] = map[string]map[string]interface{}{}
				}
				deletes[t][u] = map[string]interface{}{"delete": nil}
			}
		}
		for t, rows := range fresh {
			for u, ru := range rows {
				row, ok := ru["initial"]
				if !ok {
					continue
				}
				if old, ok := held[t][u]; ok && sameJSON(old, row) {
					continue
				}
				if inserts[t] == nil {
					inserts[t] = map[string]map[string]json.RawMessage{}
				}
				inserts[t][u] = map[string]json.RawMessage{"insert": row}
			}
		}
		for _, part := range []interface{}{deletes, inserts} {
			pj, _ := json.Marshal(part)
			if string(pj) == "{}" {
				continue
			}
			noteRows(m, pj, false)
			m.last = p.freshID()
			m.log = append(m.log, sinceEntry{id: m.last, updates: pj, rows: copyRows(m.rows)})
			add(m.last, pj)
		}
		lastj, _ := json.Marshal(req.last)
		res, _ := json.Marshal([]json.RawMessage{json.RawMessage("true"), lastj, json.RawMessage("{}")})
		msg["result"] = res
		out, _ := json.Marshal(msg)
		return out, follow
	}
	// unknown (or no) transaction: everything, under a fresh id
	if m == nil {
		m = &sinceMon{}
		p.sinceMons[req.mon] = m
	}
	noteRows(m, result[2], true)
	m.last = p.freshID()
	m.base, m.log = m.last, nil
	idj, _ := json.Marshal(m.last)
	res, _ := json.Marshal([]json.RawMessage{json.RawMessage("false"), idj, result[2]})
	msg["result"] = res
	out, _ := json.Marshal(msg)
	return out, nil
}
