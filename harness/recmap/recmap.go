// Package recmap runs the mapper cases of Mapper.tla (C09): a model whose
// field has a given Go type is bound to a one-column schema; a model holding
// a native value goes NewRow -> JSON -> Row -> GetRowData / CreateModel.
package recmap

import (
	"encoding/json"
	"fmt"
	"reflect"
	"runtime/debug"
	"strconv"

	"github.com/ovn-org/libovsdb/mapper"
	"github.com/ovn-org/libovsdb/model"
	"github.com/ovn-org/libovsdb/ovsdb"

	"vh/recwire"
)

type Col struct {
	Key   string `json:"key"`
	Value string `json:"value"`
	Min   int    `json:"min"`
	Max   int    `json:"max"`
	Enum  bool   `json:"enum"`
}

type NV struct {
	Kind  string            `json:"kind"`
	Elems []json.RawMessage `json:"elems"`
}

type Case struct {
	Mode   string `json:"mode"`
	Col    Col    `json:"col"`
	GoType string `json:"gotype"`
	Value  *NV    `json:"value"`
}

var goTypes = map[string]reflect.Type{}

func init() {
	s, i, f, b := "", 0, 0.0, false
	for name, v := range map[string]interface{}{
		"int": i, "float64": f, "bool": b, "string": s, "*int": &i, "*float64": &f, "*bool": &b, "*string": &s,
		"[]int": []int{}, "[]float64": []float64{}, "[]bool": []bool{}, "[]string": []string{},
		"map[string]string": map[string]string{}, "map[string]int": map[string]int{}, "map[int]string": map[int]string{},
		"map[string]bool": map[string]bool{}, "map[string]float64": map[string]float64{}, "map[int]int": map[int]int{},
		"map[int]bool": map[int]bool{}, "map[int]float64": map[int]float64{},
		"int64": int64(0), "[]*string": []*string{}, "*[]string": &[]string{}, "[1]string": [1]string{}, "uint": uint(0),
	} {
		goTypes[name] = reflect.TypeOf(v)
	}
	var e interface{}
	goTypes["interface {}"] = reflect.TypeOf(&e).Elem()
}

func baseJSON(t string, enum bool) interface{} {
	if !enum {
		return t
	}
	if t == "string" {
		return map[string]interface{}{"type": t, "enum": []interface{}{"set", []interface{}{"red", "green", "blue"}}}
	}
	return map[string]interface{}{"type": t, "enum": []interface{}{"set", []interface{}{1, 2, 3}}}
}

// Schema of the one-column table T (plus a string column "other").
func (c Col) Schema() (ovsdb.DatabaseSchema, error) {
	ty := map[string]interface{}{"key": baseJSON(c.Key, c.Enum), "min": c.Min}
	if c.Max == -1 {
		ty["max"] = "unlimited"
	} else {
		ty["max"] = c.Max
	}
	if c.Value != "" {
		ty["value"] = baseJSON(c.Value, false)
	}
	doc := map[string]interface{}{"name": "mdb", "version": "1.0.0", "tables": map[string]interface{}{"T": map[string]interface{}{
		"columns": map[string]interface{}{"c": map[string]interface{}{"type": ty}, "other": map[string]interface{}{"type": "string"}}}}}
	b, _ := json.Marshal(doc)
	var s ovsdb.DatabaseSchema
	err := json.Unmarshal(b, &s)
	return s, err
}

func structOf(goType reflect.Type) reflect.Type {
	return reflect.StructOf([]reflect.StructField{
		{Name: "UUID", Type: reflect.TypeOf(""), Tag: `ovsdb:"_uuid"`},
		{Name: "C", Type: goType, Tag: `ovsdb:"c"`},
		{Name: "Other", Type: reflect.TypeOf(""), Tag: `ovsdb:"other"`},
	})
}

func guard(f func() error) (err error, panicked string) {
	defer func() {
		if r := recover(); r != nil {
			st := string(debug.Stack())
			if len(st) > 1200 {
				st = st[:1200]
			}
			panicked = fmt.Sprintf("%v\n%s", r, st)
		}
	}()
	return f(), ""
}

// TypeCase: is a model whose field has this Go type accepted for the column?
func TypeCase(c Case) map[string]interface{} {
	ev := map[string]interface{}{"ev": "mtype", "col": c.Col, "gotype": c.GoType, "accepted": false, "acceptedByDBModel": false, "err": ""}
	gt, ok := goTypes[c.GoType]
	if !ok {
		ev["err"] = "harness: unknown Go type name"
		return ev
	}
	schema, err := c.Col.Schema()
	if err != nil {
		ev["err"] = "harness: schema: " + err.Error()
		return ev
	}
	st := structOf(gt)
	ts := schema.Tables["T"]
	err, p := guard(func() error {
		_, e := mapper.NewInfo("T", &ts, reflect.New(st).Interface())
		return e
	})
	if p != "" {
		ev["err"] = "panic: " + p
		return ev
	}
	ev["accepted"] = err == nil
	if err != nil {
		ev["err"] = err.Error()
	}
	err, p = guard(func() error {
		cdb, e := model.NewClientDBModel("mdb", map[string]model.Model{"T": reflect.New(st).Interface()})
		if e != nil {
			return e
		}
		_, errs := model.NewDatabaseModel(schema, cdb)
		if len(errs) > 0 {
			return errs[0]
		}
		return nil
	})
	ev["acceptedByDBModel"] = err == nil && p == ""
	return ev
}

// atom: typed node -> Go value of the atomic type
func atom(n *recwire.Node, t string) (reflect.Value, error) {
	switch t {
	case "integer":
		switch n.K {
		case "n":
			return reflect.ValueOf(int(*n.N)), nil
		case "big":
			i, err := strconv.ParseInt(*n.S, 10, 64)
			return reflect.ValueOf(int(i)), err
		}
	case "real":
		switch n.K {
		case "n":
			return reflect.ValueOf(float64(*n.N)), nil
		case "r", "big":
			f, err := strconv.ParseFloat(*n.S, 64)
			return reflect.ValueOf(f), err
		}
	case "boolean":
		if n.K == "b" {
			return reflect.ValueOf(*n.B), nil
		}
	case "string", "uuid":
		if n.K == "s" {
			return reflect.ValueOf(*n.S), nil
		}
	}
	return reflect.Value{}, fmt.Errorf("atom %s does not fit %s", n.K, t)
}

func toNode(v reflect.Value, t string) *recwire.Node {
	var b []byte
	switch t {
	case "integer":
		b = []byte(strconv.FormatInt(v.Int(), 10))
	case "real":
		b, _ = json.Marshal(v.Float())
	case "boolean":
		b, _ = json.Marshal(v.Bool())
	default:
		b, _ = json.Marshal(v.String())
	}
	n, _ := recwire.Parse(b)
	return n
}

// build the Go value of the column's native type from the abstract value
func build(c Col, gt reflect.Type, v *NV) (reflect.Value, error) {
	nodes := make([]*recwire.Node, 0, len(v.Elems))
	pairs := [][2]*recwire.Node{}
	for _, raw := range v.Elems {
		if v.Kind == "map" {
			var p []*recwire.Node
			if err := json.Unmarshal(raw, &p); err != nil || len(p) != 2 {
				return reflect.Value{}, fmt.Errorf("bad pair %s", string(raw))
			}
			pairs = append(pairs, [2]*recwire.Node{p[0], p[1]})
			continue
		}
		n := &recwire.Node{}
		if err := json.Unmarshal(raw, n); err != nil {
			return reflect.Value{}, err
		}
		nodes = append(nodes, n)
	}
	switch v.Kind {
	case "atom":
		return atom(nodes[0], c.Key)
	case "opt":
		if len(nodes) == 0 {
			return reflect.Zero(gt), nil
		}
		a, err := atom(nodes[0], c.Key)
		if err != nil {
			return reflect.Value{}, err
		}
		p := reflect.New(gt.Elem())
		p.Elem().Set(a)
		return p, nil
	case "set":
		s := reflect.MakeSlice(gt, 0, len(nodes))
		for _, n := range nodes {
			a, err := atom(n, c.Key)
			if err != nil {
				return reflect.Value{}, err
			}
			s = reflect.Append(s, a)
		}
		return s, nil
	case "map":
		m := reflect.MakeMap(gt)
		for _, p := range pairs {
			k, err := atom(p[0], c.Key)
			if err != nil {
				return reflect.Value{}, err
			}
			x, err := atom(p[1], c.Value)
			if err != nil {
				return reflect.Value{}, err
			}
			m.SetMapIndex(k, x)
		}
		return m, nil
	}
	return reflect.Value{}, fmt.Errorf("bad kind %s", v.Kind)
}

// project a Go value back to the abstract form
func project(c Col, v reflect.Value) map[string]interface{} {
	elems := []interface{}{}
	kind := ""
	switch v.Kind() {
	case reflect.Ptr:
		kind = "opt"
		if !v.IsNil() {
			elems = append(elems, toNode(v.Elem(), c.Key))
		}
	case reflect.Slice:
		kind = "set"
		for i := 0; i < v.Len(); i++ {
			elems = append(elems, toNode(v.Index(i), c.Key))
		}
	case reflect.Map:
		kind = "map"
		it := v.MapRange()
		for it.Next() {
			elems = append(elems, []interface{}{toNode(it.Key(), c.Key), toNode(it.Value(), c.Value)})
		}
	default:
		kind = "atom"
		elems = append(elems, toNode(v, c.Key))
	}
	return map[string]interface{}{"kind": kind, "elems": elems}
}

const uuid0 = "00000000-0000-4000-8000-0000000000aa"

// MapCase: the round trip of one value.
func MapCase(c Case) map[string]interface{} {
	none := map[string]interface{}{"kind": "none", "elems": []interface{}{}}
	ev := map[string]interface{}{"ev": "map", "col": c.Col, "value": c.Value, "ok": false, "err": "", "panic": "",
		"wire": &recwire.Node{K: "z"}, "back": none, "created": none, "untouched": false, "touched": ""}
	gt, ok := goTypes[c.GoType]
	if !ok {
		ev["err"] = "harness: unknown Go type name " + c.GoType
		return ev
	}
	schema, err := c.Col.Schema()
	if err != nil {
		ev["err"] = "harness: schema: " + err.Error()
		return ev
	}
	st := structOf(gt)
	val, err := build(c.Col, gt, c.Value)
	if err != nil {
		ev["err"] = "harness: " + err.Error()
		return ev
	}
	err, p := guard(func() error {
		cdb, e := model.NewClientDBModel("mdb", map[string]model.Model{"T": reflect.New(st).Interface()})
		if e != nil {
			return e
		}
		dbm, errs := model.NewDatabaseModel(schema, cdb)
		if len(errs) > 0 {
			return errs[0]
		}
		m1 := reflect.New(st)
		m1.Elem().Field(0).SetString(uuid0)
		m1.Elem().Field(1).Set(val)
		m1.Elem().Field(2).SetString("sent")
		info, e := dbm.NewModelInfo(m1.Interface())
		if e != nil {
			return e
		}
		row, e := dbm.Mapper.NewRow(info)
		if e != nil {
			return fmt.Errorf("NewRow: %w", e)
		}
		bs, e := json.Marshal(row)
		if e != nil {
			return fmt.Errorf("marshal: %w", e)
		}
		var asTree map[string]json.RawMessage
		if e := json.Unmarshal(bs, &asTree); e != nil {
			return e
		}
		if raw, ok := asTree["c"]; ok {
			n, e := recwire.Parse(raw)
			if e != nil {
				return e
			}
			ev["wire"] = n
		} else {
			ev["wire"] = &recwire.Node{K: "z"} // the column is absent from the row
		}
		var r2 ovsdb.Row
		if e := json.Unmarshal(bs, &r2); e != nil {
			return fmt.Errorf("Row.UnmarshalJSON: %w", e)
		}
		// read back into a model whose fields hold something else
		m2 := reflect.New(st)
		m2.Elem().Field(2).SetString("keep")
		info2, e := dbm.NewModelInfo(m2.Interface())
		if e != nil {
			return e
		}
		rowC := ovsdb.Row{}
		if x, ok := r2["c"]; ok {
			rowC["c"] = x // NewRow leaves a column out when the field holds its zero value
		}
		if e := dbm.Mapper.GetRowData(&rowC, info2); e != nil {
			return fmt.Errorf("GetRowData: %w", e)
		}
		ev["back"] = project(c.Col, m2.Elem().Field(1))
		untouched := m2.Elem().Field(2).String() == "keep"
		touched := ""
		if !untouched {
			touched = "other"
		}
		// and the other way round: a row without c leaves c alone
		m3 := reflect.New(st)
		m3.Elem().Field(1).Set(val)
		info3, e := dbm.NewModelInfo(m3.Interface())
		if e != nil {
			return e
		}
		rowO := ovsdb.Row{"other": "x"}
		if e := dbm.Mapper.GetRowData(&rowO, info3); e != nil {
			return fmt.Errorf("GetRowData: %w", e)
		}
		pj, _ := json.Marshal(project(c.Col, m3.Elem().Field(1)))
		vj, _ := json.Marshal(project(c.Col, val))
		if string(pj) != string(vj) && c.Value.Kind != "map" {
			untouched = false
			touched += " c"
		}
		if c.Value.Kind == "map" && m3.Elem().Field(1).Len() != val.Len() {
			untouched = false
			touched += " c"
		}
		ev["untouched"] = untouched
		ev["touched"] = touched
		// CreateModel
		cm, e := model.CreateModel(dbm, "T", &r2, uuid0)
		if e != nil {
			return fmt.Errorf("CreateModel: %w", e)
		}
		ev["created"] = project(c.Col, reflect.ValueOf(cm).Elem().Field(1))
		return nil
	})
	if p != "" {
		ev["panic"] = p
		return ev
	}
	if err != nil {
		ev["err"] = err.Error()
		return ev
	}
	ev["ok"] = true
	return ev
}
