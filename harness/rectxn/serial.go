package rectxn

import (
	"encoding/json"
	"fmt"
	"math/rand"
	"runtime"
	"sync"
	"sync/atomic"
	"time"

	"github.com/ovn-org/libovsdb/ovsdb"

	"vh/abs"
	"vh/rawrpc"
)

// Serial runs concurrent clients against one server and records, per call,
// invocation / response order, operations and results, per raw monitoring
// peer its message sequence, and the final contents (property C17).
type SerialTrace struct {
	Init  map[string]interface{} `json:"init"`
	Calls []interface{}          `json:"calls"`
	Mons  []interface{}          `json:"mons"`
	Final map[string]interface{} `json:"final"`
	Stuck []string               `json:"stuck"` // requests the server never answered
}

func op(o abs.AOp) abs.AOp { o.Normalize(); return o }

// RunSerial: nclients goroutines, each issuing ncalls transactions.
func RunSerial(b *abs.Built, dir string, seed int64, nclients, ncalls int) (*SerialTrace, error) {
	rnd := rand.New(rand.NewSource(seed))
	tok := abs.NewTokens()
	in, err := NewInst(0, b, tok, true, dir)
	if err != nil {
		return nil, err
	}
	defer in.Close()
	// ---- set-up: a counter row, two non-root rows it references
	setup := []abs.AOp{
		op(abs.AOp{Op: "insert", Table: "N", UUID: "u2", Row: map[string]interface{}{"name": "n2", "v": 0}}),
		op(abs.AOp{Op: "insert", Table: "N", UUID: "u3", Row: map[string]interface{}{"name": "n3", "v": 0}}),
		op(abs.AOp{Op: "insert", Table: "R", UUID: "u1", Row: map[string]interface{}{"name": "ctr", "x": 0, "y": 0,
			"sref": []interface{}{"u2", "u3"}}}),
	}
	var sops []ovsdb.Operation
	for _, a := range setup {
		o, err := in.Ctx.ToOp(a)
		if err != nil {
			return nil, err
		}
		sops = append(sops, o)
	}
	res, err := in.Transact(sops)
	if err != nil {
		return nil, err
	}
	for _, r := range res {
		if r != nil && r.Error != "" {
			return nil, fmt.Errorf("set-up failed: %s %s", r.Error, r.Details)
		}
	}
	init, _, err := in.Observe()
	if err != nil {
		return nil, err
	}
	// ---- monitors: one per encoding over every table and column
	tr := &SerialTrace{Init: init, Stuck: []string{}}
	for k, method := range []string{"monitor", "monitor_cond"} {
		req := map[string]interface{}{}
		for _, t := range b.Abs.TableNames() {
			cols := []interface{}{}
			for _, c := range b.Abs.Tables[t].ColNames() {
				cols = append(cols, c)
			}
			req[t] = map[string]interface{}{"columns": cols, "initial": true, "insert": true, "delete": true, "modify": true}
		}
		if _, _, err := in.AddMonitor(fmt.Sprintf("\"s%d\"", k), method, req); err != nil {
			return nil, err
		}
	}
	var clock int64
	var mu sync.Mutex
	var wg sync.WaitGroup
	var firstErr error
	// in two runs of three the first monitor is slow to acknowledge, which keeps transactions in flight
	if seed%3 != 0 && len(in.Mons) > 0 {
		in.Mons[0].AckDelay = time.Duration(100+rnd.Intn(900)) * time.Microsecond
	}
	// monitors established while the clients run: what such a monitor is told at first plus what it is told
	// afterwards must be one state of the serial order and the changes made after it
	type lateMon struct {
		inv, ret int64
		init     map[string]interface{}
	}
	late := map[string]lateMon{}
	nlate := 2 + rnd.Intn(2)
	lateSeed := rnd.Int63()
	wg.Add(1)
	go func() {
		defer wg.Done()
		r := rand.New(rand.NewSource(lateSeed))
		for k := 0; k < nlate; k++ {
			time.Sleep(time.Duration(200+r.Intn(3000)) * time.Microsecond)
			method := []string{"monitor_cond_since", "monitor_cond", "monitor"}[r.Intn(3)]
			req := map[string]interface{}{}
			for _, t := range b.Abs.TableNames() {
				cols := []interface{}{}
				for _, c := range b.Abs.Tables[t].ColNames() {
					cols = append(cols, c)
				}
				req[t] = map[string]interface{}{"columns": cols, "initial": true, "insert": true, "delete": true, "modify": true}
			}
			id := fmt.Sprintf("\"late%d\"", k)
			inv := atomic.AddInt64(&clock, 1)
			_, init, err := in.AddMonitor(id, method, req)
			ret := atomic.AddInt64(&clock, 1)
			mu.Lock()
			if err != nil {
				// an unanswered monitor request is an observation about the server, not a failure of the harness
				tr.Stuck = append(tr.Stuck, fmt.Sprintf("%s request %s: %v", method, id, err))
			} else {
				late[id] = lateMon{inv: inv, ret: ret, init: init}
			}
			mu.Unlock()
		}
	}()
	old := runtime.GOMAXPROCS(1 + rnd.Intn(8))
	defer runtime.GOMAXPROCS(old)
	for c := 0; c < nclients; c++ {
		conn, err := rawrpc.Dial("unix", in.Sock)
		if err != nil {
			return nil, err
		}
		conn.Start()
		defer conn.Close()
		wg.Add(1)
		go func(c int, conn *rawrpc.Conn, seed int64) {
			defer wg.Done()
			r := rand.New(rand.NewSource(seed))
			known := 0 // the counter value this client read last
			for k := 0; k < ncalls; k++ {
				if r.Intn(3) == 0 {
					time.Sleep(time.Duration(r.Intn(300)) * time.Microsecond)
				} else if r.Intn(2) == 0 {
					runtime.Gosched()
				}
				ctr := [][]interface{}{{"name", "==", "ctr", "atom"}}
				var aops []abs.AOp
				switch r.Intn(7) {
				case 0: // blind increment
					aops = []abs.AOp{op(abs.AOp{Op: "mutate", Table: "R", Where: ctr, Mutations: [][]interface{}{{"x", "+=", 1, "atom"}}})}
				case 1: // read the counter
					aops = []abs.AOp{op(abs.AOp{Op: "select", Table: "R", Where: ctr})}
				case 2: // optimistic read-modify-write on what was read last
					aops = []abs.AOp{
						op(abs.AOp{Op: "wait", Table: "R", Where: ctr, HasColumns: true, Columns: []string{"y"}, Until: "==",
							Rows: []map[string]interface{}{{"y": known}}}),
						op(abs.AOp{Op: "update", Table: "R", Where: ctr, Row: map[string]interface{}{"y": known + 1}}),
					}
				case 3: // insert-if-absent: the unique index on name decides
					aops = []abs.AOp{op(abs.AOp{Op: "insert", Table: "R", UUID: fmt.Sprintf("u%d", 1000+c*100+k),
						Row: map[string]interface{}{"name": fmt.Sprintf("k%d", r.Intn(3)), "x": 10 + c, "y": k}})}
				case 4: // move the strong references of the counter row: garbage collection decides what stays
					targets := [][]interface{}{{"u2"}, {"u3"}, {"u2", "u3"}, {}}
					aops = []abs.AOp{op(abs.AOp{Op: "update", Table: "R", Where: ctr, Row: map[string]interface{}{"sref": targets[r.Intn(4)]}})}
				case 5: // a new non-root row, referenced in the same transaction
					u := fmt.Sprintf("u%d", 2000+c*100+k)
					aops = []abs.AOp{
						op(abs.AOp{Op: "insert", Table: "N", UUID: u, Row: map[string]interface{}{"name": "n" + u, "v": c}}),
						op(abs.AOp{Op: "mutate", Table: "R", Where: ctr, Mutations: [][]interface{}{{"sref", "insert", []interface{}{u}, "set"}}}),
					}
				case 6: // delete one of the contended rows
					aops = []abs.AOp{op(abs.AOp{Op: "delete", Table: "R", Where: [][]interface{}{{"name", "==", fmt.Sprintf("k%d", r.Intn(3)), "atom"}}})}
				}
				var ops []interface{}
				ops = append(ops, in.Ctx.Abs.Name)
				for _, a := range aops {
					o, err := in.Ctx.ToOp(a)
					if err != nil {
						mu.Lock()
						firstErr = err
						mu.Unlock()
						return
					}
					ops = append(ops, o)
				}
				inv := atomic.AddInt64(&clock, 1)
				raw, err := conn.Call("transact", ops, 30*time.Second)
				ret := atomic.AddInt64(&clock, 1)
				if err != nil {
					// the server executed the transaction and then failed to apply it:
					// recorded as the call's outcome, judged by the check
					mu.Lock()
					tr.Calls = append(tr.Calls, map[string]interface{}{"c": c, "k": k, "inv": inv, "ret": ret, "ops": aops,
						"results": []interface{}{}, "committed": false, "errIdx": 0, "rpcError": err.Error()})
					mu.Unlock()
					continue
				}
				var results []*ovsdb.OperationResult
				if err := json.Unmarshal(raw, &results); err != nil {
					mu.Lock()
					firstErr = err
					mu.Unlock()
					return
				}
				ares := []interface{}{}
				errIdx := 0
				for i, rr := range results {
					var a abs.AOp
					if i < len(aops) {
						a = aops[i]
					}
					ar, err := in.Ctx.ResultToAbs(a, rr)
					if err != nil {
						mu.Lock()
						firstErr = err
						mu.Unlock()
						return
					}
					if ar.Kind == "error" && errIdx == 0 {
						errIdx = i + 1
					}
					if ar.Kind == "rows" && len(ar.Rows) == 1 {
						if row, ok := ar.Rows[0].(map[string]interface{})["row"].(map[string]interface{}); ok {
							if y, ok := row["y"].(int); ok {
								known = y
							} else {
								known = 0
							}
						}
					}
					ares = append(ares, ar)
				}
				mu.Lock()
				tr.Calls = append(tr.Calls, map[string]interface{}{"c": c, "k": k, "inv": inv, "ret": ret, "ops": aops,
					"results": ares, "committed": errIdx == 0, "errIdx": errIdx, "rpcError": ""})
				mu.Unlock()
			}
		}(c, conn, seed*1000+int64(c))
	}
	wg.Wait()
	if firstErr != nil {
		return nil, firstErr
	}
	final, _, err := in.Observe()
	if err != nil {
		return nil, err
	}
	tr.Final = final
	for _, m := range in.Mons {
		msgs, errs := m.take()
		if len(errs) > 0 {
			return nil, fmt.Errorf("monitor %s: %v", m.ID, errs)
		}
		ev := map[string]interface{}{"mon": m.ID, "enc": m.Enc, "req": m.Req, "msgs": msgs, "late": false, "inv": 0, "ret": 0,
			"init": map[string]interface{}{}}
		if l, ok := late[m.ID]; ok {
			ev["late"], ev["inv"], ev["ret"], ev["init"] = true, l.inv, l.ret, l.init
		}
		tr.Mons = append(tr.Mons, ev)
	}
	return tr, nil
}
