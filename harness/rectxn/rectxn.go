// Package rectxn runs transactions against the real in-memory database and
// transaction engine (directly, or through the real OVSDB server with raw
// monitoring peers) and records one ndjson event per step for TraceTxn.tla.
package rectxn

import (
	"encoding/json"
	"fmt"
	"io"
	"math/rand"
	"os"
	"path/filepath"
	"runtime/debug"
	"sort"
	"strings"
	"sync"
	"time"

	"github.com/google/uuid"
	"github.com/ovn-org/libovsdb/database"
	"github.com/ovn-org/libovsdb/database/inmemory"
	"github.com/ovn-org/libovsdb/model"
	"github.com/ovn-org/libovsdb/ovsdb"
	"github.com/ovn-org/libovsdb/server"

	"vh/abs"
	"vh/rawrpc"
)

// Inst is one database instance (optionally behind a server).
type Inst struct {
	ID   int
	Ctx  *abs.Ctx
	DB   database.Database
	Srv  *server.OvsdbServer
	Sock string
	Tx   *rawrpc.Conn
	Mons []*Mon
	// Decorate, when set, may rewrite a txn event before it is emitted (the model API runs record theirs as "apitxn")
	Decorate func(ev map[string]interface{})
}

// Mon is one monitor held by a raw peer connection.
type Mon struct {
	ID   string
	Enc  int
	Req  map[string]interface{} // abstract request
	Conn *rawrpc.Conn
	mu   sync.Mutex
	msgs []interface{}
	errs []string
	inst *Inst
	// AckDelay makes the peer slow to acknowledge update notifications (the server waits for the
	// acknowledgement inside its transaction lock: transactions stay in flight for longer)
	AckDelay time.Duration
}

func NewInst(id int, b *abs.Built, tok *abs.Tokens, withServer bool, dir string) (*Inst, error) {
	ctx := &abs.Ctx{Built: b, Tok: tok}
	db := inmemory.NewDatabase(map[string]model.ClientDBModel{b.Abs.Name: b.ClientDB})
	in := &Inst{ID: id, Ctx: ctx, DB: db}
	if !withServer {
		if err := db.CreateDatabase(b.Abs.Name, b.Schema); err != nil {
			return nil, err
		}
		return in, nil
	}
	srv, err := server.NewOvsdbServer(db, b.DBModel)
	if err != nil {
		return nil, err
	}
	in.Srv = srv
	in.Sock = filepath.Join(dir, fmt.Sprintf("s%d-%d.sock", id, rand.Int63()))
	go func() { _ = srv.Serve("unix", in.Sock) }()
	for i := 0; i < 200 && !srv.Ready(); i++ {
		time.Sleep(5 * time.Millisecond)
	}
	if !srv.Ready() {
		return nil, fmt.Errorf("server did not become ready")
	}
	c, err := rawrpc.Dial("unix", in.Sock)
	if err != nil {
		return nil, err
	}
	c.Start()
	in.Tx = c
	return in, nil
}

func (in *Inst) Close() {
	for _, m := range in.Mons {
		m.Conn.Close()
	}
	if in.Tx != nil {
		in.Tx.Close()
	}
	if in.Srv != nil {
		in.Srv.Close()
		os.Remove(in.Sock)
	}
}

// libFrames keeps the frames of a stack trace that lie in the library.
func libFrames(st string) string {
	var out []string
	for _, l := range strings.Split(st, "\n") {
		if strings.Contains(l, "/repo/") {
			out = append(out, strings.TrimSpace(l))
		}
	}
	if len(out) > 6 {
		out = out[:6]
	}
	return strings.Join(out, " | ")
}

// Transact executes the operations the way the server does: Transact, then
// Commit unless a result carries an error.
func (in *Inst) Transact(ops []ovsdb.Operation) (results []*ovsdb.OperationResult, err error) {
	name := in.Ctx.Abs.Name
	if in.Srv == nil {
		// a panic of the engine is an outcome to be judged, not a harness failure
		defer func() {
			if r := recover(); r != nil {
				results, err = nil, fmt.Errorf("panic: %v\n%s", r, libFrames(string(debug.Stack())))
			}
		}()
		tx := in.DB.NewTransaction(name)
		res, upd := tx.Transact(ops...)
		for _, r := range res {
			if r != nil && r.Error != "" {
				return res, nil
			}
		}
		if cerr := in.DB.Commit(name, uuid.New(), upd); cerr != nil {
			return res, fmt.Errorf("commit: %v", cerr)
		}
		return res, nil
	}
	params := []interface{}{name}
	for _, o := range ops {
		params = append(params, o)
	}
	raw, err := in.Tx.Call("transact", params, 20*time.Second)
	if err != nil {
		return nil, err
	}
	if err := json.Unmarshal(raw, &results); err != nil {
		return nil, fmt.Errorf("transact reply does not decode: %v: %s", err, string(raw))
	}
	return results, nil
}

// AddMonitor registers a monitor through a fresh raw connection.
// req: table -> {"columns":[..],"initial":b,"insert":b,"delete":b,"modify":b}
func (in *Inst) AddMonitor(id string, method string, req map[string]interface{}) (*Mon, map[string]interface{}, error) {
	c, err := rawrpc.Dial("unix", in.Sock)
	if err != nil {
		return nil, nil, err
	}
	enc := 2
	if method == "monitor" {
		enc = 1
	}
	m := &Mon{ID: id, Enc: enc, Req: req, Conn: c, inst: in}
	c.OnRequest = func(method string, params json.RawMessage) (interface{}, error) {
		if method == "echo" {
			var p []interface{}
			_ = json.Unmarshal(params, &p)
			return p, nil
		}
		m.onUpdate(method, params)
		if m.AckDelay > 0 {
			time.Sleep(m.AckDelay)
		}
		// rpc2 treats a null result as an error and shuts the connection down
		return []interface{}{}, nil
	}
	c.Start()
	wire := map[string]interface{}{}
	for t, r := range req {
		rm := r.(map[string]interface{})
		w := map[string]interface{}{}
		form, _ := rm["wire"].(string)
		if form != "nocols" && form != "bare" {
			w["columns"] = rm["columns"]
		}
		switch form {
		case "nosel", "bare":
		case "partial":
			sel := map[string]interface{}{}
			for _, f := range []string{"initial", "insert", "delete", "modify"} {
				if b, ok := rm[f].(bool); ok && !b {
					sel[f] = false
				}
			}
			w["select"] = sel
		default:
			w["select"] = map[string]interface{}{
				"initial": rm["initial"], "insert": rm["insert"], "delete": rm["delete"], "modify": rm["modify"],
			}
		}
		wire[t] = w
	}
	params := []interface{}{in.Ctx.Abs.Name, id, wire}
	if method == "monitor_cond_since" {
		params = append(params, "00000000-0000-0000-0000-000000000000")
	}
	raw, err := c.Call(method, params, 20*time.Second)
	if err != nil {
		c.Close()
		return nil, nil, err
	}
	initial := map[string]interface{}{}
	switch method {
	case "monitor":
		var tu ovsdb.TableUpdates
		if err := json.Unmarshal(raw, &tu); err != nil {
			return nil, nil, fmt.Errorf("monitor reply: %v", err)
		}
		a, err := m.absUpdates1(tu)
		if err != nil {
			return nil, nil, err
		}
		initial = a
	case "monitor_cond":
		var tu ovsdb.TableUpdates2
		if err := json.Unmarshal(raw, &tu); err != nil {
			return nil, nil, fmt.Errorf("monitor_cond reply: %v", err)
		}
		a, err := m.absUpdates2(tu)
		if err != nil {
			return nil, nil, err
		}
		initial = a
	default:
		var r ovsdb.MonitorCondSinceReply
		if err := json.Unmarshal(raw, &r); err != nil {
			return nil, nil, fmt.Errorf("monitor_cond_since reply: %v", err)
		}
		a, err := m.absUpdates2(r.Updates)
		if err != nil {
			return nil, nil, err
		}
		initial = a
	}
	// the initial reply as table -> uuid -> row
	init := map[string]interface{}{}
	for t, tm := range initial {
		rows := map[string]interface{}{}
		for u, ru := range tm.(map[string]interface{}) {
			rows[u] = ru.(map[string]interface{})["new"]
		}
		init[t] = rows
	}
	in.Mons = append(in.Mons, m)
	return m, init, nil
}

func (m *Mon) onUpdate(method string, params json.RawMessage) {
	m.mu.Lock()
	defer m.mu.Unlock()
	var p []json.RawMessage
	if err := json.Unmarshal(params, &p); err != nil || len(p) < 2 {
		m.errs = append(m.errs, fmt.Sprintf("%s: bad params %s", method, string(params)))
		return
	}
	body := p[len(p)-1]
	var tu map[string]interface{}
	var err error
	if m.Enc == 1 {
		var u ovsdb.TableUpdates
		if err = json.Unmarshal(body, &u); err == nil {
			tu, err = m.absUpdates1(u)
		}
	} else {
		var u ovsdb.TableUpdates2
		if err = json.Unmarshal(body, &u); err == nil {
			tu, err = m.absUpdates2(u)
		}
	}
	if err != nil {
		m.errs = append(m.errs, fmt.Sprintf("%s: %v: %s", method, err, string(body)))
		return
	}
	m.msgs = append(m.msgs, map[string]interface{}{"method": method, "tu": tu})
}

func (m *Mon) take() ([]interface{}, []string) {
	m.mu.Lock()
	defer m.mu.Unlock()
	msgs, errs := m.msgs, m.errs
	m.msgs, m.errs = nil, nil
	if msgs == nil {
		msgs = []interface{}{}
	}
	return msgs, errs
}

func (m *Mon) absRow(t string, r *ovsdb.Row) (bool, map[string]interface{}, error) {
	if r == nil {
		return false, map[string]interface{}{}, nil
	}
	_, a, err := m.inst.Ctx.OvsRowToAbs(t, *r)
	if err != nil {
		return true, nil, err
	}
	return true, a, nil
}

func (m *Mon) absUpdates1(tu ovsdb.TableUpdates) (map[string]interface{}, error) {
	out := map[string]interface{}{}
	for t, tbl := range tu {
		rows := map[string]interface{}{}
		for u, ru := range tbl {
			hasOld, old, err := m.absRow(t, ru.Old)
			if err != nil {
				return nil, err
			}
			hasNew, nw, err := m.absRow(t, ru.New)
			if err != nil {
				return nil, err
			}
			k := "none"
			switch {
			case hasNew && !hasOld:
				k = "insert"
			case hasNew && hasOld:
				k = "modify"
			case hasOld:
				k = "delete"
			}
			rows[m.inst.Ctx.Tok.ToToken(u)] = map[string]interface{}{"k": k, "hasOld": hasOld, "old": old, "hasNew": hasNew, "new": nw}
		}
		out[t] = rows
	}
	return out, nil
}

func (m *Mon) absUpdates2(tu ovsdb.TableUpdates2) (map[string]interface{}, error) {
	out := map[string]interface{}{}
	for t, tbl := range tu {
		rows := map[string]interface{}{}
		for u, ru := range tbl {
			var k string
			var r *ovsdb.Row
			n := 0
			if ru.Initial != nil {
				k, r = "insert", ru.Initial
				n++
			}
			if ru.Insert != nil {
				k, r = "insert", ru.Insert
				n++
			}
			if ru.Modify != nil {
				k, r = "modify", ru.Modify
				n++
			}
			if ru.Delete != nil {
				k, r = "delete", nil
				n++
			}
			if n != 1 {
				return nil, fmt.Errorf("row update2 for %s carries %d members", u, n)
			}
			_, a, err := m.absRow(t, r)
			if err != nil {
				return nil, err
			}
			rows[m.inst.Ctx.Tok.ToToken(u)] = map[string]interface{}{"k": k, "hasOld": false, "old": map[string]interface{}{}, "hasNew": r != nil, "new": a}
		}
		out[t] = rows
	}
	return out, nil
}

// Recorder writes events.
type Recorder struct {
	W   io.Writer
	enc *json.Encoder
	N   int
}

func NewRecorder(w io.Writer) *Recorder {
	return &Recorder{W: w, enc: json.NewEncoder(w)}
}

func (r *Recorder) Emit(ev map[string]interface{}) error {
	r.N++
	return r.enc.Encode(ev)
}

// Observe dumps the database state and reference index.
func (in *Inst) Observe() (map[string]interface{}, []interface{}, error) {
	dump, err := in.Ctx.Dump(in.DB)
	if err != nil {
		return nil, nil, err
	}
	refs, err := in.Ctx.DumpRefs(in.DB, dump)
	if err != nil {
		return nil, nil, err
	}
	return dump, refs, nil
}

// RunTxn executes one abstract transaction and emits its event.
func (in *Inst) RunTxn(rec *Recorder, aops []abs.AOp) (map[string]interface{}, error) {
	ops := make([]ovsdb.Operation, 0, len(aops))
	for _, a := range aops {
		o, err := in.Ctx.ToOp(a)
		if err != nil {
			return nil, fmt.Errorf("rendering %+v: %v", a, err)
		}
		ops = append(ops, o)
	}
	results, err := in.Transact(ops)
	commitErr := ""
	if err != nil {
		// the engine accepted the transaction but applying it failed (or the
		// server answered with an RPC error): recorded, judged by the trace spec
		commitErr = err.Error()
		if results == nil {
			results = []*ovsdb.OperationResult{}
		}
	}
	return in.RecordTxn(rec, aops, results, commitErr, false)
}

// RecordTxn observes the database after a transaction and emits its event.
// padded: the results were decoded by a client, which turns the null padding
// after a failed operation into empty results.
func (in *Inst) RecordTxn(rec *Recorder, aops []abs.AOp, results []*ovsdb.OperationResult, commitErr string, padded bool) (map[string]interface{}, error) {
	if padded {
		failed := false
		for i, r := range results {
			if failed {
				results[i] = nil
			} else if r != nil && r.Error != "" {
				failed = true
			}
		}
	}
	ares := []interface{}{}
	errIdx := 0
	errKind := ""
	for i, r := range results {
		var a abs.AOp
		if i < len(aops) {
			a = aops[i]
		}
		if i < len(aops) && a.Op == "insert" && a.NoUUID && r != nil && r.Error == "" && strings.HasPrefix(a.UUID, "g") {
			// replaying a recorded trace: keep the recorded token for the
			// uuid the server chose this time
			in.Ctx.Tok.Bind(a.UUID, r.UUID.GoUUID)
		}
		ar, err := in.Ctx.ResultToAbs(a, r)
		if err != nil {
			return nil, err
		}
		if ar.Kind == "error" && errIdx == 0 {
			errIdx = i + 1
			errKind = abs.ErrKind(ar.Err)
		}
		if i < len(aops) && aops[i].Op == "insert" && aops[i].NoUUID && ar.Kind == "uuid" {
			aops[i].UUID = ar.UUID
		}
		ares = append(ares, ar)
	}
	dump, refs, err := in.Observe()
	if err != nil {
		ob, _ := json.Marshal(aops)
		return nil, fmt.Errorf("%v (after operations %s)", err, string(ob))
	}
	notifs := []interface{}{}
	for _, m := range in.Mons {
		msgs, errs := m.take()
		if len(errs) > 0 {
			return nil, fmt.Errorf("monitor %s: %v", m.ID, errs)
		}
		notifs = append(notifs, map[string]interface{}{"mon": m.ID, "msgs": msgs})
	}
	ev := map[string]interface{}{
		"ev": "txn", "db": in.ID, "ops": aops, "results": ares, "committed": errIdx == 0 && commitErr == "",
		"errIdx": errIdx, "errKind": errKind, "post": dump, "refs": refs, "notifs": notifs, "commitErr": commitErr,
	}
	if in.Decorate != nil {
		in.Decorate(ev)
	}
	if err := rec.Emit(ev); err != nil {
		return nil, err
	}
	return dump, nil
}

// LoadFrom fills a fresh instance with the rows of dump in one transaction.
func (in *Inst) LoadFrom(rec *Recorder, from int, dump map[string]interface{}) error {
	failed := ""
	var aops []abs.AOp
	tables := []string{}
	for t := range dump {
		tables = append(tables, t)
	}
	sort.Strings(tables)
	for _, t := range tables {
		tm := dump[t].(map[string]interface{})
		us := []string{}
		for u := range tm {
			us = append(us, u)
		}
		sort.Strings(us)
		for _, u := range us {
			row := map[string]interface{}{}
			for c, v := range tm[u].(map[string]interface{}) {
				// the default value is what an omitted column gets anyway
				if abs.IsDefaultAbs(in.Ctx.Abs.Tables[t].Cols[c], v) {
					continue
				}
				row[c] = v
			}
			o := abs.AOp{Op: "insert", Table: t, UUID: u, Row: row}
			o.Normalize()
			aops = append(aops, o)
		}
	}
	if len(aops) > 0 {
		ops := make([]ovsdb.Operation, 0, len(aops))
		for _, a := range aops {
			o, err := in.Ctx.ToOp(a)
			if err != nil {
				return err
			}
			ops = append(ops, o)
		}
		// a reload that the engine refuses is an observation (the contents were legal where they came
		// from): the event then shows a database that differs from its source
		results, err := in.Transact(ops)
		if err != nil {
			failed = err.Error()
		}
		for _, r := range results {
			if r != nil && r.Error != "" && failed == "" {
				failed = fmt.Sprintf("reload transaction failed: %s %s", r.Error, r.Details)
			}
		}
	}
	post, refs, err := in.Observe()
	if err != nil {
		return err
	}
	return rec.Emit(map[string]interface{}{"ev": "load", "db": in.ID, "from": from, "post": post, "refs": refs, "failed": failed})
}

// RandomMonitorReq draws a monitor request over the schema.
func RandomMonitorReq(s *abs.Schema, rnd *rand.Rand, allSelected bool) map[string]interface{} {
	req := map[string]interface{}{}
	tables := s.TableNames()
	for _, t := range tables {
		if rnd.Intn(3) == 0 && len(req) > 0 {
			continue
		}
		cols := []interface{}{}
		for _, c := range s.Tables[t].ColNames() {
			if rnd.Intn(4) != 0 {
				cols = append(cols, c)
			}
		}
		if len(cols) == 0 {
			cols = append(cols, s.Tables[t].ColNames()[0])
		}
		sel := func() bool { return allSelected || rnd.Intn(4) != 0 }
		r := map[string]interface{}{"columns": cols, "initial": true, "insert": sel(), "delete": sel(), "modify": sel(), "wire": "full"}
		// the request as sent: members may be left out, which means "everything" (RFC 7047 4.1.5)
		switch rnd.Intn(8) {
		case 0:
			r["wire"] = "nosel"
			r["insert"], r["delete"], r["modify"] = true, true, true
		case 1:
			r["wire"] = "nocols"
			all := []interface{}{}
			for _, c := range s.Tables[t].ColNames() {
				all = append(all, c)
			}
			r["columns"] = all
		case 2:
			r["wire"] = "bare"
			all := []interface{}{}
			for _, c := range s.Tables[t].ColNames() {
				all = append(all, c)
			}
			r["columns"] = all
			r["insert"], r["delete"], r["modify"] = true, true, true
		case 3:
			r["wire"] = "partial" // only the flags that are false are sent
		}
		req[t] = r
	}
	if len(req) == 0 {
		t := tables[0]
		cols := []interface{}{}
		for _, c := range s.Tables[t].ColNames() {
			cols = append(cols, c)
		}
		req[t] = map[string]interface{}{"columns": cols, "initial": true, "insert": true, "delete": true, "modify": true}
	}
	return req
}

// DBRows lists the uuid tokens of a table's rows, sorted.
func (in *Inst) DBRows(table string) []string {
	rows, err := in.DB.List(in.Ctx.Abs.Name, table)
	if err != nil {
		return nil
	}
	var out []string
	for u := range rows {
		out = append(out, in.Ctx.Tok.ToToken(u))
	}
	sort.Strings(out)
	return out
}
