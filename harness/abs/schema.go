// Package abs holds the abstract (TLA+-side) description of schemas and values
// and the conversions between it and libovsdb's native / OVSDB notations.
//
// The abstract schema JSON is the single source of truth shared by the TLA+
// specification (Schema.tla reads it with JsonDeserialize) and the Go harness
// (which derives the real OVSDB schema and run-time model structs from it).
package abs

import (
	"encoding/json"
	"fmt"
	"os"
	"reflect"
	"sort"
	"strings"

	"github.com/ovn-org/libovsdb/model"
	"github.com/ovn-org/libovsdb/ovsdb"
)

// BaseT is an OVSDB <base-type> restricted to what the specification models.
type BaseT struct {
	T    string   `json:"t"`    // integer|real|boolean|string|uuid, "" when absent (map value of a non-map)
	Ref  string   `json:"ref"`  // refTable or ""
	RT   string   `json:"rt"`   // strong|weak or ""
	Enum []string `json:"enum"` // string enum members (empty = no enum)
}

// Col is one column. Kind is derived data kept explicit for the TLA+ side:
// atom (min=max=1), opt (0..1), set (anything else without value), map.
type Col struct {
	Kind string `json:"kind"`
	Key  BaseT  `json:"key"`
	Val  BaseT  `json:"val"`
	Min  int    `json:"min"`
	Max  int    `json:"max"` // -1 = unlimited
	Mut  bool   `json:"mut"`
}

// CKey is one column (optionally one map key) of a client index.
type CKey struct {
	Col string `json:"col"`
	Key string `json:"key"` // "" = whole column
}

type Table struct {
	IsRoot  bool           `json:"isRoot"`
	Indexes [][]string     `json:"indexes"`
	CIdx    [][]CKey       `json:"cidx"`
	Cols    map[string]Col `json:"cols"`
}

type Schema struct {
	Name   string           `json:"name"`
	Tables map[string]Table `json:"tables"`
}

func LoadSchema(path string) (*Schema, error) {
	b, err := os.ReadFile(path)
	if err != nil {
		return nil, err
	}
	return ParseSchema(b)
}

func ParseSchema(b []byte) (*Schema, error) {
	var s Schema
	if err := json.Unmarshal(b, &s); err != nil {
		return nil, err
	}
	for tn, t := range s.Tables {
		for cn, c := range t.Cols {
			k := KindOf(c)
			if c.Kind == "" {
				c.Kind = k
				t.Cols[cn] = c
			} else if c.Kind != k {
				return nil, fmt.Errorf("%s.%s: kind %s does not match min/max/value (%s)", tn, cn, c.Kind, k)
			}
		}
	}
	return &s, nil
}

func KindOf(c Col) string {
	switch {
	case c.Val.T != "":
		return "map"
	case c.Min == 1 && c.Max == 1:
		return "atom"
	case c.Min == 0 && c.Max == 1:
		return "opt"
	default:
		return "set"
	}
}

// Normalize fills nil slices so that the JSON never contains null (TLC's Json
// module rejects null) and every record has the same fields.
func (s *Schema) Normalize() {
	for tn, t := range s.Tables {
		if t.Indexes == nil {
			t.Indexes = [][]string{}
		}
		if t.CIdx == nil {
			t.CIdx = [][]CKey{}
		}
		for cn, c := range t.Cols {
			if c.Key.Enum == nil {
				c.Key.Enum = []string{}
			}
			if c.Val.Enum == nil {
				c.Val.Enum = []string{}
			}
			c.Kind = KindOf(c)
			t.Cols[cn] = c
		}
		s.Tables[tn] = t
	}
}

func (s *Schema) JSON() []byte {
	s.Normalize()
	b, err := json.Marshal(s)
	if err != nil {
		panic(err)
	}
	return b
}

func (s *Schema) TableNames() []string {
	var r []string
	for t := range s.Tables {
		r = append(r, t)
	}
	sort.Strings(r)
	return r
}

func (t Table) ColNames() []string {
	var r []string
	for c := range t.Cols {
		r = append(r, c)
	}
	sort.Strings(r)
	return r
}

func baseJSON(b BaseT) interface{} {
	if b.Ref == "" && len(b.Enum) == 0 {
		return b.T
	}
	m := map[string]interface{}{"type": b.T}
	if b.Ref != "" {
		m["refTable"] = b.Ref
		if b.RT != "" {
			m["refType"] = b.RT
		}
	}
	if len(b.Enum) > 0 {
		es := make([]interface{}, len(b.Enum))
		for i, e := range b.Enum {
			es[i] = e
		}
		m["enum"] = []interface{}{"set", es}
	}
	return m
}

// OVSDBSchemaJSON renders the RFC 7047 <database-schema>.
func (s *Schema) OVSDBSchemaJSON() []byte {
	tables := map[string]interface{}{}
	for tn, t := range s.Tables {
		cols := map[string]interface{}{}
		for cn, c := range t.Cols {
			var typ interface{}
			simple := c.Min == 1 && c.Max == 1 && c.Val.T == ""
			if simple && c.Key.Ref == "" && len(c.Key.Enum) == 0 {
				typ = c.Key.T
			} else {
				m := map[string]interface{}{"key": baseJSON(c.Key)}
				if c.Val.T != "" {
					m["value"] = baseJSON(c.Val)
				}
				if !simple {
					m["min"] = c.Min
					if c.Max < 0 {
						m["max"] = "unlimited"
					} else {
						m["max"] = c.Max
					}
				}
				typ = m
			}
			cm := map[string]interface{}{"type": typ}
			if !c.Mut {
				cm["mutable"] = false
			}
			cols[cn] = cm
		}
		tm := map[string]interface{}{"columns": cols}
		if len(t.Indexes) > 0 {
			tm["indexes"] = t.Indexes
		}
		if t.IsRoot {
			tm["isRoot"] = true
		}
		tables[tn] = tm
	}
	b, err := json.Marshal(map[string]interface{}{"name": s.Name, "version": "1.0.0", "tables": tables})
	if err != nil {
		panic(err)
	}
	return b
}

func atomGoType(t string) reflect.Type {
	switch t {
	case "integer":
		return reflect.TypeOf(0)
	case "real":
		return reflect.TypeOf(0.0)
	case "boolean":
		return reflect.TypeOf(true)
	default:
		return reflect.TypeOf("")
	}
}

func (c Col) GoType() reflect.Type {
	k := atomGoType(c.Key.T)
	switch KindOf(c) {
	case "atom":
		return k
	case "opt":
		return reflect.PtrTo(k)
	case "set":
		return reflect.SliceOf(k)
	default:
		return reflect.MapOf(k, atomGoType(c.Val.T))
	}
}

// FieldName is the Go field name used for a column in run-time structs.
func FieldName(col string) string {
	if col == "_uuid" {
		return "UUID"
	}
	return "F_" + strings.ReplaceAll(col, "-", "_")
}

// Built is everything derived from an abstract schema that the drivers need.
type Built struct {
	Abs      *Schema
	Schema   ovsdb.DatabaseSchema
	Types    map[string]reflect.Type // table -> struct type
	ClientDB model.ClientDBModel
	DBModel  model.DatabaseModel
}

// Build derives the OVSDB schema, run-time model structs (reflect.StructOf) and
// the database model. withClientIdx registers the schema's client indexes.
func Build(s *Schema, withClientIdx bool) (*Built, error) {
	s.Normalize()
	var ds ovsdb.DatabaseSchema
	if err := json.Unmarshal(s.OVSDBSchemaJSON(), &ds); err != nil {
		return nil, fmt.Errorf("schema does not parse: %v", err)
	}
	b := &Built{Abs: s, Schema: ds, Types: map[string]reflect.Type{}}
	models := map[string]model.Model{}
	for tn, t := range s.Tables {
		fields := []reflect.StructField{{
			Name: "UUID", Type: reflect.TypeOf(""), Tag: reflect.StructTag(`ovsdb:"_uuid" json:"_uuid"`),
		}}
		for _, cn := range t.ColNames() {
			c := t.Cols[cn]
			fields = append(fields, reflect.StructField{
				Name: FieldName(cn),
				Type: c.GoType(),
				Tag:  reflect.StructTag(fmt.Sprintf(`ovsdb:"%s" json:"%s"`, cn, cn)),
			})
		}
		st := reflect.StructOf(fields)
		b.Types[tn] = st
		models[tn] = reflect.New(st).Interface()
	}
	cdb, err := model.NewClientDBModel(s.Name, models)
	if err != nil {
		return nil, err
	}
	if withClientIdx {
		idx := map[string][]model.ClientIndex{}
		for tn, t := range s.Tables {
			for _, ci := range t.CIdx {
				var cks []model.ColumnKey
				for _, ck := range ci {
					k := model.ColumnKey{Column: ck.Col}
					if ck.Key != "" {
						k.Key = ck.Key
					}
					cks = append(cks, k)
				}
				idx[tn] = append(idx[tn], model.ClientIndex{Columns: cks})
			}
		}
		cdb.SetIndexes(idx)
	}
	b.ClientDB = cdb
	dbm, errs := model.NewDatabaseModel(ds, cdb)
	if len(errs) > 0 {
		return nil, fmt.Errorf("database model: %v", errs)
	}
	b.DBModel = dbm
	return b, nil
}

// GoAtomType is the Go type of an atom of the given OVSDB type.
func GoAtomType(t string) reflect.Type { return atomGoType(t) }
