package abs

import (
	"fmt"
	"math/rand"
	"os"
	"sort"
	"strconv"
)

// Gen generates random transactions against a schema, guided by the abstract
// database state reported by the previous event (so that conditions match,
// references resolve, indexes collide, and so on, with useful frequency).
type Gen struct {
	S    *Schema
	Rnd  *rand.Rand
	St   map[string]map[string]map[string]interface{} // table -> uuid token -> row
	next int                                          // next fresh uuid number
	P    Profile
	// transactions a scenario has lined up after the one it returned (a set-up followed by the scenario proper)
	queue [][]AOp
	// how often each scripted scenario was produced (a scenario that never fires checks nothing)
	Stats map[string]int
}

// Profile biases the generator towards the behaviour one property is about.
type Profile struct {
	Fail    float64 // probability that a transaction gets a deliberately failing operation
	Refs    float64 // weight of reference-moving operations
	Index   float64 // weight of index-colliding values
	Names   float64 // probability of using named uuids
	Waits   float64 // probability of a wait operation
	MaxOps  int
	NoUUIDs float64 // probability that an insert leaves the uuid to the server
}

func DefaultProfile() Profile {
	return Profile{Fail: 0.15, Refs: 0.4, Index: 0.3, Names: 0.25, Waits: 0.1, MaxOps: 4, NoUUIDs: 0.1}
}

func ProfileFor(prop string) Profile {
	p := DefaultProfile()
	switch prop {
	case "C02":
		p.Fail = 0.6
	case "C03":
		p.Fail = 0.05
		p.Waits = 0.2
	case "C04":
		p.Refs = 0.8
		p.Fail = 0.1
	case "C06":
		p.Index = 0.8
		p.Fail = 0.05
	case "C15":
		p.Names = 0.9
		p.Fail = 0.05
	case "C07":
		p.Fail = 0.1
	}
	return p
}

func NewGen(s *Schema, seed int64, p Profile) *Gen {
	return &Gen{S: s, Rnd: rand.New(rand.NewSource(seed)), St: map[string]map[string]map[string]interface{}{}, next: 1, P: p}
}

// SetState installs the database contents reported by the implementation.
func (g *Gen) SetState(dump map[string]interface{}) {
	g.St = map[string]map[string]map[string]interface{}{}
	for t, tm := range dump {
		g.St[t] = map[string]map[string]interface{}{}
		for u, r := range tm.(map[string]interface{}) {
			g.St[t][u] = r.(map[string]interface{})
		}
	}
}

func (g *Gen) count(what string) {
	if g.Stats == nil {
		g.Stats = map[string]int{}
	}
	g.Stats[what]++
}

func (g *Gen) fresh() string {
	g.next++
	return fmt.Sprintf("u%d", g.next)
}

func (g *Gen) pick(n int) int { return g.Rnd.Intn(n) }
func (g *Gen) chance(p float64) bool {
	return g.Rnd.Float64() < p
}

func (g *Gen) tableNames() []string { return g.S.TableNames() }

func (g *Gen) uuidsOf(t string) []string {
	var r []string
	for u := range g.St[t] {
		r = append(r, u)
	}
	sort.Strings(r)
	return r
}

var strPool = []string{"a", "b", "c", "k1", "k2", "x", "n1", ""}
var intPool = []int{0, 1, 2, 3, 5, -1, -4, 7}
var realPool = []float64{0, 0.5, 1, 1.5, -2, 2.25, 4, -0.75}

// atom draws one abstract atom of a base type. pending are uuids (or "@names")
// of rows being inserted by the transaction under construction.
func (g *Gen) atom(bt BaseT, pending map[string][]string) interface{} {
	switch bt.T {
	case "integer":
		return intPool[g.pick(len(intPool))]
	case "real":
		r, _ := Real(realPool[g.pick(len(realPool))])
		return r
	case "boolean":
		return g.pick(2) == 0
	case "string":
		if len(bt.Enum) > 0 {
			return bt.Enum[g.pick(len(bt.Enum))]
		}
		return strPool[g.pick(len(strPool))]
	case "uuid":
		if bt.Ref == "" {
			return fmt.Sprintf("u%d", 900+g.pick(4))
		}
		us := g.uuidsOf(bt.Ref)
		pend := pending[bt.Ref]
		x := g.Rnd.Float64()
		switch {
		case len(pend) > 0 && x < 0.45:
			return pend[g.pick(len(pend))]
		case len(us) > 0 && x < 0.93:
			return us[g.pick(len(us))]
		default:
			// a row that does not exist
			return fmt.Sprintf("u%d", 800+g.pick(3))
		}
	}
	return ""
}

func (g *Gen) distinct(n int, f func() interface{}) []interface{} {
	seen := map[string]bool{}
	out := []interface{}{}
	for i := 0; i < n*3 && len(out) < n; i++ {
		a := f()
		k := atomKey(a)
		if seen[k] {
			continue
		}
		seen[k] = true
		out = append(out, a)
	}
	return out
}

// value draws an abstract value for a column, respecting min/max.
func (g *Gen) value(c Col, pending map[string][]string) interface{} {
	switch KindOf(c) {
	case "atom":
		return g.atom(c.Key, pending)
	case "opt":
		if g.chance(0.3) {
			return []interface{}{}
		}
		return []interface{}{g.atom(c.Key, pending)}
	case "set":
		n := g.pick(4)
		if n < c.Min {
			n = c.Min
		}
		if c.Max >= 0 && n > c.Max {
			n = c.Max
		}
		out := g.distinct(n, func() interface{} { return g.atom(c.Key, pending) })
		for len(out) < c.Min {
			// could not find enough distinct values; caller copes with a possible violation
			break
		}
		return out
	default:
		n := g.pick(4)
		if n < c.Min {
			n = c.Min
		}
		if c.Max >= 0 && n > c.Max {
			n = c.Max
		}
		keys := g.distinct(n, func() interface{} { return g.atom(c.Key, pending) })
		out := []interface{}{}
		for _, k := range keys {
			out = append(out, []interface{}{k, g.atom(c.Val, pending)})
		}
		return out
	}
}

// existingValue returns the value some existing row holds in the column (so
// that conditions match and index values collide), or a random value.
func (g *Gen) existingValue(t, cn string, c Col, pending map[string][]string) interface{} {
	us := g.uuidsOf(t)
	if len(us) > 0 && g.chance(0.7) {
		if v, ok := g.St[t][us[g.pick(len(us))]][cn]; ok {
			return v
		}
	}
	return g.value(c, pending)
}

// mixValue draws some elements (pairs) of a and some of b, without repeating an element (a key).
func (g *Gen) mixValue(c Col, a, b interface{}) interface{} {
	out := []interface{}{}
	seen := map[string]bool{}
	for _, src := range []interface{}{a, b} {
		xs, _ := src.([]interface{})
		for _, x := range xs {
			k := atomKey(x)
			if p, ok := x.([]interface{}); ok && KindOf(c) == "map" && len(p) == 2 {
				k = atomKey(p[0])
			}
			if seen[k] || !g.chance(0.6) || c.Max > 0 && len(out) >= c.Max {
				continue
			}
			seen[k] = true
			out = append(out, x)
		}
	}
	return out
}

func (g *Gen) cond(t string, pending map[string][]string) []interface{} {
	tb := g.S.Tables[t]
	cols := tb.ColNames()
	if g.chance(0.3) {
		us := g.uuidsOf(t)
		var u interface{} = "u999"
		if len(us) > 0 && g.chance(0.9) {
			u = us[g.pick(len(us))]
		} else if p := pending[t]; len(p) > 0 {
			u = p[g.pick(len(p))]
		}
		fn := "=="
		if g.chance(0.15) {
			fn = []string{"!=", "includes", "excludes"}[g.pick(3)]
		}
		return []interface{}{"_uuid", fn, u, "atom"}
	}
	cn := cols[g.pick(len(cols))]
	c := tb.Cols[cn]
	v := g.existingValue(t, cn, c, pending)
	if k := KindOf(c); (k == "set" || k == "map") && g.chance(0.4) {
		// an argument that overlaps a row's value only in part
		v = g.mixValue(c, v, g.value(c, pending))
	}
	switch KindOf(c) {
	case "atom":
		fns := []string{"==", "!=", "includes", "excludes"}
		if c.Key.T == "integer" || c.Key.T == "real" {
			fns = append(fns, "<", "<=", ">", ">=")
		}
		return []interface{}{cn, fns[g.pick(len(fns))], v, "atom"}
	case "opt":
		return []interface{}{cn, []string{"==", "!=", "includes", "excludes"}[g.pick(4)], v, "set"}
	case "set":
		a := v.([]interface{})
		fn := []string{"==", "!=", "includes", "excludes"}[g.pick(4)]
		if len(a) == 1 && g.chance(0.3) {
			return []interface{}{cn, fn, a, "set1"}
		}
		if g.chance(0.3) {
			// another order of the same elements
			b := make([]interface{}, len(a))
			for i := range a {
				b[i] = a[len(a)-1-i]
			}
			a = b
		}
		return []interface{}{cn, fn, a, "set"}
	default:
		a := v.([]interface{})
		return []interface{}{cn, []string{"==", "!=", "includes", "excludes"}[g.pick(4)], a, "col"}
	}
}

func (g *Gen) where(t string, pending map[string][]string) [][]interface{} {
	n := 0
	switch x := g.Rnd.Float64(); {
	case x < 0.15:
		n = 0
	case x < 0.8:
		n = 1
	case x < 0.95:
		n = 2
	default:
		n = 3
	}
	out := [][]interface{}{}
	for i := 0; i < n; i++ {
		out = append(out, g.cond(t, pending))
	}
	return out
}

func (g *Gen) mutation(t string, pending map[string][]string) []interface{} {
	tb := g.S.Tables[t]
	cols := tb.ColNames()
	for tries := 0; tries < 20; tries++ {
		cn := cols[g.pick(len(cols))]
		c := tb.Cols[cn]
		if !c.Mut && !g.chance(0.1) {
			continue
		}
		numeric := (c.Key.T == "integer" || c.Key.T == "real") && len(c.Key.Enum) == 0
		switch KindOf(c) {
		case "atom":
			if !numeric {
				continue
			}
			if c.Key.T == "integer" {
				m := []string{"+=", "-=", "*=", "/=", "%="}[g.pick(5)]
				a := []int{1, 2, 3, -2, 5}[g.pick(5)]
				return []interface{}{cn, m, a, "atom"}
			}
			m := []string{"+=", "-=", "*=", "/="}[g.pick(4)]
			var f float64
			if m == "/=" {
				f = []float64{2, -2, 0.5, 4}[g.pick(4)]
			} else {
				f = []float64{1, 0.5, -2, 1.5}[g.pick(4)]
			}
			r, _ := Real(f)
			return []interface{}{cn, m, r, "atom"}
		case "opt":
			// arithmetic and insert/delete on optional columns deviate in the
			// implementation (known findings, probed separately)
			continue
		case "set":
			if numeric && g.chance(0.4) {
				// += and -= keep the elements distinct
				m := []string{"+=", "-="}[g.pick(2)]
				if c.Key.T == "integer" {
					return []interface{}{cn, m, []int{1, 2, -3}[g.pick(3)], "atom"}
				}
				r, _ := Real([]float64{1, 0.5, -2}[g.pick(3)])
				return []interface{}{cn, m, r, "atom"}
			}
			m := "delete"
			if c.Max < 0 && g.chance(0.55) {
				m = "insert"
			}
			if m == "delete" && c.Min > 0 {
				continue
			}
			n := 1 + g.pick(2)
			var a []interface{}
			if m == "delete" && g.chance(0.7) {
				ev, _ := g.existingValue(t, cn, c, pending).([]interface{})
				a = ev
				if len(a) > 2 {
					a = a[:2]
				}
			}
			if len(a) == 0 {
				a = g.distinct(n, func() interface{} { return g.atom(c.Key, pending) })
			}
			if len(a) == 1 && g.chance(0.4) {
				return []interface{}{cn, m, a, "elem"}
			}
			return []interface{}{cn, m, a, "set"}
		default:
			if c.Min > 0 {
				continue
			}
			if g.chance(0.5) && c.Max < 0 {
				return []interface{}{cn, "insert", g.value(Col{Key: c.Key, Val: c.Val, Min: 1, Max: 3}, pending), "col"}
			}
			ev, _ := g.existingValue(t, cn, c, pending).([]interface{})
			if len(ev) == 0 {
				ev = g.value(Col{Key: c.Key, Val: c.Val, Min: 1, Max: 2}, pending).([]interface{})
			}
			if g.chance(0.5) {
				keys := []interface{}{}
				for _, p := range ev {
					keys = append(keys, p.([]interface{})[0])
				}
				return []interface{}{cn, "delete", keys, "keys"}
			}
			return []interface{}{cn, "delete", ev, "col"}
		}
	}
	return nil
}

func (g *Gen) rowFor(t string, insert bool, pending map[string][]string) map[string]interface{} {
	tb := g.S.Tables[t]
	row := map[string]interface{}{}
	cols := tb.ColNames()
	indexCols := map[string]bool{}
	for _, ix := range tb.Indexes {
		for _, c := range ix {
			indexCols[c] = true
		}
	}
	for _, cn := range cols {
		c := tb.Cols[cn]
		need := insert && (c.Min > 0 && KindOf(c) != "atom" || KindOf(c) == "atom" && c.Key.Ref != "")
		var p float64
		if insert {
			p = 0.45
			if indexCols[cn] {
				p = 0.9
			}
		} else {
			p = 1.5 / float64(len(cols))
			if !c.Mut {
				p = 0.03
			}
		}
		if !need && !g.chance(p) {
			continue
		}
		if indexCols[cn] && g.chance(g.P.Index) {
			row[cn] = g.existingValue(t, cn, c, pending)
		} else {
			row[cn] = g.value(c, pending)
		}
		// do not hand out cardinality violations by accident
		if a, ok := row[cn].([]interface{}); ok && len(a) < c.Min {
			if need {
				// no way to satisfy the minimum (e.g. no target rows): drop the column
				delete(row, cn)
			} else {
				delete(row, cn)
			}
		}
	}
	if !insert && len(row) == 0 {
		for _, cn := range cols {
			if tb.Cols[cn].Mut && tb.Cols[cn].Min == 0 {
				row[cn] = g.value(tb.Cols[cn], pending)
				break
			}
		}
	}
	return row
}

// RefScenario: a new row whose set (or map) of weak references holds a row that never existed and a row that
// the same commit garbage collects: the two are pruned in different passes over the references.
// pruneAndFill: a row loses its last weak reference at commit (the target is deleted) while an operation of the
// same transaction gives another column of the row, so far at its default, a value: the row's notification has
// to say both.
func (g *Gen) pruneAndFill() []AOp {
	isRoot := g.rootSemantics()
	type cand struct{ t, col, target, other string }
	var cands []cand
	for _, t := range g.tableNames() {
		if !isRoot(t) {
			continue
		}
		tb := g.S.Tables[t]
		for _, cn := range tb.ColNames() {
			c := tb.Cols[cn]
			if k := KindOf(c); (k == "set" || k == "opt") && c.Key.Ref != "" && c.Key.RT == "weak" && c.Min == 0 && c.Mut && isRoot(c.Key.Ref) {
				for _, on := range tb.ColNames() {
					o := tb.Cols[on]
					if ok := KindOf(o); on != cn && o.Mut && o.Min == 0 && (ok == "opt" || ok == "set") && o.Key.T == "string" && len(o.Key.Enum) == 0 && o.Key.Ref == "" {
						cands = append(cands, cand{t, cn, c.Key.Ref, on})
					}
				}
			}
		}
	}
	if len(cands) == 0 {
		return nil
	}
	c := cands[g.pick(len(cands))]
	x := g.fresh()
	xrow := g.MarkerRow(c.target, fmt.Sprintf("p%d", g.next), g.next)
	g.next++
	h := g.fresh()
	hrow := g.MarkerRow(c.t, fmt.Sprintf("ph%d", g.next), g.next)
	hrow[c.col] = []interface{}{x}
	delete(hrow, c.other)
	setup := []AOp{{Op: "insert", Table: c.target, UUID: x, Row: xrow}, {Op: "insert", Table: c.t, UUID: h, Row: hrow}}
	then := []AOp{{Op: "update", Table: c.t, Where: byUUID(h), Row: map[string]interface{}{c.other: []interface{}{"filled"}}},
		{Op: "delete", Table: c.target, Where: byUUID(x)}}
	if g.chance(0.5) {
		then[0], then[1] = then[1], then[0]
	}
	for _, ops := range [][]AOp{setup, then} {
		for i := range ops {
			ops[i].Normalize()
		}
	}
	g.queue = append(g.queue, then)
	g.count("weak-prune-and-fill")
	return setup
}

// backToDefault: a scalar column of a row is given a value and, in the next transaction, its type's default
// again (0, ""): the notification of the second change must say so.
func (g *Gen) backToDefault() []AOp {
	isRoot := g.rootSemantics()
	type cand struct{ t, col string }
	var cands []cand
	for _, t := range g.tableNames() {
		if !isRoot(t) {
			continue
		}
		indexed := map[string]bool{}
		for _, cn := range g.indexCols(t) {
			indexed[cn] = true
		}
		for _, cn := range g.S.Tables[t].ColNames() {
			c := g.S.Tables[t].Cols[cn]
			if KindOf(c) == "atom" && c.Mut && !indexed[cn] && c.Key.Ref == "" && len(c.Key.Enum) == 0 && (c.Key.T == "integer" || c.Key.T == "string") {
				cands = append(cands, cand{t, cn})
			}
		}
	}
	if len(cands) == 0 {
		return nil
	}
	c := cands[g.pick(len(cands))]
	u := g.fresh()
	row := g.MarkerRow(c.t, fmt.Sprintf("d%d", g.next), g.next)
	var some, def interface{} = "some", ""
	if g.S.Tables[c.t].Cols[c.col].Key.T == "integer" {
		some, def = 5, 0
	}
	row[c.col] = some
	setup := []AOp{{Op: "insert", Table: c.t, UUID: u, Row: row}}
	then := []AOp{{Op: "update", Table: c.t, Where: byUUID(u), Row: map[string]interface{}{c.col: def}}}
	setup[0].Normalize()
	then[0].Normalize()
	g.queue = append(g.queue, then)
	g.count("scalar-back-to-default")
	return setup
}

func (g *Gen) RefScenario() []AOp {
	if g.chance(0.25) {
		if ops := g.backToDefault(); ops != nil {
			return ops
		}
	}
	if g.chance(0.35) {
		if ops := g.pruneAndFill(); ops != nil {
			return ops
		}
	}
	isRoot := g.rootSemantics()
	type cand struct{ t, col, target string }
	var cands []cand
	for _, t := range g.tableNames() {
		for _, cn := range g.S.Tables[t].ColNames() {
			c := g.S.Tables[t].Cols[cn]
			if KindOf(c) == "set" && c.Key.Ref != "" && c.Key.RT == "weak" && !isRoot(c.Key.Ref) && (c.Max == -1 || c.Max >= 2) {
				cands = append(cands, cand{t, cn, c.Key.Ref})
			}
		}
	}
	if len(cands) == 0 {
		return nil
	}
	c := cands[g.pick(len(cands))]
	// a row of the non-root target table nobody refers to strongly: the commit collects it
	doomed := g.fresh()
	drow := g.MarkerRow(c.target, fmt.Sprintf("z%d", g.next), g.next)
	holder := g.fresh()
	hrow := g.MarkerRow(c.t, fmt.Sprintf("h%d", g.next), g.next)
	refs := []interface{}{doomed, fmt.Sprintf("u%d", 800+g.pick(3))}
	if us := g.uuidsOf(c.target); len(us) > 0 && g.chance(0.4) {
		refs = append(refs, us[g.pick(len(us))])
	}
	hrow[c.col] = refs
	ops := []AOp{{Op: "insert", Table: c.target, UUID: doomed, Row: drow}, {Op: "insert", Table: c.t, UUID: holder, Row: hrow}}
	if g.chance(0.5) {
		ops[0], ops[1] = ops[1], ops[0]
	}
	for i := range ops {
		ops[i].Normalize()
	}
	g.count("weak-prune-two-passes")
	return ops
}

// FailScenario: a row referenced from the same column of two rows; a transaction in which the first referrer
// drops its reference and which then fails; afterwards both drop it in transactions that commit. Nothing of the
// failed transaction may be left behind - in particular not in the database's index of references.
func (g *Gen) FailScenario() []AOp {
	isRoot := g.rootSemantics()
	type cand struct{ h, col, x string }
	var cands []cand
	for _, h := range g.tableNames() {
		if !isRoot(h) {
			continue
		}
		for _, cn := range g.S.Tables[h].ColNames() {
			c := g.S.Tables[h].Cols[cn]
			if KindOf(c) == "set" && c.Key.Ref != "" && c.Min == 0 && c.Max < 0 && c.Mut && (c.Key.RT != "weak" || isRoot(c.Key.Ref)) {
				cands = append(cands, cand{h, cn, c.Key.Ref})
			}
		}
	}
	if len(cands) == 0 {
		return nil
	}
	c := cands[g.pick(len(cands))]
	x := g.fresh()
	xrow := g.MarkerRow(c.x, fmt.Sprintf("f%d", g.next), g.next)
	h1, h2 := g.fresh(), g.fresh()
	r1 := g.MarkerRow(c.h, fmt.Sprintf("g%d", g.next), g.next)
	g.next++
	r2 := g.MarkerRow(c.h, fmt.Sprintf("g%d", g.next), g.next)
	r1[c.col] = []interface{}{x}
	r2[c.col] = []interface{}{x}
	setup := []AOp{{Op: "insert", Table: c.x, UUID: x, Row: xrow}, {Op: "insert", Table: c.h, UUID: h1, Row: r1}, {Op: "insert", Table: c.h, UUID: h2, Row: r2}}
	drop := func(h string) AOp {
		return AOp{Op: "mutate", Table: c.h, Where: byUUID(h), Mutations: [][]interface{}{{c.col, "delete", []interface{}{x}, "set"}}}
	}
	failing := []AOp{drop(h1), {Op: "insert", Table: "NoSuchTable", UUID: g.fresh(), Bad: true, BadKind: "table"}}
	switch y := g.Rnd.Float64(); {
	case y < 0.35:
		failing = []AOp{drop(h1), drop(h2), {Op: "frobnicate", Table: c.h, Bad: true, BadKind: "op"}}
	case y < 0.7 && len(g.S.Tables[c.h].Indexes) > 0:
		// every operation succeeds, the commit is refused: a third holder with the index values of the second
		dup := map[string]interface{}{}
		for _, ix := range g.S.Tables[c.h].Indexes {
			for _, cn := range ix {
				if v, ok := r2[cn]; ok {
					dup[cn] = v
				}
			}
		}
		if len(dup) > 0 {
			failing = []AOp{drop(h1), {Op: "insert", Table: c.h, UUID: g.fresh(), Row: dup}}
			g.count("drop-reference-then-fail-at-commit")
		}
	}
	after := []AOp{drop(h1), drop(h2)}
	for _, ops := range [][]AOp{setup, failing, after} {
		for i := range ops {
			ops[i].Normalize()
		}
	}
	g.queue = append(g.queue, failing, after)
	g.count("drop-reference-then-fail")
	return setup
}

// NameScenario: a named uuid in the less usual positions of one transaction - key of a map in an insert, then a
// set of keys (or one bare key) in a delete mutation of that map, then a condition on the map.
func (g *Gen) NameScenario() []AOp {
	if g.chance(0.5) {
		if ops := g.forwardCondScenario(); ops != nil {
			return ops
		}
	}
	type cand struct{ t, col, target string }
	var cands []cand
	for _, t := range g.tableNames() {
		for _, cn := range g.S.Tables[t].ColNames() {
			c := g.S.Tables[t].Cols[cn]
			if KindOf(c) == "map" && c.Key.T == "uuid" && c.Min == 0 && c.Max < 0 && c.Mut && (c.Val.T == "string" || c.Val.T == "integer") {
				cands = append(cands, cand{t, cn, c.Key.Ref})
			}
		}
	}
	if len(cands) == 0 {
		return nil
	}
	c := cands[g.pick(len(cands))]
	col := g.S.Tables[c.t].Cols[c.col]
	val := func() interface{} {
		if col.Val.T == "integer" {
			return 1 + g.pick(3)
		}
		return "v"
	}
	name := fmt.Sprintf("@s%d", g.next)
	var ops []AOp
	target := c.target
	if target == "" {
		// a plain uuid key: any named insert will do
		target = c.t
	}
	named := g.fresh()
	nrow := g.MarkerRow(target, fmt.Sprintf("q%d", g.next), g.next)
	if target == c.t {
		// the named row is the holder itself: it refers to itself by name
		nrow[c.col] = []interface{}{[]interface{}{name, val()}}
		ops = append(ops, AOp{Op: "insert", Table: c.t, UUID: named, UUIDName: name, Row: nrow})
	} else {
		ops = append(ops, AOp{Op: "insert", Table: target, UUID: named, UUIDName: name, Row: nrow})
		holder := g.fresh()
		hrow := g.MarkerRow(c.t, fmt.Sprintf("h%d", g.next), g.next)
		hrow[c.col] = []interface{}{[]interface{}{name, val()}}
		ops = append(ops, AOp{Op: "insert", Table: c.t, UUID: holder, Row: hrow})
		named = holder
	}
	ops = append(ops, AOp{Op: "mutate", Table: c.t, Where: byUUID(named), Mutations: [][]interface{}{{c.col, "delete", []interface{}{name}, "keys"}}})
	ops = append(ops, AOp{Op: "select", Table: c.t, Where: byUUID(named)})
	for i := range ops {
		ops[i].Normalize()
	}
	g.count("named-map-key-delete")
	return ops
}

// forwardCondScenario: conditions that name a row the transaction inserts only later. An insert without a
// name stores the name in a set (or optional) uuid column; a select and an update then look that row up by
// "includes <name>"; the named insert comes last.
func (g *Gen) forwardCondScenario() []AOp {
	type cand struct{ t, col, target string }
	var cands []cand
	for _, t := range g.tableNames() {
		for _, cn := range g.S.Tables[t].ColNames() {
			c := g.S.Tables[t].Cols[cn]
			if k := KindOf(c); (k == "set" || k == "opt") && c.Key.T == "uuid" && c.Min == 0 && c.Mut && len(c.Key.Enum) == 0 {
				cands = append(cands, cand{t, cn, c.Key.Ref})
			}
		}
	}
	if len(cands) == 0 {
		return nil
	}
	c := cands[g.pick(len(cands))]
	target := c.target
	if target == "" {
		target = c.t
	}
	name := fmt.Sprintf("@f%d", g.next)
	holder := g.fresh()
	hrow := g.MarkerRow(c.t, fmt.Sprintf("h%d", g.next), g.next)
	hrow[c.col] = []interface{}{name}
	where := [][]interface{}{{c.col, "includes", []interface{}{name}, "set"}}
	ops := []AOp{
		{Op: "insert", Table: c.t, UUID: holder, Row: hrow},
		{Op: "select", Table: c.t, Where: where},
		{Op: "update", Table: c.t, Where: where, Row: map[string]interface{}{c.col: []interface{}{name}}},
	}
	named := g.fresh()
	ops = append(ops, AOp{Op: "insert", Table: target, UUID: named, UUIDName: name, Row: g.MarkerRow(target, fmt.Sprintf("q%d", g.next), g.next)})
	ops = append(ops, AOp{Op: "select", Table: c.t, Where: byUUID(holder)})
	for i := range ops {
		ops[i].Normalize()
	}
	g.count("named-forward-condition")
	return ops
}

// Txn generates one transaction.
func (g *Gen) Txn() []AOp {
	if len(g.queue) > 0 {
		ops := g.queue[0]
		g.queue = g.queue[1:]
		return ops
	}
	if g.chance(0.12 * g.P.Refs) {
		if ops := g.RefScenario(); ops != nil {
			return ops
		}
	}
	if g.chance(0.25 * g.P.Fail) {
		if ops := g.FailScenario(); ops != nil {
			return ops
		}
	}
	if g.chance(0.15 * g.P.Names) {
		if ops := g.NameScenario(); ops != nil {
			return ops
		}
	}
	if g.chance(0.5*g.P.Index) || os.Getenv("VERIF_SCENARIO") != "" && g.chance(0.5) {
		if ops := g.Scenario(); ops != nil {
			return ops
		}
	}
	nops := 1 + g.pick(g.P.MaxOps)
	tables := g.tableNames()
	pending := map[string][]string{}
	useNames := g.chance(g.P.Names)
	// decide the inserts first so that earlier operations can refer forward
	type plan struct {
		kind   string
		table  string
		uuid   string
		name   string
		noUUID bool
	}
	kinds := []string{"insert", "insert", "update", "mutate", "mutate", "delete", "select"}
	var plans []plan
	nameN := 0
	for i := 0; i < nops; i++ {
		k := kinds[g.pick(len(kinds))]
		if g.chance(g.P.Waits) {
			k = "wait"
		}
		p := plan{kind: k, table: tables[g.pick(len(tables))]}
		if k == "insert" {
			p.uuid = g.fresh()
			if useNames && g.chance(0.8) {
				nameN++
				p.name = fmt.Sprintf("@n%d", nameN)
				pending[p.table] = append(pending[p.table], p.name)
			} else if g.chance(g.P.NoUUIDs) {
				// the server chooses the uuid; nothing else can refer to the row
				p.noUUID = true
			} else {
				pending[p.table] = append(pending[p.table], p.uuid)
			}
		}
		plans = append(plans, p)
	}
	var ops []AOp
	// now and then several operations of the transaction work on the same existing row
	// (accumulated updates, differences merged across operations)
	if g.chance(0.3) {
		t := tables[g.pick(len(tables))]
		if us := g.uuidsOf(t); len(us) > 0 {
			ops = append(ops, g.chain(t, us[g.pick(len(us))], pending)...)
		}
	}
	for _, p := range plans {
		o := AOp{Op: p.kind, Table: p.table}
		switch p.kind {
		case "insert":
			o.UUID = p.uuid
			o.UUIDName = p.name
			o.Row = g.rowFor(p.table, true, pending)
			o.NoUUID = p.noUUID
		case "update":
			o.Where = g.where(p.table, pending)
			o.Row = g.rowFor(p.table, false, pending)
			// now and then rewrite some columns of one particular row with the values they already hold
			// (sets in another element order) next to a real change
			if us := g.uuidsOf(p.table); len(us) > 0 && g.chance(0.3) {
				u := us[g.pick(len(us))]
				o.Where = [][]interface{}{{"_uuid", "==", u, "atom"}}
				tb := g.S.Tables[p.table]
				for _, cn := range tb.ColNames() {
					if _, set := o.Row[cn]; set || !tb.Cols[cn].Mut || !g.chance(0.4) {
						continue
					}
					v := g.St[p.table][u][cn]
					if a, ok := v.([]interface{}); ok && KindOf(tb.Cols[cn]) != "atom" && len(a) > 1 && g.chance(0.5) {
						b := make([]interface{}, len(a))
						for i := range a {
							b[i] = a[len(a)-1-i]
						}
						v = b
					}
					o.Row[cn] = v
				}
			}
		case "mutate":
			o.Where = g.where(p.table, pending)
			n := 1 + g.pick(2)
			for i := 0; i < n; i++ {
				if m := g.mutation(p.table, pending); m != nil {
					o.Mutations = append(o.Mutations, m)
				}
			}
			if len(o.Mutations) == 0 {
				o.Op = "select"
			}
		case "delete":
			o.Where = g.where(p.table, pending)
			if len(o.Where) == 0 && !g.chance(0.2) {
				o.Where = [][]interface{}{g.cond(p.table, pending)}
			}
		case "select":
			o.Where = g.where(p.table, pending)
			if g.chance(0.3) {
				o.HasColumns = true
				cols := g.S.Tables[p.table].ColNames()
				o.Columns = []string{cols[g.pick(len(cols))]}
			}
		case "wait":
			g.fillWait(&o, pending)
		}
		o.Normalize()
		ops = append(ops, o)
	}
	// waits compare with the state before the transaction (their expected rows
	// are built from it), so they go first
	var waits, rest []AOp
	for _, o := range ops {
		if o.Op == "wait" {
			waits = append(waits, o)
		} else {
			rest = append(rest, o)
		}
	}
	ops = append(waits, rest...)
	if g.chance(g.P.Fail) {
		g.sabotage(&ops, pending)
	}
	return ops
}

// waitable: every column kind can be waited on.
func waitable(c Col, actual interface{}) bool { return true }

func isDefaultAbs(c Col, v interface{}) bool { return IsDefaultAbs(c, v) }

func (g *Gen) fillWait(o *AOp, pending map[string][]string) {
	t := o.Table
	tb := g.S.Tables[t]
	// nothing else can commit while the transaction runs: a positive timeout only delays the same answer
	o.Timeout = []int{0, 0, 0, 3, 15}[g.pick(5)]
	o.Until = []string{"==", "!="}[g.pick(2)]
	us := g.uuidsOf(t)
	cols := tb.ColNames()
	o.HasColumns = true
	// wait on one existing row, identified by uuid, comparing a few columns
	if len(us) > 0 && g.chance(0.85) {
		u := us[g.pick(len(us))]
		o.Where = [][]interface{}{{"_uuid", "==", u, "atom"}}
		n := 1 + g.pick(2)
		row := map[string]interface{}{}
		for i := 0; i < n*4 && len(o.Columns) < n; i++ {
			cn := cols[g.pick(len(cols))]
			c := tb.Cols[cn]
			actual := g.St[t][u][cn]
			if _, dup := row[cn]; dup || !waitable(c, actual) {
				continue
			}
			v := actual
			if g.chance(0.35) {
				v = g.value(c, pending)
			}
			o.Columns = append(o.Columns, cn)
			row[cn] = v
		}
		if len(o.Columns) > 0 {
			o.Rows = []map[string]interface{}{row}
			switch {
			case g.chance(0.25):
				// the rows are compared as sets: an expected row given twice is one row
				dup := map[string]interface{}{}
				for k, v := range row {
					dup[k] = v
				}
				o.Rows = append(o.Rows, dup)
				g.count("wait-duplicate-row")
			case g.chance(0.25):
				// every row of the table, projected on the columns (rows that coincide there are one element)
				o.Where = [][]interface{}{}
				o.Rows = nil
				for _, x := range us {
					pr := map[string]interface{}{}
					for _, cn := range o.Columns {
						pr[cn] = g.St[t][x][cn]
					}
					o.Rows = append(o.Rows, pr)
				}
				if g.chance(0.5) {
					o.Rows = append(o.Rows, o.Rows[0])
				}
				g.count("wait-all-rows")
			}
			return
		}
	}
	// no row expected: a condition that selects nothing
	o.Where = [][]interface{}{{"_uuid", "==", "u999", "atom"}}
	o.Columns = []string{cols[g.pick(len(cols))]}
	o.Rows = []map[string]interface{}{}
}

// sabotage makes the transaction fail at a random position for a random cause.
func (g *Gen) sabotage(ops *[]AOp, pending map[string][]string) {
	tables := g.tableNames()
	t := tables[g.pick(len(tables))]
	tb := g.S.Tables[t]
	var bad AOp
	switch g.pick(7) {
	case 0: // unknown table
		bad = AOp{Op: "insert", Table: "NoSuchTable", UUID: g.fresh(), Bad: true, BadKind: "table"}
	case 1: // unknown operation
		bad = AOp{Op: "frobnicate", Table: t, Bad: true, BadKind: "op"}
	case 2: // value of the wrong type
		bad = AOp{Op: "insert", Table: t, UUID: g.fresh(), Bad: true, BadKind: "type"}
		cols := tb.ColNames()
		cn := cols[g.pick(len(cols))]
		c := tb.Cols[cn]
		var raw interface{} = "not-a-number"
		switch {
		case KindOf(c) == "map":
			raw = "not-a-map"
		case c.Key.T == "string" || c.Key.T == "uuid":
			raw = 12345.5
		}
		bad.Row = map[string]interface{}{"!" + cn: raw}
	case 3: // change an immutable column
		var ic string
		for _, cn := range tb.ColNames() {
			if !tb.Cols[cn].Mut {
				ic = cn
			}
		}
		us := g.uuidsOf(t)
		if ic == "" || len(us) == 0 {
			bad = AOp{Op: "abort", Table: t}
			break
		}
		u := us[g.pick(len(us))]
		c := tb.Cols[ic]
		var nv interface{}
		for i := 0; i < 10; i++ {
			nv = g.value(c, pending)
			if !sameAbs(nv, g.St[t][u][ic]) {
				break
			}
		}
		if sameAbs(nv, g.St[t][u][ic]) {
			bad = AOp{Op: "abort", Table: t}
			break
		}
		bad = AOp{Op: "update", Table: t, Where: [][]interface{}{{"_uuid", "==", u, "atom"}}, Row: map[string]interface{}{ic: nv}}
	case 4: // a wait that cannot hold
		us := g.uuidsOf(t)
		if len(us) == 0 {
			bad = AOp{Op: "wait", Table: t, Until: "!=", HasColumns: true, Columns: []string{"name"}, Where: [][]interface{}{{"_uuid", "==", "u999", "atom"}}}
			if _, ok := tb.Cols["name"]; !ok {
				bad.Columns = []string{tb.ColNames()[0]}
			}
			break
		}
		u := us[g.pick(len(us))]
		cols := tb.ColNames()
		cn := ""
		for i := 0; i < 20; i++ {
			x := cols[g.pick(len(cols))]
			if waitable(tb.Cols[x], g.St[t][u][x]) {
				cn = x
				break
			}
		}
		if cn == "" {
			bad = AOp{Op: "abort", Table: t}
			break
		}
		bad = AOp{Op: "wait", Table: t, Until: "!=", HasColumns: true, Columns: []string{cn},
			Where: [][]interface{}{{"_uuid", "==", u, "atom"}},
			Rows:  []map[string]interface{}{{cn: g.St[t][u][cn]}}}
	case 5: // abort
		bad = AOp{Op: "abort", Table: t}
	case 6: // delete with an unknown table
		bad = AOp{Op: "delete", Table: "NoSuchTable", Bad: true, BadKind: "table"}
	}
	bad.Normalize()
	pos := g.pick(len(*ops) + 1)
	if bad.Op == "wait" {
		pos = 0 // its expected rows were built from the state before the transaction
	}
	out := append([]AOp{}, (*ops)[:pos]...)
	out = append(out, bad)
	out = append(out, (*ops)[pos:]...)
	*ops = out
}

// chain builds 2-3 update / mutate operations on one existing row, selected
// by uuid, touching overlapping columns (also sets with a bounded maximum,
// within their bounds: the row's current value is known).
func (g *Gen) chain(t, u string, pending map[string][]string) []AOp {
	tb := g.S.Tables[t]
	cur := map[string]int{} // current cardinality of set columns
	for cn, v := range g.St[t][u] {
		if a, ok := v.([]interface{}); ok {
			cur[cn] = len(a)
		}
	}
	var cols []string
	for _, cn := range tb.ColNames() {
		c := tb.Cols[cn]
		if c.Mut && c.Min == 0 && (KindOf(c) == "set" || KindOf(c) == "map") {
			cols = append(cols, cn)
		}
	}
	where := [][]interface{}{{"_uuid", "==", u, "atom"}}
	var out []AOp
	n := 2 + g.pick(2)
	// most steps work on one column: its differences are merged across the operations
	focus := ""
	if len(cols) > 0 {
		focus = cols[g.pick(len(cols))]
		// prefer a set with a bounded maximum when there is one
		for _, cn := range cols {
			if c := tb.Cols[cn]; KindOf(c) == "set" && c.Max > 1 && g.chance(0.5) {
				focus = cn
			}
		}
	}
	for i := 0; i < n; i++ {
		if len(cols) == 0 || g.chance(0.25) {
			o := AOp{Op: "update", Table: t, Where: where, Row: g.rowFor(t, false, pending)}
			for cn := range o.Row {
				if a, ok := o.Row[cn].([]interface{}); ok {
					cur[cn] = len(a)
				}
			}
			o.Normalize()
			out = append(out, o)
			continue
		}
		cn := focus
		if g.chance(0.3) {
			cn = cols[g.pick(len(cols))]
		}
		c := tb.Cols[cn]
		var m []interface{}
		if KindOf(c) == "set" {
			room := 3
			if c.Max >= 0 {
				room = c.Max - cur[cn]
			}
			if room >= 1 && g.chance(0.6) {
				a := g.distinct(1, func() interface{} { return g.atom(c.Key, pending) })
				m = []interface{}{cn, "insert", a, "set"}
				cur[cn] += len(a)
			} else {
				ev, _ := g.St[t][u][cn].([]interface{})
				a := ev
				if len(a) > 1 {
					a = a[:1]
				}
				if len(a) == 0 || g.chance(0.3) {
					a = g.distinct(1, func() interface{} { return g.atom(c.Key, pending) })
				}
				m = []interface{}{cn, "delete", a, "set"}
			}
		} else {
			if (c.Max < 0 || cur[cn] < c.Max) && g.chance(0.6) {
				m = []interface{}{cn, "insert", g.value(Col{Key: c.Key, Val: c.Val, Min: 1, Max: 1}, pending), "col"}
				cur[cn]++
			} else {
				ev, _ := g.St[t][u][cn].([]interface{})
				if len(ev) > 1 {
					ev = ev[:1]
				}
				if len(ev) == 0 {
					ev = g.value(Col{Key: c.Key, Val: c.Val, Min: 1, Max: 1}, pending).([]interface{})
				}
				m = []interface{}{cn, "delete", ev, "col"}
			}
		}
		o := AOp{Op: "mutate", Table: t, Where: where, Mutations: [][]interface{}{m}}
		o.Normalize()
		out = append(out, o)
	}
	return out
}

// MarkerRow builds a row for a marker insert: only the columns an insert needs,
// a unique name.
func (g *Gen) MarkerRow(t, name string, n int) map[string]interface{} {
	tb := g.S.Tables[t]
	row := map[string]interface{}{}
	for _, cn := range tb.ColNames() {
		c := tb.Cols[cn]
		if c.Min > 0 && KindOf(c) != "atom" || KindOf(c) == "atom" && c.Key.Ref != "" {
			row[cn] = g.value(c, map[string][]string{})
		}
	}
	for _, ix := range tb.Indexes {
		for _, cn := range ix {
			c := tb.Cols[cn]
			if KindOf(c) == "atom" && c.Key.T == "string" && len(c.Key.Enum) == 0 {
				row[cn] = name
			} else if KindOf(c) == "atom" && c.Key.T == "integer" {
				row[cn] = 100000 + n
			}
		}
	}
	return row
}

// ---------------------------------------------------------------- scenarios
//
// Multi-operation patterns around unique indexes that random choice rarely
// assembles: swapping indexed values, delete + insert of the same value,
// a touched non-root row that is garbage collected while another row takes
// over its index value.

func (g *Gen) rootSemantics() func(string) bool {
	any := false
	for _, t := range g.S.Tables {
		if t.IsRoot {
			any = true
		}
	}
	return func(t string) bool { return !any || g.S.Tables[t].IsRoot }
}

type referrer struct {
	table, uuid, col, pos string
}

// strongReferrers lists where row u of table t is strongly referenced from.
func (g *Gen) strongReferrers(t, u string) []referrer {
	var out []referrer
	for ft, tb := range g.S.Tables {
		for cn, c := range tb.Cols {
			for fu, row := range g.St[ft] {
				v := row[cn]
				has := func(x interface{}) bool { s, ok := x.(string); return ok && s == u }
				if c.Key.Ref == t && c.Key.RT != "weak" {
					switch KindOf(c) {
					case "atom":
						if has(v) {
							out = append(out, referrer{ft, fu, cn, "atom"})
						}
					case "opt", "set":
						for _, e := range v.([]interface{}) {
							if has(e) {
								out = append(out, referrer{ft, fu, cn, KindOf(c)})
							}
						}
					case "map":
						for _, p := range v.([]interface{}) {
							if has(p.([]interface{})[0]) {
								out = append(out, referrer{ft, fu, cn, "mapkey"})
							}
						}
					}
				}
				if KindOf(c) == "map" && c.Val.Ref == t && c.Val.RT != "weak" {
					for _, p := range v.([]interface{}) {
						if has(p.([]interface{})[1]) {
							out = append(out, referrer{ft, fu, cn, "mapval"})
						}
					}
				}
			}
		}
	}
	return out
}

func byUUID(u string) [][]interface{} { return [][]interface{}{{"_uuid", "==", u, "atom"}} }

// indexedTables returns the tables that have an index over atom columns only and at least n rows.
func (g *Gen) indexedTables(n int) []string {
	var out []string
	for _, t := range g.tableNames() {
		tb := g.S.Tables[t]
		ok := false
		for _, ix := range tb.Indexes {
			all := true
			for _, cn := range ix {
				if KindOf(tb.Cols[cn]) != "atom" || !tb.Cols[cn].Mut {
					all = false
				}
			}
			if all {
				ok = true
			}
		}
		if ok && len(g.St[t]) >= n {
			out = append(out, t)
		}
	}
	return out
}

func (g *Gen) indexCols(t string) []string {
	tb := g.S.Tables[t]
	seen := map[string]bool{}
	var out []string
	for _, ix := range tb.Indexes {
		for _, cn := range ix {
			if !seen[cn] {
				seen[cn] = true
				out = append(out, cn)
			}
		}
	}
	return out
}

// Scenario returns a scripted transaction, or nil when the state does not allow one.
func (g *Gen) Scenario() []AOp {
	norm := func(ops []AOp) []AOp {
		for i := range ops {
			ops[i].Normalize()
		}
		return ops
	}
	kind := g.pick(6)
	if v := os.Getenv("VERIF_SCENARIO"); v != "" {
		kind, _ = strconv.Atoi(v) // debugging aid: one kind of scenario only
	}
	switch kind {
	case 5: // index values moved by arithmetic: transactions made of mutate operations only
		type cand struct {
			t  string
			ix []string
		}
		var cands []cand
		for _, tn := range g.tableNames() {
			tb := g.S.Tables[tn]
			if !g.rootSemantics()(tn) {
				continue
			}
			for _, ix := range tb.Indexes {
				ok := true
				for _, cn := range ix {
					c := tb.Cols[cn]
					if !c.Mut || KindOf(c) != "atom" || c.Key.T != "integer" || len(c.Key.Enum) > 0 {
						ok = false
					}
				}
				if ok {
					cands = append(cands, cand{tn, ix})
				}
			}
		}
		if len(cands) == 0 {
			return nil
		}
		c := cands[g.pick(len(cands))]
		last := c.ix[len(c.ix)-1]
		ra := g.MarkerRow(c.t, fmt.Sprintf("ma%d", g.next), g.next)
		g.next++
		rb := g.MarkerRow(c.t, fmt.Sprintf("mb%d", g.next), g.next)
		for _, cn := range c.ix {
			rb[cn] = ra[cn]
		}
		rb[last] = ra[last].(int) + 1
		a, b := g.fresh(), g.fresh()
		inc := [][]interface{}{{last, "+=", 1, "atom"}}
		dec := [][]interface{}{{last, "-=", 1, "atom"}}
		var both [][]interface{}
		if len(c.ix) > 1 {
			both = [][]interface{}{{c.ix[0], "==", ra[c.ix[0]], "atom"}}
		} else {
			both = [][]interface{}{{last, ">=", ra[last], "atom"}}
		}
		later := [][]AOp{
			{{Op: "mutate", Table: c.t, Where: byUUID(a), Mutations: inc}},                                                               // onto b's value: a duplicate
			{{Op: "mutate", Table: c.t, Where: both, Mutations: inc}},                                                                    // both move on: legal
			{{Op: "mutate", Table: c.t, Where: byUUID(b), Mutations: dec}},                                                               // back onto a's value: a duplicate
			{{Op: "mutate", Table: c.t, Where: byUUID(a), Mutations: inc}, {Op: "mutate", Table: c.t, Where: byUUID(b), Mutations: inc}}, // a duplicate only in between
		}
		for _, ops := range later {
			g.queue = append(g.queue, norm(ops))
		}
		g.count("mutate-onto-index-value")
		return norm([]AOp{{Op: "insert", Table: c.t, UUID: a, Row: ra}, {Op: "insert", Table: c.t, UUID: b, Row: rb}})
	case 4: // two indexes: a row gives up its value in the first; its value in the second is still taken
		var ts []string
		for _, tn := range g.tableNames() {
			tb := g.S.Tables[tn]
			if len(tb.Indexes) < 2 || len(g.St[tn]) < 1 || !g.rootSemantics()(tn) {
				continue
			}
			ok := true
			for _, ix := range tb.Indexes[:2] {
				for _, cn := range ix {
					c := tb.Cols[cn]
					if !c.Mut || KindOf(c) != "atom" || !(c.Key.T == "string" && len(c.Key.Enum) == 0 || c.Key.T == "integer") {
						ok = false
					}
				}
			}
			if ok {
				ts = append(ts, tn)
			}
		}
		if len(ts) == 0 {
			return nil
		}
		t := ts[g.pick(len(ts))]
		tb := g.S.Tables[t]
		us := g.uuidsOf(t)
		a := us[g.pick(len(us))]
		moved := g.MarkerRow(t, fmt.Sprintf("w%d", g.next), g.next)
		g.next++
		first := map[string]interface{}{}
		for _, cn := range tb.Indexes[0] {
			first[cn] = moved[cn]
		}
		// afterwards: another row asks for the value the row still holds in the second index
		b := g.MarkerRow(t, fmt.Sprintf("v%d", g.next), g.next)
		for _, cn := range tb.Indexes[1] {
			b[cn] = g.St[t][a][cn]
		}
		later := []AOp{{Op: "insert", Table: t, UUID: g.fresh(), Row: b}}
		for i := range later {
			later[i].Normalize()
		}
		g.queue = append(g.queue, later)
		g.count("second-index")
		return norm([]AOp{{Op: "update", Table: t, Where: byUUID(a), Row: first}})
	case 3: // several rows take one indexed value at once, then some move on: a duplicate remains unless all but one moved
		// any table with an index whose columns are mutable and at least one of them a plain string or integer
		var ts []string
		for _, tn := range g.tableNames() {
			tb := g.S.Tables[tn]
			ok := false
			for _, ix := range tb.Indexes {
				mut, marker := true, false
				for _, cn := range ix {
					c := tb.Cols[cn]
					if !c.Mut {
						mut = false
					}
					if KindOf(c) == "atom" && (c.Key.T == "string" && len(c.Key.Enum) == 0 || c.Key.T == "integer") {
						marker = true
					}
				}
				if mut && marker {
					ok = true
				}
			}
			if ok && len(g.St[tn]) >= 3 {
				ts = append(ts, tn)
			}
		}
		if len(ts) == 0 {
			return nil
		}
		t := ts[g.pick(len(ts))]
		us := g.uuidsOf(t)
		donor := us[g.pick(len(us))]
		same := map[string]interface{}{}
		for _, cn := range g.indexCols(t) {
			same[cn] = g.St[t][donor][cn]
		}
		ops := []AOp{{Op: "update", Table: t, Where: [][]interface{}{}, Row: same}}
		// move away a random number of the other rows (all of them: legal; fewer: a duplicate stays)
		others := []string{}
		for _, u := range us {
			if u != donor {
				others = append(others, u)
			}
		}
		g.Rnd.Shuffle(len(others), func(i, j int) { others[i], others[j] = others[j], others[i] })
		keep := 0
		if g.chance(0.5) {
			keep = 1 + g.pick(len(others))
		}
		for _, u := range others[:len(others)-keep] {
			row := map[string]interface{}{}
			orig := g.MarkerRow(t, fmt.Sprintf("y%d", g.next), g.next)
			g.next++
			for _, cn := range g.indexCols(t) {
				if v, ok := orig[cn]; ok && v != nil {
					row[cn] = v
				}
			}
			ops = append(ops, AOp{Op: "update", Table: t, Where: byUUID(u), Row: row})
		}
		g.count("same-value")
		return norm(ops)
	case 0: // swap the indexed values of two rows
		ts := g.indexedTables(2)
		if len(ts) == 0 {
			return nil
		}
		t := ts[g.pick(len(ts))]
		us := g.uuidsOf(t)
		a, b := us[g.pick(len(us))], us[g.pick(len(us))]
		if a == b {
			return nil
		}
		ra, rb := map[string]interface{}{}, map[string]interface{}{}
		for _, cn := range g.indexCols(t) {
			ra[cn] = g.St[t][b][cn]
			rb[cn] = g.St[t][a][cn]
		}
		g.count("swap")
		return norm([]AOp{{Op: "update", Table: t, Where: byUUID(a), Row: ra}, {Op: "update", Table: t, Where: byUUID(b), Row: rb}})
	case 1: // delete a row and insert another one with its indexed values (either order of operations)
		ts := g.indexedTables(1)
		if len(ts) == 0 {
			return nil
		}
		t := ts[g.pick(len(ts))]
		if !g.rootSemantics()(t) {
			return nil
		}
		us := g.uuidsOf(t)
		a := us[g.pick(len(us))]
		row := g.MarkerRow(t, "x", g.next)
		for _, cn := range g.indexCols(t) {
			row[cn] = g.St[t][a][cn]
		}
		// with several indexes: the first index takes the value of the deleted row (free again), another one
		// the value of a row that stays (a duplicate the commit must refuse)
		if tb := g.S.Tables[t]; len(tb.Indexes) >= 2 && len(us) >= 2 && g.chance(0.5) {
			b := us[g.pick(len(us))]
			if b != a {
				fresh := g.MarkerRow(t, fmt.Sprintf("x%d", g.next), g.next)
				for i, ix := range tb.Indexes {
					for _, cn := range ix {
						switch {
						case i == 0:
							row[cn] = g.St[t][a][cn]
						case i == 1:
							row[cn] = g.St[t][b][cn]
						default:
							if v, ok := fresh[cn]; ok {
								row[cn] = v
							}
						}
					}
				}
			}
		}
		del := AOp{Op: "delete", Table: t, Where: byUUID(a)}
		ins := AOp{Op: "insert", Table: t, UUID: g.fresh(), Row: row}
		ops := []AOp{del, ins}
		if g.chance(0.5) {
			ops = []AOp{ins, del}
		}
		if g.chance(0.5) {
			// a later operation whose condition matches the committed version of the deleted row
			ops = append(ops, AOp{Op: "select", Table: t, Where: [][]interface{}{}})
		}
		g.count("delete-insert")
		return norm(ops)
	default: // a touched non-root row loses its referrers; another row takes over its indexed values
		isRoot := g.rootSemantics()
		var cands []string
		for _, t := range g.indexedTables(1) {
			if !isRoot(t) {
				cands = append(cands, t)
			}
		}
		if len(cands) == 0 {
			return g.takeoverSetup()
		}
		t := cands[g.pick(len(cands))]
		us := g.uuidsOf(t)
		n := us[g.pick(len(us))]
		refs := g.strongReferrers(t, n)
		var ops []AOp
		// touch it first: it enters the transaction's own cache
		if g.chance(0.5) {
			ops = append(ops, AOp{Op: "select", Table: t, Where: byUUID(n)})
		} else {
			var touched bool
			for _, cn := range g.S.Tables[t].ColNames() {
				c := g.S.Tables[t].Cols[cn]
				idx := false
				for _, ic := range g.indexCols(t) {
					if ic == cn {
						idx = true
					}
				}
				if !idx && c.Mut && KindOf(c) == "atom" && c.Key.Ref == "" {
					ops = append(ops, AOp{Op: "update", Table: t, Where: byUUID(n), Row: map[string]interface{}{cn: g.value(c, nil)}})
					touched = true
					break
				}
			}
			if !touched {
				ops = append(ops, AOp{Op: "select", Table: t, Where: byUUID(n)})
			}
		}
		// drop every strong reference to it
		var keeper *referrer
		for i, r := range refs {
			if r.table == t && r.uuid == n {
				return nil // references itself: never collected
			}
			c := g.S.Tables[r.table].Cols[r.col]
			switch r.pos {
			case "set":
				if c.Min > 0 {
					return nil
				}
				ops = append(ops, AOp{Op: "mutate", Table: r.table, Where: byUUID(r.uuid), Mutations: [][]interface{}{{r.col, "delete", []interface{}{n}, "set"}}})
				if keeper == nil && isRoot(r.table) && c.Max < 0 {
					keeper = &refs[i]
				}
			case "opt":
				ops = append(ops, AOp{Op: "update", Table: r.table, Where: byUUID(r.uuid), Row: map[string]interface{}{r.col: []interface{}{}}})
			default:
				return nil // atom and map positions: keep the scenario simple
			}
		}
		if keeper == nil {
			return nil
		}
		// the successor: same indexed values, referenced from where the old row was
		nu := g.fresh()
		row := g.MarkerRow(t, "x", g.next)
		for _, cn := range g.indexCols(t) {
			row[cn] = g.St[t][n][cn]
		}
		ops = append(ops, AOp{Op: "insert", Table: t, UUID: nu, Row: row})
		ops = append(ops, AOp{Op: "mutate", Table: keeper.table, Where: byUUID(keeper.uuid), Mutations: [][]interface{}{{keeper.col, "insert", []interface{}{nu}, "set"}}})
		g.count("takeover")
		return norm(ops)
	}
}

// takeoverSetup builds the state the take-over scenario needs and lines the scenario up behind it: a non-root
// row with indexed values, strongly referenced from one set column of a root row; then, in one transaction, the
// row is touched, loses that reference (it will be collected) and a successor with the same indexed values takes
// its place. The engine must accept it: at commit no two rows hold the value.
func (g *Gen) takeoverSetup() []AOp {
	isRoot := g.rootSemantics()
	type cand struct{ t, rt, col string }
	var cands []cand
	for _, t := range g.tableNames() {
		tb := g.S.Tables[t]
		if isRoot(t) || len(tb.Indexes) == 0 {
			continue
		}
		ok := true
		for _, cn := range g.indexCols(t) {
			c := tb.Cols[cn]
			if KindOf(c) != "atom" || !(c.Key.T == "string" && len(c.Key.Enum) == 0 || c.Key.T == "integer") {
				ok = false
			}
		}
		if !ok {
			continue
		}
		for _, rt := range g.tableNames() {
			if !isRoot(rt) {
				continue
			}
			for _, cn := range g.S.Tables[rt].ColNames() {
				c := g.S.Tables[rt].Cols[cn]
				if KindOf(c) == "set" && c.Key.Ref == t && c.Key.RT != "weak" && c.Min == 0 && c.Max < 0 && c.Mut {
					cands = append(cands, cand{t, rt, cn})
				}
			}
		}
	}
	if len(cands) == 0 {
		return nil
	}
	c := cands[g.pick(len(cands))]
	n := g.fresh()
	nrow := g.MarkerRow(c.t, fmt.Sprintf("n%d", g.next), g.next)
	setup := []AOp{{Op: "insert", Table: c.t, UUID: n, Row: nrow}}
	keeper := ""
	if us := g.uuidsOf(c.rt); len(us) > 0 {
		keeper = us[g.pick(len(us))]
		setup = append(setup, AOp{Op: "mutate", Table: c.rt, Where: byUUID(keeper), Mutations: [][]interface{}{{c.col, "insert", []interface{}{n}, "set"}}})
	} else {
		keeper = g.fresh()
		krow := g.MarkerRow(c.rt, fmt.Sprintf("k%d", g.next), g.next)
		krow[c.col] = []interface{}{n}
		setup = append(setup, AOp{Op: "insert", Table: c.rt, UUID: keeper, Row: krow})
	}
	nu := g.fresh()
	srow := g.MarkerRow(c.t, "successor", g.next)
	for _, cn := range g.indexCols(c.t) {
		srow[cn] = nrow[cn]
	}
	touch := AOp{Op: "select", Table: c.t, Where: byUUID(n)}
	proper := []AOp{touch,
		{Op: "mutate", Table: c.rt, Where: byUUID(keeper), Mutations: [][]interface{}{{c.col, "delete", []interface{}{n}, "set"}}},
		{Op: "insert", Table: c.t, UUID: nu, Row: srow},
		{Op: "mutate", Table: c.rt, Where: byUUID(keeper), Mutations: [][]interface{}{{c.col, "insert", []interface{}{nu}, "set"}}}}
	for i := range setup {
		setup[i].Normalize()
	}
	for i := range proper {
		proper[i].Normalize()
	}
	g.queue = append(g.queue, proper)
	g.count("takeover")
	return setup
}

// RandomRow draws values for a random subset of the columns of a table
// (references are arbitrary: used where only the cache is exercised).
func (g *Gen) RandomRow(t string) map[string]interface{} {
	tb := g.S.Tables[t]
	row := map[string]interface{}{}
	for _, cn := range tb.ColNames() {
		if g.chance(0.5) {
			row[cn] = g.value(tb.Cols[cn], map[string][]string{})
		}
	}
	return row
}
