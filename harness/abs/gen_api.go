package abs

import "fmt"

// Calls of the client's model API (Api.tla), drawn at random over the generator's schema and state.

type APIModelA struct {
	UUID string                 `json:"uuid"`
	Cols map[string]interface{} `json:"cols"`
}

type APISelA struct {
	Form   string          `json:"form"`
	Models []APIModelA     `json:"models"`
	Conds  [][]interface{} `json:"conds"`
}

type APICallA struct {
	Kind   string          `json:"kind"`
	Table  string          `json:"table"`
	Sel    APISelA         `json:"sel"`
	Models []APIModelA     `json:"models"`
	Fields []string        `json:"fields"`
	Muts   [][]interface{} `json:"muts"`
	Until  string          `json:"until"`
}

// fullModel gives every column a value: the partial row's, else the default (a Go struct has all its fields).
func (g *Gen) fullModel(t, uuid string, partial map[string]interface{}) APIModelA {
	cols := map[string]interface{}{}
	for cn, c := range g.S.Tables[t].Cols {
		if v, ok := partial[cn]; ok {
			cols[cn] = v
		} else {
			cols[cn] = DefaultAbs(c)
		}
	}
	return APIModelA{UUID: uuid, Cols: cols}
}

func (g *Gen) apiSel(t string) APISelA {
	sel := APISelA{Form: "models", Models: []APIModelA{}, Conds: [][]interface{}{}}
	us := g.uuidsOf(t)
	tb := g.S.Tables[t]
	switch x := g.Rnd.Float64(); {
	case x < 0.3: // by uuid
		n := 1 + g.pick(2)
		for i := 0; i < n; i++ {
			u := "u999"
			if len(us) > 0 && g.chance(0.85) {
				u = us[g.pick(len(us))]
			}
			sel.Models = append(sel.Models, g.fullModel(t, u, nil))
		}
	case x < 0.55 && len(tb.Indexes) > 0: // by the values of one index, taken from a row (or not)
		ix := tb.Indexes[g.pick(len(tb.Indexes))]
		partial := map[string]interface{}{}
		if len(us) > 0 && g.chance(0.8) {
			row := g.St[t][us[g.pick(len(us))]]
			for _, cn := range ix {
				partial[cn] = row[cn]
			}
		} else {
			for _, cn := range ix {
				partial[cn] = g.value(tb.Cols[cn], nil)
			}
		}
		// now and then data for another index as well
		if len(tb.Indexes) > 1 && g.chance(0.3) {
			for _, cn := range tb.Indexes[g.pick(len(tb.Indexes))] {
				if _, ok := partial[cn]; !ok {
					partial[cn] = g.existingValue(t, cn, tb.Cols[cn], nil)
				}
			}
		}
		sel.Models = append(sel.Models, g.fullModel(t, "", partial))
	default:
		sel.Form = "all"
		if g.chance(0.4) {
			sel.Form = "any"
		}
		n := 1 + g.pick(2)
		for tries := 0; len(sel.Conds) < n && tries < 20; tries++ {
			c := g.cond(t, nil)
			if c[0] == "_uuid" || c[3] == "set1" {
				continue
			}
			sel.Conds = append(sel.Conds, c)
		}
		if len(sel.Conds) == 0 {
			sel.Form = "models"
			sel.Models = append(sel.Models, g.fullModel(t, "u999", nil))
		}
	}
	return sel
}

// APICall draws one call.
func (g *Gen) APICall() APICallA {
	tables := g.tableNames()
	t := tables[g.pick(len(tables))]
	tb := g.S.Tables[t]
	call := APICallA{Table: t, Sel: APISelA{Form: "models", Models: []APIModelA{}, Conds: [][]interface{}{}}, Models: []APIModelA{},
		Fields: []string{}, Muts: [][]interface{}{}}
	switch x := g.Rnd.Float64(); {
	case x < 0.3:
		call.Kind = "create"
		n := 1 + g.pick(2)
		pending := map[string][]string{}
		type plan struct{ t, uuid string }
		var plans []plan
		for i := 0; i < n; i++ {
			p := plan{t: t}
			if i > 0 && g.chance(0.5) {
				// Create takes models of one table only? no: any table of the model - but keep one table per call
				p.t = t
			}
			switch y := g.Rnd.Float64(); {
			case y < 0.5:
				p.uuid = fmt.Sprintf("@a%d", i+1)
			case y < 0.7:
				p.uuid = g.fresh()
			}
			if p.uuid != "" {
				pending[p.t] = append(pending[p.t], p.uuid)
			}
			plans = append(plans, p)
		}
		for _, p := range plans {
			call.Models = append(call.Models, g.fullModel(p.t, p.uuid, g.rowFor(p.t, true, pending)))
		}
	case x < 0.55:
		call.Kind = "update"
		call.Sel = g.apiSel(t)
		partial := g.rowFor(t, false, nil)
		call.Models = []APIModelA{g.fullModel(t, "", partial)}
		if g.chance(0.6) {
			for cn := range partial {
				if g.chance(0.8) {
					call.Fields = append(call.Fields, cn)
				}
			}
			if g.chance(0.15) {
				// a column the row does not set: written with its default
				cols := tb.ColNames()
				call.Fields = append(call.Fields, cols[g.pick(len(cols))])
			}
			call.Fields = dedupe(call.Fields)
		}
	case x < 0.75:
		call.Kind = "mutate"
		call.Sel = g.apiSel(t)
		call.Models = []APIModelA{g.fullModel(t, "", nil)}
		n := 1 + g.pick(2)
		for i := 0; i < n; i++ {
			if m := g.mutation(t, nil); m != nil {
				call.Muts = append(call.Muts, m)
			}
		}
	case x < 0.87:
		call.Kind = "delete"
		call.Sel = g.apiSel(t)
	default:
		call.Kind = "wait"
		call.Sel = g.apiSel(t)
		call.Until = []string{"==", "!="}[g.pick(2)]
		partial := map[string]interface{}{}
		us := g.uuidsOf(t)
		cols := tb.ColNames()
		for _, cn := range cols {
			if !g.chance(0.4) {
				continue
			}
			if len(us) > 0 && g.chance(0.7) {
				partial[cn] = g.St[t][us[g.pick(len(us))]][cn]
			} else {
				partial[cn] = g.value(tb.Cols[cn], nil)
			}
		}
		call.Models = []APIModelA{g.fullModel(t, "", partial)}
		if g.chance(0.6) {
			for cn := range partial {
				call.Fields = append(call.Fields, cn)
			}
			if g.chance(0.3) {
				call.Fields = append(call.Fields, cols[g.pick(len(cols))])
			}
			call.Fields = dedupe(call.Fields)
		}
	}
	return call
}

func dedupe(xs []string) []string {
	seen := map[string]bool{}
	out := []string{}
	for _, x := range xs {
		if !seen[x] {
			seen[x] = true
			out = append(out, x)
		}
	}
	return out
}
