package abs

import (
	"encoding/json"
	"fmt"
	"math/big"
	"reflect"
	"sort"
	"strconv"
	"strings"
	"sync"

	"github.com/ovn-org/libovsdb/ovsdb"
)

// ---------------------------------------------------------------- uuid tokens
//
// "uN"  <-> 00000000-0000-4000-8000-00000000000N (decimal N, 12 digits)
// ""    <-> "" / the all-zero uuid (the column default)
// "@x"  <-> named-uuid x
// "gN"  <-> any other uuid, numbered in order of first appearance (per Tokens)

const zeroUUID = "00000000-0000-0000-0000-000000000000"

type Tokens struct {
	mu   sync.Mutex
	fwd  map[string]string // real -> token
	back map[string]string
}

func NewTokens() *Tokens { return &Tokens{fwd: map[string]string{}, back: map[string]string{}} }

func TokenUUID(n int) string { return fmt.Sprintf("00000000-0000-4000-8000-%012d", n) }

func (t *Tokens) ToReal(tok string) string {
	switch {
	case tok == "":
		return ""
	case strings.HasPrefix(tok, "@"):
		return tok[1:]
	case strings.HasPrefix(tok, "u"):
		n, err := strconv.Atoi(tok[1:])
		if err == nil {
			return TokenUUID(n)
		}
	}
	t.mu.Lock()
	defer t.mu.Unlock()
	if r, ok := t.back[tok]; ok {
		return r
	}
	// an unknown token used as a value: make it a syntactically valid uuid
	return "ffffffff-0000-4000-8000-" + fmt.Sprintf("%012x", len(tok)*7919+int(tok[len(tok)-1]))
}

func (t *Tokens) ToToken(real string) string {
	if real == "" || real == zeroUUID {
		return ""
	}
	const pfx = "00000000-0000-4000-8000-"
	if strings.HasPrefix(real, pfx) && len(real) == 36 {
		if n, err := strconv.Atoi(real[len(pfx):]); err == nil {
			return "u" + strconv.Itoa(n)
		}
	}
	if !ovsdb.IsValidUUID(real) {
		return "@" + real
	}
	t.mu.Lock()
	defer t.mu.Unlock()
	if tok, ok := t.fwd[real]; ok {
		return tok
	}
	n := len(t.fwd) + 1
	tok := "g" + strconv.Itoa(n)
	for {
		if _, used := t.back[tok]; !used {
			break
		}
		n++
		tok = "g" + strconv.Itoa(n)
	}
	t.fwd[real] = tok
	t.back[tok] = real
	return tok
}

// Bind makes tok the token of a real uuid (used when replaying a recorded
// trace whose server-chosen uuids differ from run to run).
func (t *Tokens) Bind(tok, real string) {
	t.mu.Lock()
	defer t.mu.Unlock()
	if old, ok := t.back[tok]; ok {
		delete(t.fwd, old)
	}
	t.fwd[real] = tok
	t.back[tok] = real
}

// ---------------------------------------------------------------- atoms

// Real encodes a float64 as the exact dyadic fraction [n, d].
func Real(f float64) (interface{}, error) {
	r := new(big.Rat)
	if r.SetFloat64(f) == nil {
		return nil, fmt.Errorf("non-finite real")
	}
	if !r.Num().IsInt64() || !r.Denom().IsInt64() {
		return nil, fmt.Errorf("real %v not representable", f)
	}
	n, d := r.Num().Int64(), r.Denom().Int64()
	if n > 1<<30 || n < -(1<<30) || d > 1<<30 {
		return nil, fmt.Errorf("real %v outside the abstract range", f)
	}
	return []interface{}{n, d}, nil
}

func realFromAbs(j interface{}) (float64, error) {
	a, ok := j.([]interface{})
	if !ok || len(a) != 2 {
		return 0, fmt.Errorf("bad abstract real %v", j)
	}
	n, ok1 := num(a[0])
	d, ok2 := num(a[1])
	if !ok1 || !ok2 || d == 0 {
		return 0, fmt.Errorf("bad abstract real %v", j)
	}
	return float64(n) / float64(d), nil
}

func num(j interface{}) (int64, bool) {
	switch v := j.(type) {
	case float64:
		return int64(v), true
	case int:
		return int64(v), true
	case int64:
		return v, true
	}
	return 0, false
}

// AtomToAbs converts a native Go atom to its abstract JSON form.
func (t *Tokens) AtomToAbs(typ string, v interface{}) (interface{}, error) {
	switch typ {
	case "integer":
		i, ok := v.(int)
		if !ok {
			return nil, fmt.Errorf("integer atom is %T", v)
		}
		if i > 1<<30 || i < -(1<<30) {
			return nil, fmt.Errorf("integer %d outside the abstract range", i)
		}
		return i, nil
	case "real":
		f, ok := v.(float64)
		if !ok {
			return nil, fmt.Errorf("real atom is %T", v)
		}
		return Real(f)
	case "boolean":
		b, ok := v.(bool)
		if !ok {
			return nil, fmt.Errorf("boolean atom is %T", v)
		}
		return b, nil
	case "string":
		s, ok := v.(string)
		if !ok {
			return nil, fmt.Errorf("string atom is %T", v)
		}
		return s, nil
	case "uuid":
		s, ok := v.(string)
		if !ok {
			return nil, fmt.Errorf("uuid atom is %T", v)
		}
		return t.ToToken(s), nil
	}
	return nil, fmt.Errorf("unknown atomic type %q", typ)
}

// AtomFromAbs converts an abstract atom to the native Go value.
func (t *Tokens) AtomFromAbs(typ string, j interface{}) (interface{}, error) {
	switch typ {
	case "integer":
		n, ok := num(j)
		if !ok {
			return nil, fmt.Errorf("abstract integer is %T", j)
		}
		return int(n), nil
	case "real":
		return realFromAbs(j)
	case "boolean":
		b, ok := j.(bool)
		if !ok {
			return nil, fmt.Errorf("abstract boolean is %T", j)
		}
		return b, nil
	case "string":
		s, ok := j.(string)
		if !ok {
			return nil, fmt.Errorf("abstract string is %T", j)
		}
		return s, nil
	case "uuid":
		s, ok := j.(string)
		if !ok {
			return nil, fmt.Errorf("abstract uuid is %T", j)
		}
		return t.ToReal(s), nil
	}
	return nil, fmt.Errorf("unknown atomic type %q", typ)
}

// atomKey gives a total order / identity for abstract atoms.
func atomKey(j interface{}) string {
	switch v := j.(type) {
	case int:
		return fmt.Sprintf("i%020d", int64(v)+(1<<40))
	case int64:
		return fmt.Sprintf("i%020d", v+(1<<40))
	case float64:
		return fmt.Sprintf("i%020d", int64(v)+(1<<40))
	case bool:
		if v {
			return "b1"
		}
		return "b0"
	case string:
		return "s" + v
	case []interface{}:
		if len(v) == 2 {
			n, _ := num(v[0])
			d, _ := num(v[1])
			return fmt.Sprintf("r%030.10f", float64(n)/float64(d)+1e15)
		}
	}
	return fmt.Sprintf("?%v", j)
}

// ---------------------------------------------------------------- columns

// ToAbs converts the native Go value of a column (as held in a model field) to
// the abstract JSON form: atom | [atom...] (opt, set; sorted) | [[k,v]...] (map; sorted by key).
func (t *Tokens) ToAbs(c Col, native interface{}) (interface{}, error) {
	rv := reflect.ValueOf(native)
	switch KindOf(c) {
	case "atom":
		return t.AtomToAbs(c.Key.T, native)
	case "opt":
		if !rv.IsValid() || rv.Kind() != reflect.Ptr {
			return nil, fmt.Errorf("optional column holds %T", native)
		}
		if rv.IsNil() {
			return []interface{}{}, nil
		}
		a, err := t.AtomToAbs(c.Key.T, rv.Elem().Interface())
		if err != nil {
			return nil, err
		}
		return []interface{}{a}, nil
	case "set":
		if !rv.IsValid() || rv.Kind() != reflect.Slice {
			return nil, fmt.Errorf("set column holds %T", native)
		}
		out := make([]interface{}, 0, rv.Len())
		for i := 0; i < rv.Len(); i++ {
			a, err := t.AtomToAbs(c.Key.T, rv.Index(i).Interface())
			if err != nil {
				return nil, err
			}
			out = append(out, a)
		}
		sort.Slice(out, func(i, j int) bool { return atomKey(out[i]) < atomKey(out[j]) })
		return out, nil
	default:
		if !rv.IsValid() || rv.Kind() != reflect.Map {
			return nil, fmt.Errorf("map column holds %T", native)
		}
		out := make([]interface{}, 0, rv.Len())
		it := rv.MapRange()
		for it.Next() {
			k, err := t.AtomToAbs(c.Key.T, it.Key().Interface())
			if err != nil {
				return nil, err
			}
			v, err := t.AtomToAbs(c.Val.T, it.Value().Interface())
			if err != nil {
				return nil, err
			}
			out = append(out, []interface{}{k, v})
		}
		sort.Slice(out, func(i, j int) bool {
			return atomKey(out[i].([]interface{})[0]) < atomKey(out[j].([]interface{})[0])
		})
		return out, nil
	}
}

// FromAbs converts an abstract column value to the native Go value of the column's Go type.
func (t *Tokens) FromAbs(c Col, j interface{}) (interface{}, error) {
	gt := c.GoType()
	switch KindOf(c) {
	case "atom":
		return t.AtomFromAbs(c.Key.T, j)
	case "opt":
		a, ok := j.([]interface{})
		if !ok {
			return nil, fmt.Errorf("abstract optional is %T", j)
		}
		if len(a) == 0 {
			return reflect.Zero(gt).Interface(), nil
		}
		v, err := t.AtomFromAbs(c.Key.T, a[0])
		if err != nil {
			return nil, err
		}
		p := reflect.New(gt.Elem())
		p.Elem().Set(reflect.ValueOf(v))
		return p.Interface(), nil
	case "set":
		a, ok := j.([]interface{})
		if !ok {
			return nil, fmt.Errorf("abstract set is %T", j)
		}
		s := reflect.MakeSlice(gt, 0, len(a))
		for _, e := range a {
			v, err := t.AtomFromAbs(c.Key.T, e)
			if err != nil {
				return nil, err
			}
			s = reflect.Append(s, reflect.ValueOf(v))
		}
		return s.Interface(), nil
	default:
		a, ok := j.([]interface{})
		if !ok {
			return nil, fmt.Errorf("abstract map is %T", j)
		}
		m := reflect.MakeMapWithSize(gt, len(a))
		for _, e := range a {
			p, ok := e.([]interface{})
			if !ok || len(p) != 2 {
				return nil, fmt.Errorf("abstract map pair is %v", e)
			}
			k, err := t.AtomFromAbs(c.Key.T, p[0])
			if err != nil {
				return nil, err
			}
			v, err := t.AtomFromAbs(c.Val.T, p[1])
			if err != nil {
				return nil, err
			}
			m.SetMapIndex(reflect.ValueOf(k), reflect.ValueOf(v))
		}
		return m.Interface(), nil
	}
}

func ovsAtom(typ string, native interface{}) interface{} {
	if typ == "uuid" {
		return ovsdb.UUID{GoUUID: native.(string)}
	}
	return native
}

// ToOvs converts an abstract column value to OVSDB notation (what goes into
// ovsdb.Row / Condition / Mutation values). shape selects how the value is
// wrapped: "col" = as the column's own type; "set" = force an OvsSet;
// "atom" = a bare atom; "map" = OvsMap.
func (t *Tokens) ToOvs(c Col, j interface{}, shape string) (interface{}, error) {
	if shape == "col" {
		switch KindOf(c) {
		case "atom":
			shape = "atom"
		case "map":
			shape = "map"
		default:
			shape = "set"
		}
	}
	switch shape {
	case "atom":
		v, err := t.AtomFromAbs(c.Key.T, j)
		if err != nil {
			return nil, err
		}
		return ovsAtom(c.Key.T, v), nil
	case "set":
		a, ok := j.([]interface{})
		if !ok {
			return nil, fmt.Errorf("abstract set is %T", j)
		}
		out := make([]interface{}, 0, len(a))
		for _, e := range a {
			v, err := t.AtomFromAbs(c.Key.T, e)
			if err != nil {
				return nil, err
			}
			out = append(out, ovsAtom(c.Key.T, v))
		}
		return ovsdb.OvsSet{GoSet: out}, nil
	case "map":
		a, ok := j.([]interface{})
		if !ok {
			return nil, fmt.Errorf("abstract map is %T", j)
		}
		m := make(map[interface{}]interface{}, len(a))
		for _, e := range a {
			p, ok := e.([]interface{})
			if !ok || len(p) != 2 {
				return nil, fmt.Errorf("abstract map pair is %v", e)
			}
			k, err := t.AtomFromAbs(c.Key.T, p[0])
			if err != nil {
				return nil, err
			}
			v, err := t.AtomFromAbs(c.Val.T, p[1])
			if err != nil {
				return nil, err
			}
			m[ovsAtom(c.Key.T, k)] = ovsAtom(c.Val.T, v)
		}
		return ovsdb.OvsMap{GoMap: m}, nil
	}
	return nil, fmt.Errorf("unknown shape %q", shape)
}

// OvsToAbs converts a value in OVSDB notation (as found in decoded rows,
// results, notifications) to the abstract form of the column.
func (t *Tokens) OvsToAbs(c Col, v interface{}) (interface{}, error) {
	atom := func(typ string, x interface{}) (interface{}, error) {
		switch typ {
		case "uuid":
			switch u := x.(type) {
			case ovsdb.UUID:
				return t.ToToken(u.GoUUID), nil
			case string:
				return t.ToToken(u), nil
			case []interface{}:
				if len(u) == 2 {
					if s, ok := u[1].(string); ok {
						return t.ToToken(s), nil
					}
				}
			}
			return nil, fmt.Errorf("uuid in ovs notation is %T %v", x, x)
		case "integer":
			switch n := x.(type) {
			case int:
				return t.AtomToAbs(typ, n)
			case float64:
				if n != float64(int(n)) {
					return nil, fmt.Errorf("integer column carries %v", n)
				}
				return t.AtomToAbs(typ, int(n))
			}
			return nil, fmt.Errorf("integer in ovs notation is %T", x)
		case "real":
			switch n := x.(type) {
			case float64:
				return Real(n)
			case int:
				return Real(float64(n))
			}
			return nil, fmt.Errorf("real in ovs notation is %T", x)
		}
		return t.AtomToAbs(typ, x)
	}
	elems := func(x interface{}) ([]interface{}, bool) {
		switch s := x.(type) {
		case ovsdb.OvsSet:
			return s.GoSet, true
		case []interface{}:
			if len(s) == 2 && s[0] == "set" {
				if in, ok := s[1].([]interface{}); ok {
					return in, true
				}
			}
		}
		return nil, false
	}
	switch KindOf(c) {
	case "atom":
		if es, ok := elems(v); ok && len(es) == 1 {
			return atom(c.Key.T, es[0])
		}
		return atom(c.Key.T, v)
	case "opt", "set":
		var out []interface{}
		if es, ok := elems(v); ok {
			for _, e := range es {
				a, err := atom(c.Key.T, e)
				if err != nil {
					return nil, err
				}
				out = append(out, a)
			}
		} else {
			a, err := atom(c.Key.T, v)
			if err != nil {
				return nil, err
			}
			out = append(out, a)
		}
		if out == nil {
			out = []interface{}{}
		}
		sort.Slice(out, func(i, j int) bool { return atomKey(out[i]) < atomKey(out[j]) })
		return out, nil
	default:
		var pairs [][2]interface{}
		switch m := v.(type) {
		case ovsdb.OvsMap:
			for k, val := range m.GoMap {
				pairs = append(pairs, [2]interface{}{k, val})
			}
		case []interface{}:
			if len(m) == 2 && m[0] == "map" {
				if in, ok := m[1].([]interface{}); ok {
					for _, p := range in {
						pp, ok := p.([]interface{})
						if !ok || len(pp) != 2 {
							return nil, fmt.Errorf("bad map pair %v", p)
						}
						pairs = append(pairs, [2]interface{}{pp[0], pp[1]})
					}
				}
			} else {
				return nil, fmt.Errorf("map in ovs notation is %v", v)
			}
		default:
			return nil, fmt.Errorf("map in ovs notation is %T", v)
		}
		out := make([]interface{}, 0, len(pairs))
		for _, p := range pairs {
			k, err := atom(c.Key.T, p[0])
			if err != nil {
				return nil, err
			}
			val, err := atom(c.Val.T, p[1])
			if err != nil {
				return nil, err
			}
			out = append(out, []interface{}{k, val})
		}
		sort.Slice(out, func(i, j int) bool {
			return atomKey(out[i].([]interface{})[0]) < atomKey(out[j].([]interface{})[0])
		})
		return out, nil
	}
}

// DefaultAbs is the abstract default value of a column.
func DefaultAbs(c Col) interface{} {
	switch KindOf(c) {
	case "atom":
		switch c.Key.T {
		case "integer":
			return 0
		case "real":
			return []interface{}{0, 1}
		case "boolean":
			return false
		default:
			return ""
		}
	default:
		return []interface{}{}
	}
}

func sameAbs(a, b interface{}) bool {
	ja, _ := json.Marshal(a)
	jb, _ := json.Marshal(b)
	return string(ja) == string(jb)
}

// IsDefaultAbs reports whether an abstract value is the column's default.
func IsDefaultAbs(c Col, v interface{}) bool { return sameAbs(v, DefaultAbs(c)) }
