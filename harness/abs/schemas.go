package abs

import (
	"fmt"
	"math/rand"
)

func b(t string) BaseT                { return BaseT{T: t} }
func ref(tbl, rt string) BaseT        { return BaseT{T: "uuid", Ref: tbl, RT: rt} }
func enum(vals ...string) BaseT       { return BaseT{T: "string", Enum: vals} }
func atom(k BaseT) Col                { return Col{Key: k, Min: 1, Max: 1, Mut: true} }
func opt(k BaseT) Col                 { return Col{Key: k, Min: 0, Max: 1, Mut: true} }
func set(k BaseT, min, max int) Col   { return Col{Key: k, Min: min, Max: max, Mut: true} }
func mp(k, v BaseT, min, max int) Col { return Col{Key: k, Val: v, Min: min, Max: max, Mut: true} }
func imm(c Col) Col                   { c.Mut = false; return c }

// SmallSchema is the model-checking schema: two root tables, one non-root
// table with self references (chains and cycles), strong and weak references in
// scalar, optional, set, map-key and map-value positions, a min-1 weak set, a
// single and a two column index, an immutable column.
func SmallSchema() *Schema {
	return &Schema{Name: "vdb", Tables: map[string]Table{
		"R": {IsRoot: true, Indexes: [][]string{{"name"}, {"x", "y"}},
			CIdx: [][]CKey{{{Col: "tag"}}, {{Col: "m", Key: "k1"}}, {{Col: "x"}, {Col: "tag"}}},
			Cols: map[string]Col{
				"name": atom(b("string")),
				"x":    atom(b("integer")),
				"y":    atom(b("integer")),
				"tag":  opt(b("string")),
				"ss":   set(b("string"), 0, -1),
				"m":    mp(b("string"), b("string"), 0, -1),
				"imm":  imm(atom(b("string"))),
				"sref": set(ref("N", "strong"), 0, -1),
				"oref": opt(ref("N", "strong")),
				"wref": set(ref("N", "weak"), 0, -1),
				"mkv":  mp(b("string"), ref("N", "strong"), 0, -1),
				"mwk":  mp(ref("N", "weak"), b("string"), 0, -1),
			}},
		"N": {IsRoot: false, Indexes: [][]string{{"name"}},
			Cols: map[string]Col{
				"name": atom(b("string")),
				"v":    atom(b("integer")),
				"next": opt(ref("N", "strong")),
				"peer": set(ref("N", "weak"), 0, -1),
			}},
		"W": {IsRoot: true,
			Cols: map[string]Col{
				"name": atom(b("string")),
				"w1":   set(ref("N", "weak"), 1, -1),
				"ow":   opt(ref("N", "weak")),
				"r":    atom(b("real")),
				"rs":   set(b("real"), 0, -1),
				"is":   set(b("integer"), 0, -1),
				"oi":   opt(b("integer")),
			}},
	}}
}

// KitchenSchema covers the supported type space: every atomic type as scalar,
// optional, set and map key / value, enums, references in every position.
func KitchenSchema() *Schema {
	return &Schema{Name: "kdb", Tables: map[string]Table{
		"Root": {IsRoot: true, Indexes: [][]string{{"name"}, {"x", "y"}},
			CIdx: [][]CKey{{{Col: "os"}}, {{Col: "mss", Key: "k1"}}, {{Col: "i"}, {Col: "os"}}},
			Cols: map[string]Col{
				"name":    atom(b("string")),
				"i":       atom(b("integer")),
				"r":       atom(b("real")),
				"b":       atom(b("boolean")),
				"u":       atom(b("uuid")),
				"x":       atom(b("integer")),
				"y":       atom(b("integer")),
				"oi":      opt(b("integer")),
				"or":      opt(b("real")),
				"ob":      opt(b("boolean")),
				"os":      opt(b("string")),
				"ou":      opt(b("uuid")),
				"oe":      opt(enum("red", "green", "blue")),
				"se":      set(enum("a", "b", "c"), 0, -1),
				"si":      set(b("integer"), 0, -1),
				"sr":      set(b("real"), 0, -1),
				"ss":      set(b("string"), 0, 4),
				"su":      set(b("uuid"), 0, -1),
				"sb":      set(b("boolean"), 0, 2),
				"mss":     mp(b("string"), b("string"), 0, -1),
				"mis":     mp(b("integer"), b("string"), 0, -1),
				"msi":     mp(b("string"), b("integer"), 0, -1),
				"msr":     mp(b("string"), b("real"), 0, -1),
				"msb":     mp(b("string"), b("boolean"), 0, -1),
				"imm":     imm(atom(b("string"))),
				"immset":  imm(set(b("string"), 0, -1)),
				"strong":  set(ref("Leaf", "strong"), 0, -1),
				"ostrong": opt(ref("Leaf", "strong")),
				"weak":    set(ref("Leaf", "weak"), 0, -1),
				"oweak":   opt(ref("Leaf", "weak")),
				"mks":     mp(ref("Leaf", "strong"), b("string"), 0, -1),
				"mvs":     mp(b("string"), ref("Leaf", "strong"), 0, -1),
				"mkw":     mp(ref("Leaf", "weak"), b("string"), 0, -1),
				"mvw":     mp(b("string"), ref("Leaf", "weak"), 0, -1),
				"mkwvs":   mp(ref("Leaf", "weak"), ref("Leaf", "strong"), 0, -1),
			}},
		"Leaf": {IsRoot: false, Indexes: [][]string{{"name"}},
			Cols: map[string]Col{
				"name":  atom(b("string")),
				"v":     atom(b("integer")),
				"next":  opt(ref("Leaf", "strong")),
				"kids":  set(ref("Twig", "strong"), 0, -1),
				"peers": set(ref("Leaf", "weak"), 0, -1),
			}},
		"Twig": {IsRoot: false,
			Cols: map[string]Col{
				"label": atom(b("string")),
				"up":    opt(ref("Leaf", "weak")),
				"twin":  opt(ref("Twig", "strong")),
			}},
		"Must": {IsRoot: true,
			Cols: map[string]Col{
				"name": atom(b("string")),
				"w1":   set(ref("Leaf", "weak"), 1, -1),
				"w12":  set(ref("Leaf", "weak"), 1, 2),
				"s1":   atom(ref("Leaf", "strong")),
				"mw1":  mp(b("string"), ref("Leaf", "weak"), 1, -1),
			}},
		"a_b_c": {IsRoot: true, Indexes: [][]string{{"k_1", "k_2"}},
			Cols: map[string]Col{
				"k_1":  atom(b("string")),
				"k_2":  opt(b("string")),
				"root": opt(ref("Root", "weak")),
				"abc":  set(ref("a_b_c", "strong"), 0, -1),
			}},
	}}
}

// RandomSchema draws a schema over the same type space ("for all schemas").
func RandomSchema(seed int64) *Schema {
	rnd := rand.New(rand.NewSource(seed))
	nt := 2 + rnd.Intn(3)
	names := []string{}
	for i := 0; i < nt; i++ {
		names = append(names, fmt.Sprintf("T%d", i))
	}
	// either no table is marked root (then all are) or some are
	markRoots := rnd.Intn(4) != 0
	atoms := []string{"integer", "real", "boolean", "string", "uuid"}
	keyAtoms := []string{"integer", "string", "uuid"} // Go map keys that survive the JSON clone
	s := &Schema{Name: "rdb", Tables: map[string]Table{}}
	for i, tn := range names {
		t := Table{Cols: map[string]Col{}}
		if markRoots {
			t.IsRoot = i == 0 || rnd.Intn(2) == 0
		}
		t.Cols["name"] = atom(b("string"))
		if rnd.Intn(2) == 0 {
			t.Indexes = append(t.Indexes, []string{"name"})
		}
		nc := 3 + rnd.Intn(6)
		var intCols []string
		for j := 0; j < nc; j++ {
			cn := fmt.Sprintf("c%d", j)
			var base BaseT
			if rnd.Intn(3) == 0 {
				rt := "strong"
				if rnd.Intn(2) == 0 {
					rt = "weak"
				}
				base = ref(names[rnd.Intn(nt)], rt)
			} else if rnd.Intn(8) == 0 {
				base = enum("e1", "e2", "e3")
			} else {
				base = b(atoms[rnd.Intn(len(atoms))])
			}
			var c Col
			switch rnd.Intn(5) {
			case 0:
				if base.Ref != "" || len(base.Enum) > 0 {
					c = opt(base)
				} else {
					c = atom(base)
					if base.T == "integer" {
						intCols = append(intCols, cn)
					}
				}
			case 1:
				c = opt(base)
			case 2:
				mx := -1
				if rnd.Intn(3) == 0 {
					mx = 2 + rnd.Intn(3)
				}
				mn := 0
				if base.Ref != "" && base.RT == "weak" && rnd.Intn(4) == 0 {
					mn = 1
				}
				c = set(base, mn, mx)
				if base.T == "boolean" && mx < 0 {
					c.Max = 2
				}
			default:
				var kb, vb BaseT
				if base.Ref != "" && rnd.Intn(2) == 0 {
					kb, vb = base, b(atoms[rnd.Intn(4)])
				} else {
					kb = b(keyAtoms[rnd.Intn(len(keyAtoms))])
					vb = base
				}
				c = mp(kb, vb, 0, -1)
			}
			if rnd.Intn(10) == 0 && c.Min == 0 || (rnd.Intn(10) == 0 && KindOf(c) == "atom" && base.Ref == "") {
				c = imm(c)
			}
			t.Cols[cn] = c
		}
		if len(intCols) >= 2 && rnd.Intn(2) == 0 {
			t.Indexes = append(t.Indexes, []string{intCols[0], intCols[1]})
		} else if len(intCols) >= 1 && rnd.Intn(2) == 0 {
			t.Indexes = append(t.Indexes, []string{intCols[0]})
		}
		s.Tables[tn] = t
	}
	s.Normalize()
	return s
}

// APISchema is the schema of the model API cases (MC_Api.tla): one root table with two single-column indexes,
// an optional, a set, a map and an immutable column and an optional weak reference to the table itself.
func APISchema() *Schema {
	s := &Schema{Name: "adb", Tables: map[string]Table{
		"A": {IsRoot: true, Indexes: [][]string{{"name"}, {"i2"}},
			Cols: map[string]Col{
				"name": atom(b("string")),
				"i":    atom(b("integer")),
				"i2":   atom(b("integer")),
				"o":    opt(b("string")),
				"s":    set(b("string"), 0, -1),
				"m":    mp(b("string"), b("string"), 0, -1),
				"imm":  imm(atom(b("string"))),
				"peer": opt(ref("A", "weak")),
				"e":    atom(enum("red", "green", "blue")),
			}},
	}}
	s.Normalize()
	return s
}

func NamedSchema(name string, seed int64) (*Schema, error) {
	switch name {
	case "api":
		return APISchema(), nil
	case "small":
		return SmallSchema(), nil
	case "kitchen":
		return KitchenSchema(), nil
	case "random":
		return RandomSchema(seed), nil
	}
	return nil, fmt.Errorf("unknown schema %q", name)
}
