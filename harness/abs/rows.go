package abs

import (
	"fmt"
	"reflect"
	"sort"

	"github.com/ovn-org/libovsdb/database"
	"github.com/ovn-org/libovsdb/model"
	"github.com/ovn-org/libovsdb/ovsdb"
)

// Ctx bundles a built schema with a uuid token table.
type Ctx struct {
	*Built
	Tok *Tokens
}

func NewCtx(b *Built) *Ctx { return &Ctx{Built: b, Tok: NewTokens()} }

// ModelToAbs projects a model (pointer to run-time struct) to an abstract row
// holding every column of the table (total rows: the spec's rows are total).
func (c *Ctx) ModelToAbs(table string, m model.Model) (string, map[string]interface{}, error) {
	t, ok := c.Abs.Tables[table]
	if !ok {
		return "", nil, fmt.Errorf("no table %s", table)
	}
	rv := reflect.ValueOf(m)
	if rv.Kind() != reflect.Ptr || rv.IsNil() {
		return "", nil, fmt.Errorf("model is %T", m)
	}
	rv = rv.Elem()
	row := map[string]interface{}{}
	for cn, col := range t.Cols {
		f := rv.FieldByName(FieldName(cn))
		if !f.IsValid() {
			return "", nil, fmt.Errorf("model has no field for %s", cn)
		}
		a, err := c.Tok.ToAbs(col, f.Interface())
		if err != nil {
			return "", nil, fmt.Errorf("%s.%s: %v", table, cn, err)
		}
		row[cn] = a
	}
	u := rv.FieldByName("UUID").String()
	return c.Tok.ToToken(u), row, nil
}

// AbsToModel builds a model from an abstract (possibly partial) row.
func (c *Ctx) AbsToModel(table, uuidTok string, row map[string]interface{}) (model.Model, error) {
	t, ok := c.Abs.Tables[table]
	if !ok {
		return nil, fmt.Errorf("no table %s", table)
	}
	st := c.Types[table]
	p := reflect.New(st)
	p.Elem().FieldByName("UUID").SetString(c.Tok.ToReal(uuidTok))
	for cn, j := range row {
		col, ok := t.Cols[cn]
		if !ok {
			return nil, fmt.Errorf("no column %s.%s", table, cn)
		}
		v, err := c.Tok.FromAbs(col, j)
		if err != nil {
			return nil, fmt.Errorf("%s.%s: %v", table, cn, err)
		}
		p.Elem().FieldByName(FieldName(cn)).Set(reflect.ValueOf(v))
	}
	return p.Interface(), nil
}

// AbsToOvsRow builds an ovsdb.Row from an abstract partial row.
func (c *Ctx) AbsToOvsRow(table string, row map[string]interface{}) (ovsdb.Row, error) {
	t, ok := c.Abs.Tables[table]
	if !ok {
		return nil, fmt.Errorf("no table %s", table)
	}
	out := ovsdb.Row{}
	for cn, j := range row {
		col, ok := t.Cols[cn]
		if !ok {
			return nil, fmt.Errorf("no column %s.%s", table, cn)
		}
		v, err := c.Tok.ToOvs(col, j, "col")
		if err != nil {
			return nil, fmt.Errorf("%s.%s: %v", table, cn, err)
		}
		out[cn] = v
	}
	return out, nil
}

// OvsRowToAbs converts a row in OVSDB notation to an abstract partial row
// (only the columns present; "_uuid" returned separately, "" if absent).
func (c *Ctx) OvsRowToAbs(table string, row ovsdb.Row) (string, map[string]interface{}, error) {
	t, ok := c.Abs.Tables[table]
	if !ok {
		return "", nil, fmt.Errorf("no table %s", table)
	}
	out := map[string]interface{}{}
	u := ""
	for cn, v := range row {
		if cn == "_uuid" {
			a, err := c.Tok.OvsToAbs(Col{Key: BaseT{T: "uuid"}, Min: 1, Max: 1}, v)
			if err != nil {
				return "", nil, err
			}
			u = a.(string)
			continue
		}
		col, ok := t.Cols[cn]
		if !ok {
			return "", nil, fmt.Errorf("row carries unknown column %s.%s", table, cn)
		}
		a, err := c.Tok.OvsToAbs(col, v)
		if err != nil {
			return "", nil, fmt.Errorf("%s.%s: %v", table, cn, err)
		}
		out[cn] = a
	}
	return u, out, nil
}

// Dump lists every table of the database through the exported
// Database.List and projects the rows to the abstract form
// {table: {uuidToken: row}}.
func (c *Ctx) Dump(db database.Database) (map[string]interface{}, error) {
	out := map[string]interface{}{}
	for tn := range c.Abs.Tables {
		rows, err := db.List(c.Abs.Name, tn)
		if err != nil {
			return nil, err
		}
		tm := map[string]interface{}{}
		for u, m := range rows {
			tok, row, err := c.ModelToAbs(tn, m)
			if err != nil {
				return nil, err
			}
			if tok != c.Tok.ToToken(u) {
				return nil, fmt.Errorf("row %s stored under key %s", tok, u)
			}
			tm[tok] = row
		}
		out[tn] = tm
	}
	return out, nil
}

// DumpRefs projects the database's reference index to a sorted list of
// [toTable, fromTable, fromColumn, "k"|"v", to, [from...]] for every existing row.
func (c *Ctx) DumpRefs(db database.Database, dump map[string]interface{}) ([]interface{}, error) {
	var out []interface{}
	for tn, tm := range dump {
		for tok := range tm.(map[string]interface{}) {
			refs, err := db.GetReferences(c.Abs.Name, tn, c.Tok.ToReal(tok))
			if err != nil {
				return nil, err
			}
			for spec, r := range refs {
				for to, from := range r {
					fs := make([]string, 0, len(from))
					for _, f := range from {
						fs = append(fs, c.Tok.ToToken(f))
					}
					sort.Strings(fs)
					if len(fs) == 0 {
						continue
					}
					kv := "k"
					if spec.FromValue {
						kv = "v"
					}
					fi := make([]interface{}, len(fs))
					for i, f := range fs {
						fi[i] = f
					}
					out = append(out, []interface{}{spec.ToTable, spec.FromTable, spec.FromColumn, kv, c.Tok.ToToken(to), fi})
				}
			}
		}
	}
	sort.Slice(out, func(i, j int) bool { return fmt.Sprint(out[i]) < fmt.Sprint(out[j]) })
	if out == nil {
		out = []interface{}{}
	}
	return out, nil
}
