package abs

import (
	"fmt"
	"sort"
	"strings"

	"github.com/ovn-org/libovsdb/ovsdb"
)

// AOp is the abstract operation record shared with Txn.tla (fixed field set,
// no nulls). Fields after Bad are harness-only hints (ignored by the spec).
type AOp struct {
	Op         string                   `json:"op"`
	Table      string                   `json:"table"`
	UUID       string                   `json:"uuid"`
	UUIDName   string                   `json:"uuidName"` // "@name" or ""
	Where      [][]interface{}          `json:"where"`    // [col, fn, val, shape]
	Row        map[string]interface{}   `json:"row"`
	Rows       []map[string]interface{} `json:"rows"`
	Columns    []string                 `json:"columns"`
	HasColumns bool                     `json:"hasColumns"`
	Mutations  [][]interface{}          `json:"mutations"` // [col, mutator, val, shape]
	Until      string                   `json:"until"`
	Timeout    int                      `json:"timeout"`
	Bad        bool                     `json:"bad"`
	BadKind    string                   `json:"badKind"`
	NoUUID     bool                     `json:"noUUID"` // send the insert without explicit uuid
}

func (o *AOp) Normalize() {
	if o.Where == nil {
		o.Where = [][]interface{}{}
	}
	if o.Row == nil {
		o.Row = map[string]interface{}{}
	}
	if o.Rows == nil {
		o.Rows = []map[string]interface{}{}
	}
	if o.Columns == nil {
		o.Columns = []string{}
	}
	if o.Mutations == nil {
		o.Mutations = [][]interface{}{}
	}
}

func colOf(c *Ctx, table, col string) (Col, bool) {
	if col == "_uuid" {
		return Col{Kind: "atom", Key: BaseT{T: "uuid"}, Min: 1, Max: 1}, true
	}
	t, ok := c.Abs.Tables[table]
	if !ok {
		return Col{}, false
	}
	cc, ok := t.Cols[col]
	return cc, ok
}

// ToOp renders the abstract operation as an ovsdb.Operation. Deliberately
// ill-formed operations (Bad) are rendered according to BadKind.
func (c *Ctx) ToOp(o AOp) (ovsdb.Operation, error) {
	op := ovsdb.Operation{Op: o.Op, Table: o.Table}
	if o.Op == "insert" {
		if !o.NoUUID {
			op.UUID = c.Tok.ToReal(o.UUID)
		}
		if o.UUIDName != "" {
			op.UUIDName = strings.TrimPrefix(o.UUIDName, "@")
		}
	}
	for _, w := range o.Where {
		col, ok := colOf(c, o.Table, w[0].(string))
		if !ok {
			if o.Bad {
				op.Where = append(op.Where, ovsdb.NewCondition(w[0].(string), ovsdb.ConditionFunction(w[1].(string)), w[2]))
				continue
			}
			return op, fmt.Errorf("condition on unknown column %s.%s", o.Table, w[0])
		}
		shape := w[3].(string)
		if shape == "raw" {
			op.Where = append(op.Where, ovsdb.NewCondition(w[0].(string), ovsdb.ConditionFunction(w[1].(string)), w[2]))
			continue
		}
		var v interface{}
		var err error
		if shape == "set1" {
			v, err = c.Tok.ToOvs(col, w[2].([]interface{})[0], "atom")
		} else {
			v, err = c.Tok.ToOvs(col, w[2], shape)
		}
		if err != nil {
			return op, err
		}
		op.Where = append(op.Where, ovsdb.NewCondition(w[0].(string), ovsdb.ConditionFunction(w[1].(string)), v))
	}
	if o.Op == "select" && op.Where == nil {
		op.Where = []ovsdb.Condition{}
	}
	for _, m := range o.Mutations {
		col, ok := colOf(c, o.Table, m[0].(string))
		shape := m[3].(string)
		if !ok || shape == "raw" {
			op.Mutations = append(op.Mutations, ovsdb.Mutation{Column: m[0].(string), Mutator: ovsdb.Mutator(m[1].(string)), Value: m[2]})
			continue
		}
		var v interface{}
		var err error
		switch shape {
		case "atom":
			v, err = c.Tok.ToOvs(col, m[2], "atom")
		case "keys", "set":
			v, err = c.Tok.ToOvs(col, m[2], "set")
		case "elem": // a one element abstract array sent as a bare atom
			a := m[2].([]interface{})
			v, err = c.Tok.ToOvs(col, a[0], "atom")
		default:
			v, err = c.Tok.ToOvs(col, m[2], "col")
		}
		if err != nil {
			return op, err
		}
		op.Mutations = append(op.Mutations, ovsdb.Mutation{Column: m[0].(string), Mutator: ovsdb.Mutator(m[1].(string)), Value: v})
	}
	rowOf := func(r map[string]interface{}) (ovsdb.Row, error) {
		out := ovsdb.Row{}
		for cn, j := range r {
			col, ok := colOf(c, o.Table, cn)
			if !ok || strings.HasPrefix(cn, "!") {
				// raw value for a deliberately bad row
				out[strings.TrimPrefix(cn, "!")] = j
				continue
			}
			v, err := c.Tok.ToOvs(col, j, "col")
			if err != nil {
				return nil, err
			}
			out[cn] = v
		}
		return out, nil
	}
	if len(o.Row) > 0 || o.Op == "insert" || o.Op == "update" {
		r, err := rowOf(o.Row)
		if err != nil {
			return op, err
		}
		op.Row = r
	}
	for _, r := range o.Rows {
		rr, err := rowOf(r)
		if err != nil {
			return op, err
		}
		op.Rows = append(op.Rows, rr)
	}
	if o.HasColumns {
		op.Columns = append([]string{}, o.Columns...)
	}
	if o.Op == "wait" {
		t := o.Timeout
		op.Timeout = &t
		op.Until = o.Until
	}
	switch o.Op {
	case "commit":
		d := false
		op.Durable = &d
	case "comment":
		s := "verif"
		op.Comment = &s
	case "assert":
		s := "lock"
		op.Lock = &s
	}
	return op, nil
}

// ARes is the abstract operation result.
type ARes struct {
	Kind  string        `json:"kind"` // uuid|count|rows|empty|error|null
	UUID  string        `json:"uuid"`
	Count int           `json:"count"`
	Rows  []interface{} `json:"rows"` // {"u":tok,"row":{..}}
	Err   string        `json:"err"`
}

// ResultToAbs classifies a result by the operation that produced it.
func (c *Ctx) ResultToAbs(o AOp, r *ovsdb.OperationResult) (ARes, error) {
	res := ARes{Rows: []interface{}{}}
	if r == nil {
		res.Kind = "null"
		return res, nil
	}
	if r.Error != "" {
		res.Kind = "error"
		res.Err = r.Error
		if r.Details != "" {
			res.Err += ": " + r.Details
		}
		return res, nil
	}
	switch o.Op {
	case "insert":
		res.Kind = "uuid"
		res.UUID = c.Tok.ToToken(r.UUID.GoUUID)
	case "select":
		res.Kind = "rows"
		for _, row := range r.Rows {
			u, ar, err := c.OvsRowToAbs(o.Table, row)
			if err != nil {
				return res, err
			}
			res.Rows = append(res.Rows, map[string]interface{}{"u": u, "row": ar})
		}
		sort.Slice(res.Rows, func(i, j int) bool {
			return res.Rows[i].(map[string]interface{})["u"].(string) < res.Rows[j].(map[string]interface{})["u"].(string)
		})
	case "update", "mutate", "delete":
		res.Kind = "count"
		res.Count = r.Count
	default:
		res.Kind = "empty"
	}
	return res, nil
}

// ErrKind classifies an error string for the trace ("index", "refs", "min", "other").
func ErrKind(s string) string {
	ls := strings.ToLower(s)
	switch {
	case strings.Contains(ls, "identical"):
		return "index"
	case strings.Contains(ls, "referential integrity"):
		return "refs"
	case strings.Contains(ls, "weak reference"):
		return "min"
	}
	return "other"
}
