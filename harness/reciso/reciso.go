// Package reciso replays the isolation cases of MC_Iso on the real cache and a
// real client, for three families of models (run-time structs, a hand-written
// struct cloned through JSON, a generated struct with its own deep copy).
package reciso

import (
	"context"
	"encoding/json"
	"fmt"
	"os"
	"path/filepath"
	"reflect"
	"sync"
	"time"

	"github.com/go-logr/logr"
	"github.com/ovn-org/libovsdb/cache"
	"github.com/ovn-org/libovsdb/client"
	"github.com/ovn-org/libovsdb/database/inmemory"
	"github.com/ovn-org/libovsdb/model"
	"github.com/ovn-org/libovsdb/ovsdb"
	"github.com/ovn-org/libovsdb/server"

	"vh/genmodel"
)

// HW is the hand-written model (no CloneModel: cloned through JSON).
type HW struct {
	UUID string            `ovsdb:"_uuid"`
	S    string            `ovsdb:"s"`
	I    int               `ovsdb:"i"`
	OS   *string           `ovsdb:"os"`
	SS   []string          `ovsdb:"ss"`
	MSS  map[string]string `ovsdb:"mss"`
	Mark string            `ovsdb:"mark"`
}

const rowUUID = "00000000-0000-4000-8000-000000000001"

type Case struct {
	T        string `json:"t"`
	Family   string `json:"family"`
	Write    string `json:"write"`
	Read     string `json:"read"`
	Field    string `json:"field"`
	Mutation string `json:"mutation"`
}

type family struct {
	name   string
	typ    reflect.Type // struct type
	cdb    model.ClientDBModel
	dbm    model.DatabaseModel
	schema ovsdb.DatabaseSchema
}

func fieldByTag(v reflect.Value, tag string) reflect.Value {
	t := v.Type()
	for i := 0; i < t.NumField(); i++ {
		if t.Field(i).Tag.Get("ovsdb") == tag {
			return v.Field(i)
		}
	}
	panic("no field tagged " + tag)
}

func hasField(v reflect.Value, tag string) bool {
	t := v.Type()
	for i := 0; i < t.NumField(); i++ {
		if t.Field(i).Tag.Get("ovsdb") == tag {
			return true
		}
	}
	return false
}

// Scalars is a model of table D without the set and the map column: a Go struct that is comparable with ==
// (strings, an int, a pointer), which must still be compared by value.
type Scalars struct {
	UUID string  `ovsdb:"_uuid" json:"_uuid"`
	S    string  `ovsdb:"s" json:"s"`
	I    int     `ovsdb:"i" json:"i"`
	OS   *string `ovsdb:"os" json:"os"`
	Mark string  `ovsdb:"mark" json:"mark"`
}

func runtimeType() reflect.Type {
	f := func(name, tag string, t reflect.Type) reflect.StructField {
		return reflect.StructField{Name: name, Type: t, Tag: reflect.StructTag(fmt.Sprintf(`ovsdb:"%s" json:"%s"`, tag, tag))}
	}
	s := ""
	return reflect.StructOf([]reflect.StructField{
		f("UUID", "_uuid", reflect.TypeOf("")), f("S", "s", reflect.TypeOf("")), f("I", "i", reflect.TypeOf(0)),
		f("OS", "os", reflect.TypeOf(&s)), f("SS", "ss", reflect.TypeOf([]string{})),
		f("MSS", "mss", reflect.TypeOf(map[string]string{})), f("Mark", "mark", reflect.TypeOf("")),
	})
}

func newFamily(name string, schema ovsdb.DatabaseSchema) (*family, error) {
	var typ reflect.Type
	switch name {
	case "runtime":
		typ = runtimeType()
	case "handwritten":
		typ = reflect.TypeOf(HW{})
	case "generated":
		typ = reflect.TypeOf(genmodel.D{})
	case "scalars":
		typ = reflect.TypeOf(Scalars{})
	default:
		return nil, fmt.Errorf("unknown family %s", name)
	}
	cdb, err := model.NewClientDBModel("ddb", map[string]model.Model{"D": reflect.New(typ).Interface()})
	if err != nil {
		return nil, err
	}
	dbm, errs := model.NewDatabaseModel(schema, cdb)
	if len(errs) > 0 {
		return nil, fmt.Errorf("%v", errs)
	}
	return &family{name: name, typ: typ, cdb: cdb, dbm: dbm, schema: schema}, nil
}

// original values of the row
func (f *family) newModel() model.Model {
	m := reflect.New(f.typ)
	e := m.Elem()
	fieldByTag(e, "_uuid").SetString(rowUUID)
	fieldByTag(e, "s").SetString("orig")
	fieldByTag(e, "i").SetInt(7)
	p := "p"
	fieldByTag(e, "os").Set(reflect.ValueOf(&p))
	if hasField(e, "ss") {
		fieldByTag(e, "ss").Set(reflect.ValueOf([]string{"a", "b"}))
		fieldByTag(e, "mss").Set(reflect.ValueOf(map[string]string{"k": "v"}))
	}
	return m.Interface()
}

// values projects a model to a comparable JSON-able form
func values(m model.Model) map[string]interface{} {
	if m == nil || reflect.ValueOf(m).IsNil() {
		return map[string]interface{}{"present": false}
	}
	e := reflect.ValueOf(m).Elem()
	out := map[string]interface{}{"present": true, "s": fieldByTag(e, "s").String(), "i": int(fieldByTag(e, "i").Int())}
	if p := fieldByTag(e, "os"); p.IsNil() {
		out["os"] = []interface{}{}
	} else {
		out["os"] = []interface{}{p.Elem().String()}
	}
	if !hasField(e, "ss") {
		return out
	}
	ss := []interface{}{}
	for i := 0; i < fieldByTag(e, "ss").Len(); i++ {
		ss = append(ss, fieldByTag(e, "ss").Index(i).String())
	}
	out["ss"] = ss
	mm := map[string]interface{}{}
	it := fieldByTag(e, "mss").MapRange()
	for it.Next() {
		mm[it.Key().String()] = it.Value().String()
	}
	out["mss"] = mm
	return out
}

func same(a, b map[string]interface{}) bool {
	ja, _ := json.Marshal(a)
	jb, _ := json.Marshal(b)
	return string(ja) == string(jb)
}

// mutate performs the caller's mutation on a model it holds
func mutate(m model.Model, field, mutation string) {
	e := reflect.ValueOf(m).Elem()
	switch field + "/" + mutation {
	case "scalar/overwrite":
		fieldByTag(e, "s").SetString("changed")
		fieldByTag(e, "i").SetInt(99)
	case "slice/append":
		f := fieldByTag(e, "ss")
		f.Set(reflect.Append(f, reflect.ValueOf("x")))
	case "slice/overwriteElem":
		f := fieldByTag(e, "ss")
		if f.Len() > 0 {
			f.Index(0).SetString("changed")
		}
	case "map/insertKey":
		f := fieldByTag(e, "mss")
		if !f.IsNil() {
			f.SetMapIndex(reflect.ValueOf("new"), reflect.ValueOf("x"))
		}
	case "map/overwriteKey":
		f := fieldByTag(e, "mss")
		if !f.IsNil() {
			f.SetMapIndex(reflect.ValueOf("k"), reflect.ValueOf("changed"))
		}
	case "ptr/writeThrough":
		f := fieldByTag(e, "os")
		if !f.IsNil() {
			f.Elem().SetString("changed")
		}
	}
}

type orderedUpdate struct {
	uuid     string
	old, new model.Model
}

func (o orderedUpdate) GetUpdatedTables() []string { return []string{"D"} }
func (o orderedUpdate) ForEachModelUpdate(table string, do func(uuid string, old, new model.Model) error) error {
	return do(o.uuid, o.old, o.new)
}

type Env struct {
	schema   ovsdb.DatabaseSchema
	families map[string]*family
	dir      string
}

func NewEnv(schemaFile string) (*Env, error) {
	b, err := os.ReadFile(schemaFile)
	if err != nil {
		return nil, err
	}
	var s ovsdb.DatabaseSchema
	if err := json.Unmarshal(b, &s); err != nil {
		return nil, err
	}
	dir, err := os.MkdirTemp("", "vh-iso")
	if err != nil {
		return nil, err
	}
	e := &Env{schema: s, families: map[string]*family{}, dir: dir}
	for _, n := range []string{"runtime", "handwritten", "generated", "scalars"} {
		f, err := newFamily(n, s)
		if err != nil {
			return nil, fmt.Errorf("family %s: %v", n, err)
		}
		e.families[n] = f
	}
	return e, nil
}

func (e *Env) Close() { os.RemoveAll(e.dir) }

type handler struct {
	mu     sync.Mutex
	events []struct {
		kind     string
		old, new model.Model
	}
}

func (h *handler) OnAdd(table string, m model.Model) {
	h.mu.Lock()
	h.events = append(h.events, struct {
		kind     string
		old, new model.Model
	}{"add", nil, m})
	h.mu.Unlock()
}
func (h *handler) OnUpdate(table string, old, new model.Model) {
	h.mu.Lock()
	h.events = append(h.events, struct {
		kind     string
		old, new model.Model
	}{"update", old, new})
	h.mu.Unlock()
}
func (h *handler) OnDelete(table string, m model.Model) {
	h.mu.Lock()
	h.events = append(h.events, struct {
		kind     string
		old, new model.Model
	}{"delete", m, nil})
	h.mu.Unlock()
}

func (h *handler) wait(kind string) (model.Model, model.Model, bool) {
	deadline := time.Now().Add(5 * time.Second)
	for time.Now().Before(deadline) {
		h.mu.Lock()
		for _, ev := range h.events {
			if ev.kind == kind {
				h.mu.Unlock()
				return ev.old, ev.new, true
			}
		}
		h.mu.Unlock()
		time.Sleep(time.Millisecond)
	}
	return nil, nil, false
}

// Run executes one case and returns its event.
func (e *Env) Run(c Case) (map[string]interface{}, error) {
	f := e.families[c.Family]
	ev := map[string]interface{}{"ev": "iso", "t": c.T, "family": c.Family, "write": c.Write, "read": c.Read,
		"field": c.Field, "mutation": c.Mutation, "unchanged": false, "err": "", "skipped": false}
	orig := values(f.newModel())
	fail := func(format string, a ...interface{}) (map[string]interface{}, error) {
		ev["err"] = fmt.Sprintf(format, a...)
		return ev, nil
	}
	if c.T == "in" {
		tc, err := cache.NewTableCache(f.dbm, nil, nil)
		if err != nil {
			return nil, err
		}
		rc := tc.Table("D")
		m := f.newModel()
		switch c.Write {
		case "create":
			err = rc.Create(rowUUID, m, false)
		case "update":
			first := f.newModel()
			fieldByTag(reflect.ValueOf(first).Elem(), "s").SetString("first")
			if err = rc.Create(rowUUID, first, false); err == nil {
				_, err = rc.Update(rowUUID, m, false)
			}
		case "applyCacheUpdate":
			err = tc.ApplyCacheUpdate(orderedUpdate{uuid: rowUUID, new: m})
		}
		if err != nil {
			return fail("write path: %v", err)
		}
		mutate(m, c.Field, c.Mutation)
		after := values(rc.Row(rowUUID))
		ev["unchanged"] = same(orig, after)
		ev["after"] = after
		return ev, nil
	}
	// ---- "out": a read path hands out a model, the caller mutates it
	needClient := map[string]bool{"get": true, "list": true, "listValues": true, "whereList": true, "whereListValues": true,
		"whereAllList": true, "whereCacheList": true, "getIndex": true, "whereListIndex": true}
	var got model.Model
	var reread func() model.Model
	if needClient[c.Read] {
		sess, err := e.session(f)
		if err != nil {
			return nil, err
		}
		defer sess.close()
		cl := sess.cli
		ctx, cancel := context.WithTimeout(context.Background(), 10*time.Second)
		defer cancel()
		reread = func() model.Model { return cl.Cache().Table("D").Row(rowUUID) }
		sliceOf := func() reflect.Value { return reflect.New(reflect.SliceOf(reflect.PtrTo(f.typ))) }
		first := func(res reflect.Value) model.Model {
			if res.Elem().Len() == 0 {
				return nil
			}
			return res.Elem().Index(0).Interface()
		}
		switch c.Read {
		case "get":
			m := reflect.New(f.typ)
			fieldByTag(m.Elem(), "_uuid").SetString(rowUUID)
			if err := cl.Get(ctx, m.Interface()); err != nil {
				return fail("Get: %v", err)
			}
			got = m.Interface()
		case "list":
			res := sliceOf()
			if err := cl.List(ctx, res.Interface()); err != nil {
				return fail("List: %v", err)
			}
			got = first(res)
		case "listValues", "whereListValues":
			// the result is a slice of struct values, not of pointers
			res := reflect.New(reflect.SliceOf(f.typ))
			var err error
			if c.Read == "listValues" {
				err = cl.List(ctx, res.Interface())
			} else {
				m := reflect.New(f.typ)
				fieldByTag(m.Elem(), "_uuid").SetString(rowUUID)
				err = cl.Where(m.Interface()).List(ctx, res.Interface())
			}
			if err != nil {
				return fail("List into values: %v", err)
			}
			if res.Elem().Len() > 0 {
				got = res.Elem().Index(0).Addr().Interface()
			}
		case "getIndex":
			// no uuid: the row is found through the schema index on i
			m := reflect.New(f.typ)
			fieldByTag(m.Elem(), "i").SetInt(7)
			if err := cl.Get(ctx, m.Interface()); err != nil {
				return fail("Get by index: %v", err)
			}
			got = m.Interface()
		case "whereListIndex":
			m := reflect.New(f.typ)
			fieldByTag(m.Elem(), "i").SetInt(7)
			res := sliceOf()
			if err := cl.Where(m.Interface()).List(ctx, res.Interface()); err != nil {
				return fail("Where.List by index: %v", err)
			}
			got = first(res)
		case "whereList":
			m := reflect.New(f.typ)
			fieldByTag(m.Elem(), "_uuid").SetString(rowUUID)
			res := sliceOf()
			if err := cl.Where(m.Interface()).List(ctx, res.Interface()); err != nil {
				return fail("Where.List: %v", err)
			}
			got = first(res)
		case "whereAllList":
			m := reflect.New(f.typ)
			cond := model.Condition{Field: fieldByTag(m.Elem(), "s").Addr().Interface(), Function: ovsdb.ConditionEqual, Value: "orig"}
			res := sliceOf()
			if err := cl.WhereAll(m.Interface(), cond).List(ctx, res.Interface()); err != nil {
				return fail("WhereAll.List: %v", err)
			}
			got = first(res)
		case "whereCacheList":
			pred := reflect.MakeFunc(reflect.FuncOf([]reflect.Type{reflect.PtrTo(f.typ)}, []reflect.Type{reflect.TypeOf(true)}, false),
				func(args []reflect.Value) []reflect.Value { return []reflect.Value{reflect.ValueOf(true)} })
			res := sliceOf()
			if err := cl.WhereCache(pred.Interface()).List(ctx, res.Interface()); err != nil {
				return fail("WhereCache.List: %v", err)
			}
			got = first(res)
		}
	} else {
		tc, err := cache.NewTableCache(f.dbm, nil, nil)
		if err != nil {
			return nil, err
		}
		rc := tc.Table("D")
		reread = func() model.Model { return rc.Row(rowUUID) }
		h := &handler{}
		stop := make(chan struct{})
		defer close(stop)
		if c.Read[:2] == "on" {
			tc.AddEventHandler(h)
			go tc.Run(stop)
		}
		if err := tc.ApplyCacheUpdate(orderedUpdate{uuid: rowUUID, new: f.newModel()}); err != nil {
			return fail("set-up: %v", err)
		}
		switch c.Read {
		case "row":
			got = rc.Row(rowUUID)
		case "rows":
			got = rc.Rows()[rowUUID]
		case "rowByModel":
			m := reflect.New(f.typ)
			fieldByTag(m.Elem(), "_uuid").SetString(rowUUID)
			_, got, err = rc.RowByModel(m.Interface())
		case "rowsByModels":
			m := reflect.New(f.typ)
			fieldByTag(m.Elem(), "_uuid").SetString(rowUUID)
			var ms map[string]model.Model
			ms, err = rc.RowsByModels([]model.Model{m.Interface()})
			got = ms[rowUUID]
		case "rowByModelIndex":
			m := reflect.New(f.typ)
			fieldByTag(m.Elem(), "i").SetInt(7)
			_, got, err = rc.RowByModel(m.Interface())
		case "rowsByModelsIndex":
			m := reflect.New(f.typ)
			fieldByTag(m.Elem(), "i").SetInt(7)
			var ms map[string]model.Model
			ms, err = rc.RowsByModels([]model.Model{m.Interface()})
			got = ms[rowUUID]
		case "rowsByCondition":
			var ms map[string]model.Model
			ms, err = rc.RowsByCondition([]ovsdb.Condition{ovsdb.NewCondition("s", ovsdb.ConditionEqual, "orig")})
			got = ms[rowUUID]
		case "onAdd":
			_, nw, ok := h.wait("add")
			if !ok {
				return fail("no add event")
			}
			got = nw
		case "onUpdateNew", "onUpdateOld":
			// an update whose new value equals the original, old differs
			cur := rc.Row(rowUUID)
			upd := f.newModel()
			fieldByTag(reflect.ValueOf(upd).Elem(), "mark").SetString("m2")
			if err := tc.ApplyCacheUpdate(orderedUpdate{uuid: rowUUID, old: cur, new: upd}); err != nil {
				return fail("update: %v", err)
			}
			old, nw, ok := h.wait("update")
			if !ok {
				return fail("no update event")
			}
			if c.Read == "onUpdateNew" {
				got = nw
			} else {
				got = old
			}
		case "onDelete":
			// the deleted model has no counterpart in the cache any more: re-create the row and
			// check that mutating the model handed to the delete handler does not reach it
			cur := rc.Row(rowUUID)
			if err := tc.ApplyCacheUpdate(orderedUpdate{uuid: rowUUID, old: cur}); err != nil {
				return fail("delete: %v", err)
			}
			old, _, ok := h.wait("delete")
			if !ok {
				return fail("no delete event")
			}
			if err := tc.ApplyCacheUpdate(orderedUpdate{uuid: rowUUID, new: f.newModel()}); err != nil {
				return fail("re-create: %v", err)
			}
			got = old
		}
		if err != nil {
			return fail("read path: %v", err)
		}
	}
	if got == nil || reflect.ValueOf(got).IsNil() {
		return fail("read path %s returned nothing", c.Read)
	}
	if !same(values(got), orig) {
		return fail("read path %s returned %v", c.Read, values(got))
	}
	mutate(got, c.Field, c.Mutation)
	after := values(reread())
	ev["unchanged"] = same(orig, after)
	ev["after"] = after
	return ev, nil
}

// ---- a synchronised client for the API read paths

type sess struct {
	srv  *server.OvsdbServer
	cli  client.Client
	sock string
}

func (s *sess) close() {
	s.cli.Close()
	s.srv.Close()
	os.Remove(s.sock)
}

var sockN int

func (e *Env) session(f *family) (*sess, error) {
	rt := e.families["runtime"]
	db := inmemory.NewDatabase(map[string]model.ClientDBModel{"ddb": rt.cdb})
	srv, err := server.NewOvsdbServer(db, rt.dbm)
	if err != nil {
		return nil, err
	}
	sockN++
	sock := filepath.Join(e.dir, fmt.Sprintf("iso%d.sock", sockN))
	go func() { _ = srv.Serve("unix", sock) }()
	for i := 0; i < 400 && !srv.Ready(); i++ {
		time.Sleep(2 * time.Millisecond)
	}
	l := logr.Discard()
	cl, err := client.NewOVSDBClient(f.cdb, client.WithEndpoint("unix:"+sock), client.WithLogger(&l))
	if err != nil {
		return nil, err
	}
	ctx, cancel := context.WithTimeout(context.Background(), 10*time.Second)
	defer cancel()
	if err := cl.Connect(ctx); err != nil {
		return nil, err
	}
	if _, err := cl.MonitorAll(ctx); err != nil {
		return nil, err
	}
	p := "p"
	_ = p
	row := ovsdb.Row{"s": "orig", "i": 7, "os": ovsdb.OvsSet{GoSet: []interface{}{"p"}},
		"ss":  ovsdb.OvsSet{GoSet: []interface{}{"a", "b"}},
		"mss": ovsdb.OvsMap{GoMap: map[interface{}]interface{}{"k": "v"}}}
	res, err := cl.Transact(ctx, ovsdb.Operation{Op: "insert", Table: "D", UUID: rowUUID, Row: row})
	if err != nil {
		return nil, err
	}
	for _, r := range res {
		if r.Error != "" {
			return nil, fmt.Errorf("insert: %s %s", r.Error, r.Details)
		}
	}
	return &sess{srv: srv, cli: cl, sock: sock}, nil
}

// ---- Clone / Equal laws

type LawCase struct {
	T        string `json:"t"`
	Family   string `json:"family"`
	Field    string `json:"field"`
	Mutation string `json:"mutation"`
	Shape    string `json:"shape"` // full | empty
}

func (e *Env) RunLaw(c LawCase) (map[string]interface{}, error) {
	f := e.families[c.Family]
	ev := map[string]interface{}{"ev": "law", "t": c.T, "family": c.Family, "field": c.Field, "mutation": c.Mutation, "shape": c.Shape,
		"cloneEqual": false, "equalSym": false, "reflexive": false, "unshared": false, "distinguishes": false, "err": ""}
	mk := func() model.Model {
		if c.Shape == "empty" || c.Shape == "emptyAlloc" {
			m := reflect.New(f.typ)
			fieldByTag(m.Elem(), "_uuid").SetString(rowUUID)
			if c.Shape == "emptyAlloc" {
				// empty, but allocated: a map without entries, a slice without elements but with room, a pointer to ""
				e := m.Elem()
				if hasField(e, "ss") {
					fieldByTag(e, "ss").Set(reflect.ValueOf(make([]string, 0, 4)))
					fieldByTag(e, "mss").Set(reflect.ValueOf(map[string]string{}))
				}
				z := ""
				fieldByTag(e, "os").Set(reflect.ValueOf(&z))
			}
			return m.Interface()
		}
		return f.newModel()
	}
	m := mk()
	before := values(m)
	cl := model.Clone(m)
	ev["reflexive"] = model.Equal(m, m)
	ev["cloneEqual"] = model.Equal(m, cl) && same(values(cl), before)
	ev["equalSym"] = model.Equal(cl, m) == model.Equal(m, cl)
	// mutate the clone: the original must not change
	mutate(cl, c.Field, c.Mutation)
	ev["unshared"] = same(values(m), before)
	if c.Shape == "emptyAlloc" {
		// what the clone now holds must also survive writes to the original (a shared backing array or map
		// shows only then)
		clAfter := values(cl)
		oe := reflect.ValueOf(m).Elem()
		if hasField(oe, "ss") {
			ss := fieldByTag(oe, "ss")
			ss.Set(reflect.Append(ss, reflect.ValueOf("written-to-the-original")))
			if mm := fieldByTag(oe, "mss"); !mm.IsNil() {
				mm.SetMapIndex(reflect.ValueOf("orig-key"), reflect.ValueOf("orig-value"))
			}
		}
		if p := fieldByTag(oe, "os"); !p.IsNil() {
			p.Elem().SetString("written-to-the-original")
		}
		if !same(values(cl), clAfter) {
			ev["unshared"] = false
		}
	}
	// a model differing in exactly this field is not equal (both directions)
	other := mk()
	mutate(other, c.Field, c.Mutation)
	if same(values(other), before) {
		// the mutation does not apply to this shape (e.g. writing through a nil pointer): give the field a value instead
		oe := reflect.ValueOf(other).Elem()
		switch c.Field {
		case "slice":
			fieldByTag(oe, "ss").Set(reflect.ValueOf([]string{"z"}))
		case "map":
			fieldByTag(oe, "mss").Set(reflect.ValueOf(map[string]string{"z": "z"}))
		case "ptr":
			z := "z"
			fieldByTag(oe, "os").Set(reflect.ValueOf(&z))
		}
	}
	ev["distinguishes"] = !model.Equal(m, other) && !model.Equal(other, m)
	return ev, nil
}
