package recwire

import (
	"encoding/json"
	"fmt"
	"strings"
	"time"

	"github.com/ovn-org/libovsdb/ovsdb"

	"context"

	"github.com/go-logr/logr"
	"github.com/ovn-org/libovsdb/client"

	"vh/abs"
	"vh/proxy"
	"vh/rawrpc"
	"vh/rectxn"
)

// WireSchema: the table the ill-formed transactions of MC_Wire aim at.
func WireSchema() *abs.Schema {
	atom := func(t string) abs.Col { return abs.Col{Key: abs.BaseT{T: t}, Min: 1, Max: 1, Mut: true} }
	return &abs.Schema{Name: "wdb", Tables: map[string]abs.Table{"T": {IsRoot: true, Indexes: [][]string{{"c5"}}, Cols: map[string]abs.Col{
		"c1": atom("integer"),
		"c2": {Key: abs.BaseT{T: "string"}, Val: abs.BaseT{T: "string"}, Min: 0, Max: -1, Mut: true},
		"c3": {Key: abs.BaseT{T: "uuid", Ref: "T", RT: "weak"}, Min: 0, Max: -1, Mut: true},
		"c4": atom("real"),
		"c5": atom("string"),
		"c6": {Key: abs.BaseT{T: "integer"}, Min: 0, Max: -1, Mut: true},
	}}}}
}

// TxnRunner runs ill-formed transactions on the engine (direct) and on a real server.
type TxnRunner struct {
	direct *rectxn.Inst
	server *rectxn.Inst
	b      *abs.Built
	dir    string
	n      int
	notif  *notifClient
}

func NewTxnRunner(dir string) (*TxnRunner, error) {
	b, err := abs.Build(WireSchema(), false)
	if err != nil {
		return nil, err
	}
	r := &TxnRunner{b: b, dir: dir}
	if r.direct, err = rectxn.NewInst(0, b, abs.NewTokens(), false, dir); err != nil {
		return nil, err
	}
	if r.server, err = rectxn.NewInst(1, b, abs.NewTokens(), true, dir); err != nil {
		return nil, err
	}
	// two rows to work on, in both databases
	seed := `[{"op":"insert","table":"T","uuid":"00000000-0000-4000-8000-000000000001","row":{"c1":1,"c4":0.5,"c5":"a","c2":["map",[["a","x"]]],"c6":["set",[1,2]]}},
	          {"op":"insert","table":"T","uuid":"00000000-0000-4000-8000-000000000002","row":{"c1":0,"c4":2,"c5":"b","c3":["uuid","00000000-0000-4000-8000-000000000001"]}}]`
	var ops []ovsdb.Operation
	if err := json.Unmarshal([]byte(seed), &ops); err != nil {
		return nil, err
	}
	for _, in := range []*rectxn.Inst{r.direct, r.server} {
		res, err := in.Transact(ops)
		if err != nil {
			return nil, fmt.Errorf("seeding: %v", err)
		}
		for _, x := range res {
			if x != nil && x.Error != "" {
				return nil, fmt.Errorf("seeding: %s %s", x.Error, x.Details)
			}
		}
	}
	return r, nil
}

func (r *TxnRunner) Close() {
	if r.notif != nil {
		r.notif.close()
	}
	r.direct.Close()
	r.server.Close()
}

func short(s string) string {
	if len(s) > 1200 {
		return s[:1200]
	}
	return s
}

// Direct: the operations decoded and handed to the transaction engine in this goroutine.
func (r *TxnRunner) Direct(tree *Node) map[string]interface{} {
	ev := map[string]interface{}{"ev": "wtxn", "mode": "direct", "outcome": "", "alive": true, "msg": ""}
	var ops []ovsdb.Operation
	err, p := guard(func() error { return json.Unmarshal(tree.Bytes(), &ops) })
	if p != "" {
		ev["outcome"], ev["msg"] = "panic", short("decoding the operations: "+p)
		return ev
	}
	if err != nil {
		ev["outcome"] = "error" // the request is rejected before it reaches the engine
		return ev
	}
	res, err := r.direct.Transact(ops)
	switch {
	case err != nil && strings.HasPrefix(err.Error(), "panic:"):
		ev["outcome"], ev["msg"] = "panic", short(err.Error())
	case err != nil:
		ev["outcome"], ev["msg"] = "error", short(err.Error())
	default:
		ev["outcome"] = "results"
		_ = res
	}
	// still serving?
	probe := []ovsdb.Operation{{Op: "select", Table: "T", Where: []ovsdb.Condition{}}}
	pres, perr := r.direct.Transact(probe)
	if perr != nil || len(pres) != 1 || pres[0] == nil || pres[0].Error != "" {
		ev["alive"] = false
		ev["msg"] = short(fmt.Sprintf("%v; probe select afterwards: %v %v", ev["msg"], perr, pres))
	}
	return ev
}

// Server: the raw request sent to a real server, followed by an echo.
func (r *TxnRunner) Server(tree *Node) map[string]interface{} {
	ev := map[string]interface{}{"ev": "wtxn", "mode": "server", "outcome": "", "alive": true, "msg": ""}
	params := []json.RawMessage{json.RawMessage(`"wdb"`)}
	if tree.K == "a" {
		for _, op := range tree.A {
			params = append(params, json.RawMessage(op.Bytes()))
		}
	} else {
		params = append(params, json.RawMessage(tree.Bytes()))
	}
	raw, err := r.server.Tx.Call("transact", params, 10*time.Second)
	switch {
	case err != nil && strings.HasPrefix(err.Error(), "rpc error"):
		ev["outcome"], ev["msg"] = "error", short(err.Error())
	case err != nil:
		ev["outcome"], ev["msg"] = "dead", short(err.Error())
	default:
		var res []json.RawMessage
		if json.Unmarshal(raw, &res) != nil {
			ev["outcome"], ev["msg"] = "malformed", short(string(raw))
		} else {
			ev["outcome"] = "results"
		}
	}
	if _, err := r.server.Tx.Call("echo", []interface{}{"x"}, 5*time.Second); err != nil {
		ev["alive"] = false
		ev["msg"] = short(fmt.Sprintf("%v; echo afterwards: %v", ev["msg"], err))
		// continue on a fresh connection if the server still accepts one
		if c, derr := rawrpc.Dial("unix", r.server.Sock); derr == nil {
			c.Start()
			r.server.Tx.Close()
			r.server.Tx = c
		}
	}
	return ev
}

// Monitor: a raw monitor request on a connection of its own, then a commit that
// concerns the monitored table, then an echo: the server must answer the
// request (reply or error), survive the commit and keep serving.
func (r *TxnRunner) Monitor(tree *Node, method string) map[string]interface{} {
	ev := map[string]interface{}{"ev": "wtxn", "mode": "monitor:" + method, "outcome": "", "alive": true, "msg": ""}
	c, err := rawrpc.Dial("unix", r.server.Sock)
	if err != nil {
		ev["outcome"], ev["alive"], ev["msg"] = "dead", false, "dial: "+err.Error()
		return ev
	}
	defer c.Close()
	c.OnRequest = func(method string, params json.RawMessage) (interface{}, error) { return []interface{}{}, nil }
	c.Start()
	r.n++
	params := []json.RawMessage{json.RawMessage(`"wdb"`), json.RawMessage(fmt.Sprintf(`"mon%d"`, r.n)), json.RawMessage(tree.Bytes())}
	if method == "monitor_cond_since" {
		params = append(params, json.RawMessage(`"00000000-0000-0000-0000-000000000000"`))
	}
	_, err = c.Call(method, params, 10*time.Second)
	switch {
	case err != nil && strings.HasPrefix(err.Error(), "rpc error"):
		ev["outcome"] = "error"
	case err != nil:
		ev["outcome"], ev["msg"] = "dead", short(err.Error())
	default:
		ev["outcome"] = "results"
	}
	// a commit every monitor of table T hears about: insert, modify, delete
	name := fmt.Sprintf("m%d", r.n)
	for _, ops := range []string{
		`{"op":"insert","table":"T","row":{"c1":7,"c4":1,"c5":"` + name + `"}}`,
		`{"op":"update","table":"T","where":[["c5","==","` + name + `"]],"row":{"c1":8,"c2":["map",[["k","v"]]]}}`,
		`{"op":"delete","table":"T","where":[["c5","==","` + name + `"]]}`} {
		if _, err := r.server.Tx.Call("transact", []json.RawMessage{json.RawMessage(`"wdb"`), json.RawMessage(ops)}, 10*time.Second); err != nil {
			ev["alive"] = false
			ev["msg"] = short(fmt.Sprintf("%v; transact after the monitor request: %v", ev["msg"], err))
		}
	}
	if _, err := r.server.Tx.Call("echo", []interface{}{"x"}, 5*time.Second); err != nil {
		ev["alive"] = false
		ev["msg"] = short(fmt.Sprintf("%v; echo afterwards: %v", ev["msg"], err))
	}
	return ev
}

// ---- notifications sent to a real client

type notifClient struct {
	px  *proxy.Proxy
	cli client.Client
}

func (r *TxnRunner) newNotifClient() (*notifClient, error) {
	r.n++
	px, err := proxy.New(fmt.Sprintf("%s/px%d.sock", r.dir, r.n), r.server.Sock)
	if err != nil {
		return nil, err
	}
	l := logr.Discard()
	cli, err := client.NewOVSDBClient(r.b.ClientDB, client.WithEndpoint("unix:"+px.Path), client.WithLogger(&l))
	if err != nil {
		px.Close()
		return nil, err
	}
	ctx, cancel := context.WithTimeout(context.Background(), 10*time.Second)
	defer cancel()
	if err := cli.Connect(ctx); err != nil {
		px.Close()
		return nil, err
	}
	if _, err := cli.MonitorAll(ctx); err != nil {
		cli.Close()
		px.Close()
		return nil, err
	}
	return &notifClient{px: px, cli: cli}, nil
}

func (n *notifClient) close() {
	n.cli.Close()
	n.px.Close()
}

// Notif sends one update / update2 / update3 notification carrying the tree to a real client that monitors
// table T, as if its server had sent it: the client must take it (apply it, or refuse it and disconnect) without
// crashing, and a client must be able to work afterwards.
func (r *TxnRunner) Notif(tree *Node, method string) map[string]interface{} {
	ev := map[string]interface{}{"ev": "wtxn", "mode": "notif:" + method, "outcome": "", "alive": true, "msg": ""}
	if r.notif == nil {
		nc, err := r.newNotifClient()
		if err != nil {
			ev["outcome"], ev["alive"], ev["msg"] = "dead", false, "client set-up: "+short(err.Error())
			return ev
		}
		r.notif = nc
	}
	nc := r.notif
	id := nc.px.MonitorID()
	var msg string
	switch method {
	case "update3":
		msg = fmt.Sprintf(`{"id":null,"method":"update3","params":[%s,"00000000-0000-4000-9000-%012d",%s]}`, id, r.n, tree.Bytes())
	default:
		msg = fmt.Sprintf(`{"id":null,"method":%q,"params":[%s,%s]}`, method, id, tree.Bytes())
	}
	r.n++
	if nc.px.InjectToClient([]byte(msg)) == 0 {
		ev["msg"] = "no connection to inject into"
	}
	// a round trip behind the notification: the client has dealt with it when the echo returns
	ctx, cancel := context.WithTimeout(context.Background(), 5*time.Second)
	err := nc.cli.Echo(ctx)
	cancel()
	if err == nil && nc.cli.Connected() {
		ev["outcome"] = "results" // taken (applied or ignored)
		return ev
	}
	// refused: the client disconnects (cache inconsistency); a fresh client must be able to work
	ev["outcome"] = "error"
	nc.close()
	r.notif = nil
	nc2, err := r.newNotifClient()
	if err != nil {
		ev["alive"], ev["msg"] = false, "no client can be set up after the notification: "+short(err.Error())
		return ev
	}
	r.notif = nc2
	return ev
}

// Reply makes a real client establish one more monitor (of table T, by the given method) whose reply carries
// the tree instead of the table's contents: Monitor must return (an error or not) without crashing, and a
// client must be able to work afterwards.
func (r *TxnRunner) Reply(tree *Node, method string) map[string]interface{} {
	ev := map[string]interface{}{"ev": "wtxn", "mode": "reply:" + method, "outcome": "", "alive": true, "msg": ""}
	if r.notif == nil {
		nc, err := r.newNotifClient()
		if err != nil {
			ev["outcome"], ev["alive"], ev["msg"] = "dead", false, "client set-up: "+short(err.Error())
			return ev
		}
		r.notif = nc
	}
	nc := r.notif
	res := tree.Bytes()
	if method == "monitor_cond_since" {
		res = []byte(`[false,"00000000-0000-4000-9000-000000000001",` + string(tree.Bytes()) + `]`)
	}
	nc.px.ReplaceNextMonitorReply(res)
	ctx, cancel := context.WithTimeout(context.Background(), 5*time.Second)
	_, merr := nc.cli.Monitor(ctx, &client.Monitor{Method: method, Tables: []client.TableMonitor{{Table: "T", Fields: []string{"c1", "c5"}}}})
	cancel()
	ctx, cancel = context.WithTimeout(context.Background(), 5*time.Second)
	eerr := nc.cli.Echo(ctx)
	cancel()
	if merr == nil {
		ev["outcome"] = "results"
	} else {
		ev["outcome"] = "error"
		ev["msg"] = short("Monitor: " + merr.Error())
	}
	// whatever the reply did to the cache, start the next case from a fresh client
	nc.close()
	r.notif = nil
	if eerr != nil && merr == nil {
		ev["msg"] = "echo after the monitor: " + short(eerr.Error())
	}
	nc2, err := r.newNotifClient()
	if err != nil {
		ev["alive"], ev["msg"] = false, "no client can be set up after the reply: "+short(err.Error())
		return ev
	}
	r.notif = nc2
	return ev
}
