// Package recwire runs the wire-format cases of Wire.tla on the real codecs
// (C12, C19): typed JSON trees in, decode / encode / decode, typed trees out.
package recwire

import (
	"bytes"
	"encoding/json"
	"fmt"
	"math"
	"reflect"
	"sort"
	"strconv"
	"strings"

	"github.com/ovn-org/libovsdb/ovsdb"
)

// Node is a typed JSON tree (see Wire.tla): k = s|n|big|r|b|z|a|o.
type Node struct {
	K string           `json:"k"`
	S *string          `json:"s,omitempty"`
	N *int64           `json:"n,omitempty"`
	B *bool            `json:"b,omitempty"`
	A []*Node          `json:"a,omitempty"`
	O map[string]*Node `json:"o,omitempty"`
}

// UnmarshalJSON: TLC writes an empty function as [] where an object is meant.
func (n *Node) UnmarshalJSON(b []byte) error {
	var raw struct {
		K string          `json:"k"`
		S *string         `json:"s"`
		N *int64          `json:"n"`
		B *bool           `json:"b"`
		A json.RawMessage `json:"a"`
		O json.RawMessage `json:"o"`
	}
	if err := json.Unmarshal(b, &raw); err != nil {
		return err
	}
	n.K, n.S, n.N, n.B = raw.K, raw.S, raw.N, raw.B
	switch raw.K {
	case "a":
		n.A = []*Node{}
		if len(raw.A) > 0 {
			if err := json.Unmarshal(raw.A, &n.A); err != nil {
				return err
			}
		}
	case "o":
		n.O = map[string]*Node{}
		if len(raw.O) > 0 && strings.TrimSpace(string(raw.O)) != "[]" {
			if err := json.Unmarshal(raw.O, &n.O); err != nil {
				return err
			}
		}
	}
	return nil
}

// MarshalJSON writes every kind with its payload member, also when empty.
func (n *Node) MarshalJSON() ([]byte, error) {
	switch n.K {
	case "s", "big", "r":
		s := ""
		if n.S != nil {
			s = *n.S
		}
		return json.Marshal(map[string]interface{}{"k": n.K, "s": s})
	case "n":
		return json.Marshal(map[string]interface{}{"k": "n", "n": *n.N})
	case "b":
		return json.Marshal(map[string]interface{}{"k": "b", "b": *n.B})
	case "z":
		return []byte(`{"k":"z"}`), nil
	case "a":
		a := n.A
		if a == nil {
			a = []*Node{}
		}
		return json.Marshal(map[string]interface{}{"k": "a", "a": a})
	case "o":
		o := n.O
		if o == nil {
			o = map[string]*Node{}
		}
		return json.Marshal(map[string]interface{}{"k": "o", "o": o})
	}
	return nil, fmt.Errorf("bad node kind %q", n.K)
}

// Render writes the JSON text the tree stands for.
func (n *Node) Render(w *bytes.Buffer) {
	switch n.K {
	case "s":
		b, _ := json.Marshal(*n.S)
		w.Write(b)
	case "n":
		w.WriteString(strconv.FormatInt(*n.N, 10))
	case "big", "r":
		w.WriteString(*n.S)
	case "b":
		if *n.B {
			w.WriteString("true")
		} else {
			w.WriteString("false")
		}
	case "z":
		w.WriteString("null")
	case "a":
		w.WriteByte('[')
		for i, e := range n.A {
			if i > 0 {
				w.WriteByte(',')
			}
			e.Render(w)
		}
		w.WriteByte(']')
	case "o":
		w.WriteByte('{')
		keys := make([]string, 0, len(n.O))
		for k := range n.O {
			keys = append(keys, k)
		}
		sort.Strings(keys)
		for i, k := range keys {
			if i > 0 {
				w.WriteByte(',')
			}
			b, _ := json.Marshal(k)
			w.Write(b)
			w.WriteByte(':')
			n.O[k].Render(w)
		}
		w.WriteByte('}')
	}
}

func (n *Node) Bytes() []byte {
	var w bytes.Buffer
	n.Render(&w)
	return w.Bytes()
}

// Parse turns JSON text into a typed tree.
func Parse(b []byte) (*Node, error) {
	dec := json.NewDecoder(bytes.NewReader(b))
	dec.UseNumber()
	var v interface{}
	if err := dec.Decode(&v); err != nil {
		return nil, err
	}
	return fromIface(v), nil
}

func fromIface(v interface{}) *Node {
	switch x := v.(type) {
	case nil:
		return &Node{K: "z"}
	case bool:
		return &Node{K: "b", B: &x}
	case string:
		return &Node{K: "s", S: &x}
	case json.Number:
		return numNode(string(x))
	case []interface{}:
		n := &Node{K: "a", A: []*Node{}}
		for _, e := range x {
			n.A = append(n.A, fromIface(e))
		}
		return n
	case map[string]interface{}:
		n := &Node{K: "o", O: map[string]*Node{}}
		for k, e := range x {
			n.O[k] = fromIface(e)
		}
		return n
	}
	s := fmt.Sprintf("%v", v)
	return &Node{K: "s", S: &s}
}

// numNode classifies a JSON number: a small integer, an integer beyond 2^31
// (by its text) or a non-integral number (by its shortest text).
func numNode(text string) *Node {
	if i, err := strconv.ParseInt(text, 10, 64); err == nil {
		if i > -(1<<31) && i < (1<<31) {
			return &Node{K: "n", N: &i}
		}
		t := strconv.FormatInt(i, 10)
		return &Node{K: "big", S: &t}
	}
	f, err := strconv.ParseFloat(text, 64)
	if err != nil {
		return &Node{K: "r", S: &text}
	}
	if f == math.Trunc(f) && math.Abs(f) < (1<<31) {
		i := int64(f)
		return &Node{K: "n", N: &i}
	}
	if f == math.Trunc(f) && math.Abs(f) < 1e19 {
		t := strconv.FormatFloat(f, 'f', 0, 64)
		return &Node{K: "big", S: &t}
	}
	t := strconv.FormatFloat(f, 'g', -1, 64)
	return &Node{K: "r", S: &t}
}

func unwrapSingleton(v reflect.Value) reflect.Value {
	if v.IsValid() && v.CanInterface() {
		if set, ok := v.Interface().(ovsdb.OvsSet); ok && len(set.GoSet) == 1 {
			return reflect.ValueOf(set.GoSet[0])
		}
	}
	return v
}

// deepEq: reflect.DeepEqual that does not tell nil from empty slices and maps.
func deepEq(a, b reflect.Value) bool {
	if !a.IsValid() || !b.IsValid() {
		return a.IsValid() == b.IsValid()
	}
	if a.Type() != b.Type() {
		return false
	}
	switch a.Kind() {
	case reflect.Ptr, reflect.Interface:
		if a.IsNil() || b.IsNil() {
			return a.IsNil() == b.IsNil()
		}
		if a.Kind() == reflect.Interface {
			// where the schema is not known a one-element set and its element are the same value
			// (RFC 7047 5.1: <set> is either an <atom> or ["set", [...]])
			return deepEq(unwrapSingleton(a.Elem()), unwrapSingleton(b.Elem()))
		}
		return deepEq(a.Elem(), b.Elem())
	case reflect.Slice, reflect.Array:
		if a.Len() != b.Len() {
			return false
		}
		for i := 0; i < a.Len(); i++ {
			if !deepEq(a.Index(i), b.Index(i)) {
				return false
			}
		}
		return true
	case reflect.Map:
		if a.Len() != b.Len() {
			return false
		}
		for _, k := range a.MapKeys() {
			bv := b.MapIndex(k)
			if !bv.IsValid() || !deepEq(a.MapIndex(k), bv) {
				return false
			}
		}
		return true
	case reflect.Struct:
		for i := 0; i < a.NumField(); i++ {
			if !deepEq(a.Field(i), b.Field(i)) {
				return false
			}
		}
		return true
	}
	if a.CanInterface() && b.CanInterface() {
		return reflect.DeepEqual(a.Interface(), b.Interface())
	}
	// unexported scalar fields
	switch a.Kind() {
	case reflect.Bool:
		return a.Bool() == b.Bool()
	case reflect.Int, reflect.Int8, reflect.Int16, reflect.Int32, reflect.Int64:
		return a.Int() == b.Int()
	case reflect.Uint, reflect.Uint8, reflect.Uint16, reflect.Uint32, reflect.Uint64:
		return a.Uint() == b.Uint()
	case reflect.Float32, reflect.Float64:
		return a.Float() == b.Float()
	case reflect.String:
		return a.String() == b.String()
	}
	return false
}
