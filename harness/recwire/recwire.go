package recwire

import (
	"encoding/json"
	"fmt"
	"reflect"
	"runtime/debug"

	"github.com/ovn-org/libovsdb/ovsdb"
)

// Types maps the wire type names of Wire.tla to the exported Go types.
var Types = map[string]func() interface{}{
	"OvsSet":                func() interface{} { return &ovsdb.OvsSet{} },
	"OvsMap":                func() interface{} { return &ovsdb.OvsMap{} },
	"UUID":                  func() interface{} { return &ovsdb.UUID{} },
	"Row":                   func() interface{} { return &ovsdb.Row{} },
	"Condition":             func() interface{} { return &ovsdb.Condition{} },
	"Mutation":              func() interface{} { return &ovsdb.Mutation{} },
	"Operation":             func() interface{} { return &ovsdb.Operation{} },
	"Operations":            func() interface{} { return &[]ovsdb.Operation{} },
	"OperationResult":       func() interface{} { return &ovsdb.OperationResult{} },
	"TableUpdates":          func() interface{} { return &ovsdb.TableUpdates{} },
	"TableUpdates2":         func() interface{} { return &ovsdb.TableUpdates2{} },
	"RowUpdate":             func() interface{} { return &ovsdb.RowUpdate{} },
	"RowUpdate2":            func() interface{} { return &ovsdb.RowUpdate2{} },
	"MonitorRequest":        func() interface{} { return &ovsdb.MonitorRequest{} },
	"MonitorSelect":         func() interface{} { return &ovsdb.MonitorSelect{} },
	"MonitorCondSinceReply": func() interface{} { return &ovsdb.MonitorCondSinceReply{} },
	"BaseType":              func() interface{} { return &ovsdb.BaseType{} },
	"ColumnType":            func() interface{} { return &ovsdb.ColumnType{} },
	"ColumnSchema":          func() interface{} { return &ovsdb.ColumnSchema{} },
	"TableSchema":           func() interface{} { return &ovsdb.TableSchema{} },
	"DatabaseSchema":        func() interface{} { return &ovsdb.DatabaseSchema{} },
	"TransactResponse":      func() interface{} { return &ovsdb.TransactResponse{} },
}

type Case struct {
	Mode string `json:"mode"` // rt | dec
	T    string `json:"t"`
	Tree *Node  `json:"tree"`
}

func guard(f func() error) (err error, panicked string) {
	defer func() {
		if r := recover(); r != nil {
			st := string(debug.Stack())
			if len(st) > 1500 {
				st = st[:1500]
			}
			panicked = fmt.Sprintf("%v\n%s", r, st)
		}
	}()
	return f(), ""
}

// RoundTrip: decode the tree as T, encode, decode again.
func RoundTrip(c Case) map[string]interface{} {
	ev := map[string]interface{}{"ev": "rt", "t": c.T, "tree": c.Tree, "ok": false, "err": "", "tree2": &Node{K: "z"}, "equal": false, "panic": "", "byValue": true, "treeV": &Node{K: "z"}, "treeL": &Node{K: "z"}}
	mk, ok := Types[c.T]
	if !ok {
		ev["err"] = "unknown wire type"
		return ev
	}
	v1 := mk()
	err, p := guard(func() error { return json.Unmarshal(c.Tree.Bytes(), v1) })
	if p != "" {
		ev["panic"] = p
		return ev
	}
	if err != nil {
		ev["err"] = "decode: " + err.Error()
		return ev
	}
	var enc []byte
	err, p = guard(func() error {
		var e error
		enc, e = json.Marshal(v1)
		return e
	})
	if p != "" {
		ev["panic"] = p
		return ev
	}
	if err != nil {
		ev["err"] = "encode: " + err.Error()
		return ev
	}
	t2, err := Parse(enc)
	if err != nil {
		ev["err"] = "the encoder's output is not JSON: " + err.Error()
		return ev
	}
	ev["tree2"] = t2
	v2 := mk()
	err, p = guard(func() error { return json.Unmarshal(enc, v2) })
	if p != "" {
		ev["panic"] = p
		return ev
	}
	if err != nil {
		ev["err"] = "decode of the re-encoding: " + err.Error()
		return ev
	}
	ev["ok"] = true
	ev["equal"] = deepEq(reflect.ValueOf(v1), reflect.ValueOf(v2))
	// the encoding must not depend on how the value is handed to the encoder: by pointer (above), by value, as an
	// element of a parameter list
	ev["byValue"] = true
	if rv := reflect.ValueOf(v1); rv.Kind() == reflect.Ptr && !rv.IsNil() {
		var encV, encL []byte
		err, p = guard(func() error {
			var e error
			if encV, e = json.Marshal(rv.Elem().Interface()); e != nil {
				return e
			}
			encL, e = json.Marshal([]interface{}{rv.Elem().Interface()})
			return e
		})
		if p != "" {
			ev["panic"] = p
			return ev
		}
		// (compared as trees by the trace specification: the order of map entries is the encoder's to choose)
		tv, errV := Parse(encV)
		tl, errL := Parse(encL)
		if err != nil || errV != nil || errL != nil || tl.K != "a" || len(tl.A) != 1 {
			ev["byValue"] = false
		} else {
			ev["treeV"], ev["treeL"] = tv, tl.A[0]
		}
	}
	return ev
}

// Decode: the tree handed to T's decoder; value, error or panic.
func Decode(c Case) map[string]interface{} {
	ev := map[string]interface{}{"ev": "dec", "t": c.T, "tree": c.Tree, "outcome": "", "msg": ""}
	mk, ok := Types[c.T]
	if !ok {
		ev["outcome"] = "error"
		ev["msg"] = "unknown wire type"
		return ev
	}
	v := mk()
	err, p := guard(func() error { return json.Unmarshal(c.Tree.Bytes(), v) })
	switch {
	case p != "":
		ev["outcome"] = "panic"
		ev["msg"] = p
	case err != nil:
		ev["outcome"] = "error"
	default:
		// a value that decoded must also encode without panicking (a server echoes what it read)
		_, p = guard(func() error { _, e := json.Marshal(v); return e })
		if p != "" {
			ev["outcome"] = "panic"
			ev["msg"] = "encoding the decoded value: " + p
		} else {
			ev["outcome"] = "value"
		}
	}
	return ev
}

// ErrorRoundTrip: an error result -> typed error (CheckOperationResults) -> result (ResultFromError).
func ErrorRoundTrip(c Case) map[string]interface{} {
	ev := map[string]interface{}{"ev": "err", "result": map[string]interface{}{"error": "", "details": ""}, "back": map[string]interface{}{"error": "", "details": ""}}
	var r ovsdb.OperationResult
	if err := json.Unmarshal(c.Tree.Bytes(), &r); err != nil {
		ev["back"] = map[string]interface{}{"error": "decode: " + err.Error(), "details": ""}
		return ev
	}
	ev["result"] = map[string]interface{}{"error": r.Error, "details": r.Details}
	op := ovsdb.Operation{Op: "insert", Table: "T"}
	errs, _ := ovsdb.CheckOperationResults([]ovsdb.OperationResult{r}, []ovsdb.Operation{op})
	if len(errs) != 1 {
		ev["back"] = map[string]interface{}{"error": fmt.Sprintf("%d operation errors", len(errs)), "details": ""}
		return ev
	}
	var back ovsdb.OperationResult
	_, p := guard(func() error { back = ovsdb.ResultFromError(errs[0]); return nil })
	if p != "" {
		ev["back"] = map[string]interface{}{"error": "panic: " + p, "details": ""}
		return ev
	}
	ev["back"] = map[string]interface{}{"error": back.Error, "details": back.Details}
	return ev
}
