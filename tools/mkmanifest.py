#!/usr/bin/env python3
"""Regenerates MANIFEST.json from the table below (kept next to the checks so the
manifest never lags behind the registry)."""
import json, os, subprocess
V = os.path.dirname(os.path.dirname(os.path.abspath(__file__)))

TXN_TEXT = ("The reference model (spec/Txn.tla and the modules it extends) is model-checked by TLC over every history of an "
            "operation pool on the small schema (invariants on all reachable states); every enumerated transition and several "
            "thousand seeded random transactions over the small, kitchen-sink and random schemas are executed on the real "
            "transaction engine (and, for C02/C07, the real server with raw monitoring peers) and every recorded event (results, "
            "full post-state, reference index, notifications) is validated by TLC against the specification.")
API_TEXT = (" Operations built through the client's model API: Api.tla maps a call (Create, Where / WhereAll / WhereAny . Update / Mutate / "
            "Delete / Wait) and the cache contents to the operations it stands for; MC_Api.tla checks the contract's laws on ~1900 (database, call) "
            "pairs; each call is made on a synchronised client of a real server and TraceApi.tla judges results and contents as those of "
            "Txn(db, ApiOps(call, db)).")
TXN_NOTE = ("Trusted: TLC, the Go harness' projection of models to abstract JSON (exported API only), explicit uuids supplied by "
            "the harness. Bounds: values from small pools, integers within 2^30, dyadic reals, wait with timeout 0 only.")

P = {
 "C01": dict(engine="tla-session", cat="model_checking", ref="6 C01",
             text="Session.tla models the critical sections of monitor set-up (request, registration, reply hand-over, apply, deferred replay) "
                  "against the server's notify-then-commit; TLC checks CacheMirrors/NoInconsistency on every interleaving and refutes the two "
                  "pinned variants; TLC-enumerated schedules are forced on a real client, server and writer with the verif pause points for all "
                  "three monitor methods; random sessions of 2-3 real clients (first and additional monitors established at random points of random "
                  "histories, own and foreign transactions) are recorded and every cache snapshot is validated by TLC against the monitored part of the database.",
             note="Trusted: TLC, the pause points (they only delay), the harness' cache projection. The monitors of one client cover disjoint tables; only monitored columns are compared.",
             tech="TLC model checking of Session.tla + gate-forced schedule replay + TLC trace validation of recorded sessions"),
 "C02": dict(engine="tla-txn", cat="model_checking", text=TXN_TEXT, note=TXN_NOTE, ref="6 C02",
             tech="TLC model checking of Txn.tla (Atomic) + TLC trace validation of failing transactions on the real engine and server"),
 "C03": dict(engine="tla-txn", cat="model_checking", text=TXN_TEXT + API_TEXT, note=TXN_NOTE, ref="6 C03",
             tech="executable TLA+ reference model (Txn/Cond/Mutate) judging every recorded transaction (TLC trace validation)"),
 "C04": dict(engine="tla-txn", cat="model_checking", text=TXN_TEXT, note=TXN_NOTE, ref="6 C04",
             tech="TLC invariants RefsOK/Fix on MC_Txn + trace validation incl. reference index and reload (history independence)"),
 "C05": dict(engine="tla-cache", cat="model_checking", ref="6 C05",
             text="Cache.tla models RowCache index maintenance with the rows of a batch applied in any order; TLC checks IndexesAgree on "
                  "all (configuration, before, after) triples over 3 uuids and refutes the pinned algorithm; every enumerated batch is "
                  "applied to the real RowCache/TableCache in every order through three paths and all read paths are compared with a full scan by TLC.",
             note="Trusted: TLC; rows abstracted to two indexed fields; states before/after satisfy the unique indexes (as the server guarantees).",
             tech="TLC model checking of Cache.tla + enumerate-and-replay in all orders + TLC trace validation"),
 "C06": dict(engine="tla-txn", cat="model_checking", text=TXN_TEXT, note=TXN_NOTE, ref="6 C06",
             tech="TLC invariant UniqueOK on MC_Txn + must-accept/must-reject trace validation"),
 "C07": dict(engine="tla-txn", cat="model_checking", text=TXN_TEXT, note=TXN_NOTE, ref="6 C07",
             tech="Monitor.tla: each wire notification of the real server judged as the exact difference (TLC trace validation); MonitorGen.tla: TLC checks the judge against constructed notifications"),
 "C08": dict(engine="tla-cond", cat="model_checking", ref="6 C08",
             text="Cond.tla is the RFC 7047 section 5.1 semantics; MC_Cond.tla checks sanity laws (conjunction = intersection, == and != partition) and "
                  "enumerates, per column kind, every (function, argument) against a table holding every value of the kind, 1024 ordered pairs of a "
                  "32-condition pool and 800 triples; each case is evaluated by RowsByCondition under 7 index configurations and by select in a "
                  "transaction on integer/string/uuid/real columns, and through WhereAll/WhereAny List and the Delete/Update operations they generate on a "
                  "synchronised client; TLC compares every answer with Cond!Select; the selections of MC_Api's calls (Where(models) by uuid, by first and second "
                  "index, with unset fields; WhereAll / WhereAny, also on an enum column and with an ordering function on a string) must list exactly Api!Meant.",
             note="Trusted: TLC, value instantiation from an integer universe; binding self-test in every shard.",
             tech="TLA+ reference semantics (Cond.tla) + exhaustive enumerate-and-replay under index configurations + TLC trace validation"),
 "C10": dict(engine="tla-diff", cat="model_checking", ref="6 C10",
             text="Diff.tla states the update2 difference algebra; TLC checks the laws (empty iff equal, Apply(a, Diff(a,b)) = b, merge law, toggle) "
                  "exhaustively over all pairs of subsets of a 4-element universe, all pairs of maps over 3 keys x 2 values, optionals and atoms, "
                  "and enumerates the same pairs; each pair runs through AddOperation(update) -> Modify -> JSON -> AddRowUpdate2 on the real updates "
                  "package for integer/string/real/uuid columns in several element orders (plus seeded random larger values) and TLC validates every outcome.",
             note="Trusted: TLC, harness value instantiation; a binding self-test (a corrupted event must be rejected) runs in every shard.",
             tech="TLC-checked algebraic laws + exhaustive enumerate-and-replay + TLC trace validation"),
 "C11": dict(engine="tla-diff", cat="model_checking", ref="6 C11",
             text="Merge.tla transcribes merge.go's case analysis; TLC checks over every sequence (length <= 4) of 23 operations on one row from 4 "
                  "starting rows that the accumulated update equals the single net update; the sequences are executed through AddOperation + Merge "
                  "on the real updates package (as a transaction does) on four column type groups and TLC validates ForEachModelUpdate / ForEachRowUpdate / GetModel.",
             note="Trusted: TLC, harness value instantiation; binding self-test in every shard. delete followed by re-insert is outside the model.",
             tech="TLC model checking of Merge.tla + enumerate-and-replay + TLC trace validation"),
 "C16": dict(engine="tla-session", cat="model_checking", ref="6 C16",
             text="Reconn.tla models loss of the connection at any point, reconnection, sequential restart of the monitors with the purge rule, and "
                  "commits by other clients meanwhile, against a server that does not know the quoted transaction id and one that does (reply = rows changed "
                  "since; ghost state = what the quoted ids stand for); TLC checks Resynchronised on every interleaving for 1 and 2 monitors and refutes the "
                  "pinned purge rule and the variant in which several monitors quote their ids; "
                  "TLC-enumerated fault scenarios run on a real client with the reconnect option behind a message-boundary aware fault-injecting proxy "
                  "(cut after / inside the k-th message of a direction, in steady state and again while reconnecting; silent peer + inactivity probe; "
                  "transactions by others while away; Transact calls in flight; the proxy's since mode turns the built-in server into one that remembers "
                  "transaction ids: any id issued since the contents last went out in full is answered with found = true and what followed is sent again) and TraceTxn.tla judges convergence of the cache and the "
                  "exactly-once / at-most-once outcome of every marked Transact call.",
             note="Trusted: TLC, the proxy; convergence is awaited for 15 s. Leader-only endpoint selection is not exercised yet (see DESIGN.md).",
             tech="TLC model checking of Reconn.tla + fault-injection replay of enumerated scenarios + TLC trace validation"),
 "C17": dict(engine="tla-txn", cat="model_checking", ref="6 C17",
             text="Server.tla models the transact handler as a lock protocol (lock, execute, notify, commit, reply) and TLC checks no lost increment, one "
                  "winner and notification order = commit order, refuting the nolock and commitAfterUnlock variants; concurrent raw clients run contended "
                  "workloads against the real server and TraceSerial.tla lets TLC search for a serial order (respecting real time) in which the reference "
                  "model reproduces every result, every monitor's message sequence and the final contents; monitors established while the clients run must "
                  "join that order at one point between request and reply (initial contents = the database there).",
             note="Trusted: TLC, per-call invocation/response stamps from one atomic counter; a failed call is placed without effect.",
             tech="TLC model checking of Server.tla + linearisation search by TLC over recorded concurrent executions"),
 "C13": dict(engine="tla-iso", cat="model_checking", ref="6 C13",
             text="Iso.tla is a heap model of the cache's copy discipline (write paths store a copy, read paths hand out a copy); TLC checks that "
                  "nothing a caller does to a model it holds changes what the cache shows and refutes the aliasIn/aliasOut variants; MC_Iso enumerates "
                  "every (model family x write path x mutation), (family x 14 read paths x field kind x mutation) and Clone/Equal law case; each is "
                  "executed on the real cache, a synchronised client and event handlers for run-time, hand-written and generated models, judged by TraceIso.tla.",
             note="Trusted: TLC; the harness' mutations by reflection; RowsShallow exempt as documented.",
             tech="TLC model checking of a heap model (Iso.tla) + exhaustive enumerate-and-replay + TLC trace validation"),
 "C14": dict(engine="tla-session", cat="model_checking", ref="6 C14",
             text="Events.tla models the event processor (bounded buffer, updater and dispatcher goroutines, several handlers); TLC checks on every "
                  "interleaving that what a handler saw is a prefix of the applied changes, that handlers agree and that folding reproduces the cache, and "
                  "refutes a per-handler delivery variant; recording handlers on real clients' caches capture every callback of random sessions and "
                  "TraceTxn.tla folds them (legality of each event, result = cache contents, equal sequences) after a FIFO marker barrier.",
             note="Trusted: TLC; the marker barrier (a later event proves the earlier ones were delivered). Buffer overflow and reconnect purges are outside the statement.",
             tech="TLC model checking of Events.tla + TLC trace validation of recorded handler callbacks"),
 "C09": dict(engine="tla-wire", cat="model_checking", ref="6 C09",
             text="Mapper.tla gives for every column type of the type space (each atomic type as key; min/max 1..1, 0..1, 0..n, 1..n, bounded; string and "
                  "integer enums; maps over key and value types) the one Go type a model field may have (NativeType) and the wire encoding Enc(column, value) "
                  "of every native value; TLC checks the type laws and enumerates (column type x 24 candidate Go types) and (column type x value) incl. "
                  "64-bit extremes, nil/non-nil optionals, empty/singleton/multi collections; the real mapper binds each model (NewInfo and NewDatabaseModel must "
                  "accept exactly NativeType), writes it with NewRow, sends it through JSON, reads it back with GetRowData and CreateModel; TraceMapper.tla "
                  "judges the JSON, the value read back and that absent columns leave fields untouched.",
             note="Trusted: TLC, the harness' construction of Go values from abstract ones. Known finding: integers beyond 2^53.",
             tech="TLA+ type and encoding functions (Mapper.tla on Wire.tla) + exhaustive enumerate-and-replay through mapper and JSON + TLC trace validation"),
 "C12": dict(engine="tla-wire", cat="model_checking", ref="6 C12",
             text="Wire.tla is a grammar of JSON trees for the 18 wire types (all ten operations with and without optional members, every condition function and "
                  "mutator, sets, maps, uuids and named uuids over every atomic type, rows, both update formats, monitor requests, selects and replies, results "
                  "and errors, schemas with every base-type constraint, min/max/unlimited, ephemeral, mutable, isRoot, indexes) and a type-directed meaning "
                  "relation Eq whose laws TLC checks; every valid encoding of the bounded grammar is decoded, encoded and decoded again by the real codecs and "
                  "TraceWire.tla demands Eq(encoding, re-encoding) and equal decoded values - also when the value is handed to the encoder by value or inside a "
                  "parameter list; error results go through the typed errors and back.",
             note="Trusted: TLC, the typed-tree rendering of JSON. Values start from decodings of valid encodings; nil and empty collections are one value; in "
                  "schema-less positions a one-element set is its element. Known finding: integers beyond 2^53.",
             tech="TLA+ grammar and meaning relation (Wire.tla) + exhaustive enumerate-and-replay through the codecs + TLC trace validation"),
 "C19": dict(engine="tla-wire", cat="model_checking", ref="6 C19",
             text="From Wire.tla TLC enumerates every tree one local edit away from a valid encoding (node replaced by junk, element or member dropped, element "
                  "appended) and every small tree over the keyword atoms; each is handed to the decoders under recover (decoded values are also encoded); "
                  "corrupted transactions (dropped members, swapped kinds, every arithmetic mutator with 0) run on the transaction engine and as raw requests "
                  "followed by an echo on a real server, a crash of the process being attributed to the request in flight; sound, foreign (unknown table / "
                  "column, ill-typed, null rows, row updates with several members or none) and corrupted update / update2 / update3 notifications, and the same "
                  "trees as the contents of monitor replies, are sent to a real client through the proxy; TraceWire.tla "
                  "accepts value/error, results/error and a live server / a working client only.",
             note="Trusted: TLC; encoding/json rejects non-JSON bytes before libovsdb code runs, so trees suffice. Long or deeply nested inputs and coverage-guided "
                  "byte fuzzing are outside this technique (bounded exhaustive enumeration instead).",
             tech="TLA+ grammar with a corruption operator (Wire.tla) + exhaustive enumerate-and-replay on decoders, engine and server + TLC trace validation"),
 "C20": dict(engine="tla-wire", cat="model_checking", ref="6 C20",
             text="MC_Gen.tla spreads every column type of Mapper.tla (each atomic type as key in the 1..1, 0..1, 0..n, 1..n and bounded shapes, maps, enum columns "
                  "of string, integer, real and boolean type, optional and multi-valued) over tables whose names have underscores, lower case or initialisms and "
                  "columns named like Go keywords, and states the Go type of every field (NativeType). Per (schema, extended, enum types): the generator runs "
                  "twice (byte-identical), the package is built in a scratch module against /repo, loaded with NewDatabaseModel(schema, FullDatabaseModel()), every "
                  "field's reflect type is compared with the specification, and the generated DeepCopy / Equals are compared with model.Clone / model.Equal "
                  "(equal copy, no shared memory, models differing in one field, zero against filled, nil against empty); TraceGen.tla judges.",
             note="Trusted: TLC, the Go toolchain. 'Compiles' and 'identical from run to run' are direct observations; the specification contributes the schema space, "
                  "the expected field types and the copy/equality laws.",
             tech="TLA+ schema space and type function (MC_Gen.tla on Mapper.tla) + generate/build/load replay + TLC trace validation"),
 "C18": dict(engine="tla-locks", cat="model_checking", ref="6 C18",
             text="Locks.tla models the client's mutexes (Go RWMutex semantics incl. writer preference) and each call as a sequence of lock steps; TLC "
                  "checks that no interleaving deadlocks and nothing keeps a lock, for the documented protocol (and refutes the three protocols of the "
                  "pinned commit) and for the protocol extracted from client/client.go by a source walker (every mutex operation per function and return "
                  "path, callees inlined; every multiset of three entry points; declared lock order). TLC-enumerated call sequences (each API call failing "
                  "in each way it can, then further calls) and three gated races run on a real client with a deadline per call, judged by TraceCalls.tla; "
                  "readers on every cache read path, API calls, a writer, monitor set-up and connection churn run under the race detector with rows that "
                  "carry one version in all fields.",
             note="Trusted: TLC, the source walker (it refuses to answer when it meets a construct it does not know; Transact's reconnect wait loop is left to "
                  "the dynamic runs), the 10 s deadline, the Go race detector (reports touching client or cache).",
             tech="TLC model checking of Locks.tla (documented and source-extracted protocol) + gated call-sequence replay + TLC trace validation + race detector"),
 "C15": dict(engine="tla-txn", cat="model_checking", text=TXN_TEXT + API_TEXT, note=TXN_NOTE, ref="6 C15",
             tech="type-directed name expansion in Txn.tla judging recorded transactions with named inserts"),
}
ENGINES = {
 "tla-txn": ("spec/TraceTxn.tla", "TLA+ reference model of OVSDB transactions, references, indexes and monitors + TLC trace validation of executions recorded from the real engine/server"),
 "tla-iso": ("spec/Iso.tla", "heap model of cached-model isolation and Clone/Equal laws, enumerate-and-replay on cache/client/handlers"),
 "tla-cond": ("spec/Cond.tla", "RFC 7047 condition semantics in TLA+, enumeration of condition cases, validation of cache/select/API selections"),
 "tla-session": ("spec/Session.tla", "TLA+ model of monitor set-up vs notify/commit (Session.tla), schedules forced with pause points, sessions validated by TraceTxn.tla"),
 "tla-diff": ("spec/Diff.tla", "TLA+ difference algebra and update aggregation (Diff.tla, Merge.tla) + enumerate-and-replay through the updates package"),
 "tla-locks": ("spec/Locks.tla", "TLA+ model of the client's lock protocol, fed both by the documented steps and by steps extracted from client.go; call sequences and gated races on a real client"),
 "tla-wire": ("spec/Wire.tla", "TLA+ grammar of RFC 7047 JSON notation with meaning relation and corruption operator; codecs, transaction engine and server driven with the enumerated trees"),
 "tla-cache": ("spec/Cache.tla", "TLA+ state machine of the row cache's index maintenance + enumerate-and-replay + TLC trace validation"),
}
ALL = ["C%02d" % i for i in range(1, 21)]
NA_REASON = "check not built yet in this round (order of work in DESIGN.md section 10); no claim is made"

hooks_commits = []
try:
    out = subprocess.run(["git", "-C", "/repo", "log", "--format=%h %s"], capture_output=True, text=True).stdout
    hooks_commits = [l.split()[0] for l in out.splitlines() if l.split(" ", 1)[1].startswith("verif:")]
except Exception:
    pass

checks = []
for p in ALL:
    if p not in P:
        continue
    d = P[p]
    checks.append({
        "property_id": p,
        "quick_cmd": "bin/check %s --tier quick" % p,
        "thorough_cmd": "bin/check %s --tier thorough" % p,
        "evidence_file": "/verif/evidence/%s.json" % p,
        "replay_cmd_template": "bin/check %s --replay {path}" % p,
        "engine": d["engine"],
        "level_claimed": {"category": d["cat"], "text": d["text"], "design_ref": "DESIGN.md section " + d["ref"]},
        "level_note": d["note"],
        "technique": d["tech"],
    })
m = {"version": 1, "setup_cmd": "bin/setup",
     "hooks": {"guard": "verif",
               "enable": "go build -tags verif (the harness module /verif/harness replaces github.com/ovn-org/libovsdb with /repo)",
               "baseline_off_cmd": "cd /repo && go test -mod=mod -json -vet=off -count=1 -timeout 25m ./...",
               "source_commits": hooks_commits, "add_only": True},
     "engines": [{"name": n, "path": ENGINES[n][0], "kind_free_text": ENGINES[n][1],
                  "serves_properties": [p for p in ALL if p in P and P[p]["engine"] == n]} for n in ENGINES],
     "checks": checks,
     "notes": "All checks: exit 0 held / exit 1 VIOLATION / exit 2 broken or inconclusive. VERIF_SEED selects generator seeds. "
              "Genuine defects repaired in /repo are listed as fixed in known_findings.json.",
     "not_applicable": [{"property_id": p, "reason": NA_REASON} for p in ALL if p not in P]}
json.dump(m, open(os.path.join(V, "MANIFEST.json"), "w"), indent=1)
print("manifest: %d checks, %d not applicable" % (len(checks), len(m["not_applicable"])))
