#!/usr/bin/env python3
"""Applies every seeded change of /verif/seeded to /repo in turn (git apply), runs the quick check(s) that are
recorded as catching it and expects a VIOLATION line; undoes the change (git checkout -- .) before the next one.
A patch that no longer applies (the code it touched was repaired or moved) is reported as such.
Not part of any registered check: a self-test of the machinery, run by hand."""
import json, os, re, subprocess, sys, glob, time
V = os.path.dirname(os.path.dirname(os.path.abspath(__file__)))
only = set(sys.argv[1:])
rows = []
for d in sorted(glob.glob(os.path.join(V, "seeded", "*"))):
    sid = os.path.basename(d)
    if only and sid not in only:
        continue
    meta = json.load(open(os.path.join(d, "meta.json")))
    props = re.findall(r"C\d\d", meta.get("caught_by", "")) or [meta["property"][:3]]
    props = list(dict.fromkeys(props))
    st = subprocess.run(["git", "-C", "/repo", "status", "--porcelain"], capture_output=True, text=True).stdout.strip()
    if st:
        print("refusing: /repo has uncommitted changes:\n" + st)
        sys.exit(2)
    p = subprocess.run(["git", "-C", "/repo", "apply", "--check", os.path.join(d, "patch.diff")], capture_output=True, text=True)
    if p.returncode != 0:
        rows.append((sid, "-", "patch no longer applies"))
        print(sid, "patch no longer applies:", p.stderr.strip()[:200])
        continue
    subprocess.run(["git", "-C", "/repo", "apply", os.path.join(d, "patch.diff")], check=True)
    try:
        for prop in props[:1]:
            t0 = time.time()
            r = subprocess.run([os.path.join(V, "bin", "check"), prop, "--tier", "quick"], capture_output=True, text=True, cwd=V)
            hit = "VIOLATION property=%s" % prop in r.stdout
            rows.append((sid, prop, "caught" if hit else "MISSED (exit %d)" % r.returncode))
            print(sid, prop, "caught" if hit else "MISSED (exit %d)" % r.returncode, "%ds" % (time.time() - t0), flush=True)
    finally:
        subprocess.run(["git", "-C", "/repo", "checkout", "--", "."], check=True)
subprocess.run("find %s -name '*.json' -delete" % os.path.join(V, "replays"), shell=True)
missed = [r for r in rows if r[2].startswith("MISSED")]
print("\n%d seeded changes, %d caught, %d missed, %d stale" % (len(rows), sum(1 for r in rows if r[2] == "caught"), len(missed),
                                                               sum(1 for r in rows if "applies" in r[2])))
sys.exit(1 if missed else 0)
